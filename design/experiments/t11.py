from run import run
run("""
- plugin: snowfakery.standard_plugins.UniqueId
- var: G1
  value:
    UniqueId.AlphaCodeGenerator:
      min_chars: 8
- var: G2
  value:
    UniqueId.AlphaCodeGenerator:
      min_chars: 8
- object: A
  count: 3
  fields:
    a: ${{G1.unique_id}}
    b: ${{G2.unique_id}}
    c: ${{unique_alpha_code}}
    d: ${{unique_id}}
    e: ${{UniqueId.unique_id}}
""")
