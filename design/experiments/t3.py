from t2 import run2
print("=== just_once with forward reference (NicknameSlot) & random_reference & literal ref")
run2("""
- object: T
  count: 2
- object: Q
  just_once: true
  nickname: qq
  fields:
    fwd:
      reference: Later
    rr:
      random_reference: T
    lit:
      reference:
        object: T
        id: 2
- object: Later
- object: C
  fields:
    a:
      reference: qq.fwd
    b:
      reference: qq.rr
    c:
      reference: qq.lit
""")
