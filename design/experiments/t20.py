import warnings; warnings.simplefilter("ignore")
from run import run
print("== exclude date with non-UTC start zone")
run("""
- plugin: snowfakery.standard_plugins.Schedule
- object: E
  count: 4
  fields:
    t:
      Schedule.Event:
        start_date: 2024-03-01T10:00:00+05:00
        freq: daily
        exclude: 2024-03-02
""")
print("== same in UTC")
run("""
- plugin: snowfakery.standard_plugins.Schedule
- object: E
  count: 4
  fields:
    t:
      Schedule.Event:
        start_date: 2024-03-01T10:00:00
        freq: daily
        exclude: 2024-03-02
""")
print("== until date with negative offset start")
run("""
- plugin: snowfakery.standard_plugins.Schedule
- object: E
  for_each:
    var: ev
    value:
      Schedule.Event:
        start_date: 2024-03-01T10:00:00-05:00
        freq: daily
        until: 2024-03-03
  fields:
    t: ${{ev}}
""")
print("== until date UTC")
run("""
- plugin: snowfakery.standard_plugins.Schedule
- object: E
  for_each:
    var: ev
    value:
      Schedule.Event:
        start_date: 2024-03-01T10:00:00
        freq: daily
        until: 2024-03-03
  fields:
    t: ${{ev}}
""")
print("== include date non-UTC")
run("""
- plugin: snowfakery.standard_plugins.Schedule
- object: E
  count: 3
  fields:
    t:
      Schedule.Event:
        start_date: 2024-03-01T10:00:00+05:00
        freq: weekly
        include: 2024-03-02
""")
