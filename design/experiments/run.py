import sys, io, warnings
from snowfakery import generate_data
from snowfakery.data_generator import generate
from snowfakery.output_streams import DebugOutputStream
def run(recipe, **kw):
    out = io.StringIO()
    try:
        generate(io.StringIO(recipe), output_stream=DebugOutputStream(out), **kw)
    except Exception as e:
        print("EXC", type(e).__name__, str(e)[:300])
    print(out.getvalue())
if __name__ == "__main__":
    run(open(sys.argv[1]).read())
