from t2 import run2
run2("""
- snowfakery_version: 3
- object: Q
  just_once: true
  nickname: qq
  fields:
    dec: 5
    dt: ${{datetime(year=2000, month=1, day=1, hour=3)}}
    d: ${{date(year=2000, month=1, day=1)}}
    f: ${{ 1.5 }}
    b: ${{ True }}
    n: ${{ None }}
    big: ${{ 2 ** 80 }}
    s1: "12"
    s2: "null"
    s3: "yes"
    s4: "2020-01-01"
    s5: "1e3"
    s6: "~"
    s7: " lead"
    s8: "multi\\nline"
    s9: "0x10"
- object: C
  fields:
    t_dec: ${{ qq.dec.__class__.__name__ }}
    t_dt: ${{ qq.dt.__class__.__name__ }}
    v_dt: ${{ qq.dt.isoformat() }}
    t_d: ${{ qq.d.__class__.__name__ }}
    t_f: ${{ qq.f.__class__.__name__ }}
    t_b: ${{ qq.b.__class__.__name__ }}
    t_n: ${{ qq.n.__class__.__name__ }}
    t_big: ${{ qq.big.__class__.__name__ }}
    t_s: ${{ qq.s1.__class__.__name__ }}${{ qq.s2.__class__.__name__ }}${{ qq.s3.__class__.__name__ }}${{ qq.s4.__class__.__name__ }}${{ qq.s5.__class__.__name__ }}${{ qq.s6.__class__.__name__ }}${{ qq.s9.__class__.__name__ }}
    v_s7: "[${{ qq.s7 }}]"
    v_s8: ${{ qq.s8 | length }}
""")
