import io, warnings; warnings.simplefilter("ignore")
from t2 import run2
print("###### just_once probes")
run2("""
- object: S
  just_once: true
  count: 2
  nickname: ss
  fields:
    n: ${{child_index}}
- object: A
  fields:
    r1:
      reference: S
    r2:
      reference: ss
    v: ${{ss.n}}
- object: S
  fields:
    n: 9
- object: B
  fields:
    r1:
      reference: S
    r2:
      reference: ss
""", n_runs=2)
