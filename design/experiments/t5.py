import io, tempfile, os, yaml
from run import run
from snowfakery.api import generate_data
print("=== options falsy")
R = """
- option: x
  default: 5
- object: A
  fields:
    v: ${{x}}
"""
for v in [0, False, "", 7]:
    run(R, user_options={"x": v})
R2 = """
- option: x
  default: 0
- object: A
  fields:
    v: ${{x}}
"""
run(R2)
print("=== schedule bysecond")
run("""
- plugin: snowfakery.standard_plugins.Schedule
- object: E
  count: 3
  fields:
    t:
      Schedule.Event:
        start_date: 2024-03-01T00:00:00
        freq: minutely
        bysecond: 30
""")
run("""
- plugin: snowfakery.standard_plugins.Schedule
- object: E
  count: 3
  fields:
    t:
      Schedule.Event:
        start_date: 2024-03-01T00:00:00
        freq: minutely
        bysecond: 0,20
""")
print("=== csv + update_key")
d = tempfile.mkdtemp()
try:
    generate_data(io.StringIO("""
- object: A
  update_key: name
  fields:
    name: x
"""), output_format="csv", output_folder=d)
    print(os.listdir(d)); print(open(d+"/A.csv").read())
except Exception as e:
    print("EXC", type(e).__name__, e)
