import io, warnings
warnings.simplefilter("ignore")
from run import run
from t2 import run2
print("== D10 modulus")
from snowfakery.utils.randomized_range import random_range
import math
for mx in [2**48+1, 2**49+1, 2**52+1]:
    g = random_range(0, mx); next(g)
    print(mx, g.gi_frame.f_locals["modulus"] >= mx, math.ceil(math.log2(mx)))
print("== D18 partial underscore")
run("""
- object: A
  fields:
    a:
      fake: date_timebetween
""")
run("""
- object: A
  fields:
    a:
      fake: First_Name
    b:
      fake: FIRSTNAME
    c:
      fake: first__name
""")
print("== D19 unique id across runs")
R = """
- object: A
  fields:
    u: ${{unique_id}}
"""
run(R); run(R)
print("== D20 continued no progress")
R = """
- object: T
  just_once: true
- object: M
"""
from snowfakery.api import generate_data
c1 = io.StringIO()
generate_data(io.StringIO(R), generate_continuation_file=c1, output_file=io.StringIO(), output_format="txt", target_number=("T", 1))
out = io.StringIO()
try:
    generate_data(io.StringIO(R), continuation_file=io.StringIO(c1.getvalue()), output_file=out, output_format="txt", target_number=("T", 1))
except Exception as e:
    print("EXC", type(e).__name__, str(e)[:200])
print(out.getvalue())
