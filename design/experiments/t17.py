import warnings; warnings.simplefilter("ignore")
from run import run
from snowfakery.data_generator import generate
from snowfakery.api import SnowfakeryApplication
from snowfakery.data_generator_runtime import StoppingCriteria
import io
from snowfakery.output_streams import DebugOutputStream
R = """
- snowfakery_version: 3
- object: Early
  fields:
    sees_late: ${{ late | default("undef") }}
- var: v
  value: 10
- object: P
  count: 2
  fields:
    a: ${{v}}
    kid:
      - object: K
        fields:
          pv: ${{v}}
          ci: ${{child_index}}
          parent_a: ${{P.a}}
  friends:
    - var: fv
      value: ${{ P.id * 100 }}
    - object: F
      fields:
        x: ${{fv}}
        y: ${{v}}
    - var: v
      value: 99
    - object: F2
      fields:
        y: ${{v}}
- object: After
  fields:
    y: ${{v}}
    z: ${{ fv | default("undef") }}
- var: late
  value: 1
"""
out = io.StringIO()
generate(io.StringIO(R), output_stream=DebugOutputStream(out), stopping_criteria=StoppingCriteria("__REPS__", 2))
print(out.getvalue())
