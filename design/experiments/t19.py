import itertools, random
# oct9 injectivity brute force
def enc(ps): return int("9".join(oct(p)[2:] for p in ps))
seen = {}
bad = 0
for L in range(1,4):
    for ps in itertools.product(range(0, 70), repeat=L):
        v = enc(ps)
        if v in seen and seen[v] != ps:
            bad += 1
            if bad < 5: print("COLLISION", ps, seen[v], v)
        seen[v] = ps
print("oct9 tuples", len(seen), "collisions", bad)

# URR with fix: do not overwrite self.min
from snowfakery.utils import randomized_range as rr
class URRFixed(rr.UpdatableRandomRange):
    def __next__(self):
        rv = next(self.num_generator, None)
        if rv is not None: return rv
        if self.cur_max <= self.orig_max: raise StopIteration()
        self.num_generator = rr.random_range(self.orig_max, self.cur_max)
        self.orig_max = self.cur_max
        return next(self.num_generator)
def trial(cls, seed):
    rnd = random.Random(seed)
    lo = rnd.randint(0,5); hi = lo + rnd.randint(1,4)
    u = cls(lo, hi); out = []; cur_lo, cur_hi = lo, hi
    for _ in range(rnd.randint(1,25)):
        op = rnd.random()
        try:
            if op < 0.55:
                try: out.append(next(u))
                except StopIteration: pass
            elif op < 0.9:
                cur_hi += rnd.randint(0,3); u.set_new_range(cur_lo, cur_hi)
            else:
                # move to disjoint range
                cur_lo = cur_hi + rnd.randint(0,2); cur_hi = cur_lo + rnd.randint(1,4); out_before = list(out)
                u.set_new_range(cur_lo, cur_hi)
        except AssertionError as e:
            return "assert"
    # drain
    out.extend(list(u))
    if len(set(out)) != len(out): return "repeat"
    tail = [x for x in out if x >= cur_lo]
    if sorted(tail) != list(range(cur_lo, cur_hi)): return "incomplete"
    return "ok"
from collections import Counter
print("orig ", Counter(trial(rr.UpdatableRandomRange, s) for s in range(3000)))
print("fixed", Counter(trial(URRFixed, s) for s in range(3000)))
