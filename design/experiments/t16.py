import io, warnings
warnings.simplefilter("ignore")
from snowfakery.data_generator import generate
from snowfakery.output_streams import OutputStream
class Cap(OutputStream):
    def __init__(self): self.rows=[]
    def write_row(self, t, row): self.rows.append((t, {k:(type(v).__name__, getattr(v,'_tablename',None), getattr(v,'id',v)) for k,v in row.items()}))
    def write_single_row(self,*a): pass
    def close(self): pass
R = """
- snowfakery_version: %d
- object: A
  nickname: nn
  fields:
    a: 5
    b: "12"
    c: ${{a + 1}}
    d: x${{a}}y
    e: ${{a}}${{a}}
    g: ${{nn}}
    h: ${{a - 9}}
    i: ${{B}}
    j: ${{this.a * 2}}
    k: ${{id}}
    l: ${{child_index}}
    m: "007"
    n: ${{ "x" ~ a }}
    o: ${{ B.id }}
- object: B
"""
for v in (2,3):
    c = Cap()
    try:
        generate(io.StringIO(R % v), output_stream=c)
    except Exception as e: print("EXC", e)
    for r in c.rows: print(v, r)
