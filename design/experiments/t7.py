import io, warnings
from snowfakery.data_generator import generate
from snowfakery.output_streams import DebugOutputStream
from snowfakery.data_gen_exceptions import DataGenError
warnings.simplefilter("ignore")
docs = {
 "friends_scalar_items": "- object: A\n  friends:\n    - 5\n",
 "field_list": "- object: A\n  fields:\n    x: [1,2]\n",
 "nonstring_key": "- object: A\n  5: foo\n",
 "toplevel_weird_key": "- 5: foo\n",
 "object_int": "- object: 5\n",
 "var_no_value": "- var: x\n",
 "include_abs": "- include_file: /etc/passwd\n",
 "macro_int": "- macro: 5\n  fields: {a: b}\n- object: A\n  include: 5\n",
 "count_list": "- object: A\n  count: [1]\n",
 "count_neg": "- object: A\n  count: -1\n",
 "count_str": "- object: A\n  count: abc\n",
 "fields_list": "- object: A\n  fields:\n   - a: b\n",
 "nickname_int": "- object: A\n  nickname: 5\n",
 "empty": "",
 "scalar": "foo",
 "dict": "a: b",
 "null_item": "- \n",
 "field_empty_dict": "- object: A\n  fields:\n    x: {}\n",
 "reference_none": "- object: A\n  fields:\n    x:\n      reference:\n",
 "random_ref_dict": "- object: A\n  fields:\n    x:\n      random_reference:\n        to: {a: b}\n",
 "random_ref_noarg": "- object: A\n  fields:\n    x:\n      random_reference: {}\n",
 "random_number_str": "- object: A\n  fields:\n    x:\n      random_number: {min: a, max: b}\n",
 "random_number_missing": "- object: A\n  fields:\n    x:\n      random_number: {min: 1}\n",
 "func_two_dots": "- object: A\n  fields:\n    x:\n      a.b.c: 1\n",
 "option_nonstr": "- option: [1]\n",
 "plugin_int": "- plugin: 5\n",
 "plugin_nodot": "- plugin: foo\n",
 "version_bad": "- snowfakery_version: x\n",
 "for_each_str": "- object: A\n  for_each: abc\n",
 "for_each_novar": "- object: A\n  for_each:\n    value: 5\n",
 "just_once_str": "- object: A\n  just_once: maybe\n",
 "date_key": "- object: A\n  fields:\n    2020-01-01: x\n",
 "bool_field_name": "- object: A\n  fields:\n    yes: x\n",
 "jinja_bad": "- object: A\n  fields:\n    x: ${{ 1 + }}\n",
 "jinja_undefined": "- object: A\n  fields:\n    x: ${{ foo.bar }}\n",
 "jinja_div0": "- object: A\n  fields:\n    x: ${{ 1 / 0 }}\n",
 "count_jinja_none": "- object: A\n  count: ${{ None }}\n",
 "if_nochoice": "- object: A\n  fields:\n    x:\n      if: 5\n",
 "choice_nopick": "- object: A\n  fields:\n    x:\n      random_choice:\n        - choice:\n            probability: 5\n",
}
for name, doc in docs.items():
    out = io.StringIO()
    try:
        generate(io.StringIO(doc), output_stream=DebugOutputStream(out))
        print(f"{name:25s} OK   {out.getvalue()!r}"[:150])
    except DataGenError as e:
        print(f"{name:25s} DGE  {type(e).__name__}: {str(e)[:80]!r}")
    except Exception as e:
        print(f"{name:25s} !!!  {type(e).__name__}: {str(e)[:100]!r}")
