import warnings, collections
warnings.simplefilter("ignore")
from faker.config import AVAILABLE_LOCALES
from snowfakery.fakedata.fake_data_generator import FakeData
class Ctx:
    def __init__(s): s.v = {}
    def local_vars(s): return s.v
worst = (99, None)
for loc in sorted(AVAILABLE_LOCALES):
    ctx = Ctx(); fd = FakeData([], loc, ctx)
    for i in range(60):
        ctx.v.clear()
        try: u = fd._get_fake_data("username")
        except Exception: continue
        local = u.split("@")[0]; uuid_part = local.rsplit("_", 1)[-1]
        if len(uuid_part) < worst[0]: worst = (len(uuid_part), loc, u)
print(worst)
