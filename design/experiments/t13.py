from run import run
from t2 import run2
import io
print("== template without index")
run("""
- plugin: snowfakery.standard_plugins.UniqueId
- var: G
  value:
    UniqueId.NumericIdGenerator:
      template: "5,context"
- object: A
  count: 3
  fields:
    a: ${{G.unique_id}}
""")
print("== C04 random_reference fallback + attr after continuation")
R = """
- object: T
  just_once: true
  fields:
    name: once
- object: P
  fields:
    r:
      random_reference: T
    n: ${{r.name}}
- object: T
  fields:
    name: later
"""
import random
for seed in range(6):
    random.seed(seed)
    print("seed", seed)
    run2(R, n_runs=3)
