import warnings, re, collections
warnings.simplefilter("ignore")
from faker.config import AVAILABLE_LOCALES
from snowfakery.fakedata.fake_data_generator import FakeData
class Ctx:
    def __init__(s): s.v = {}
    def local_vars(s): return s.v
bad = collections.Counter(); n = 0; maxlen = 0; doms = collections.Counter(); fails = collections.Counter()
for loc in sorted(AVAILABLE_LOCALES):
    try:
        ctx = Ctx(); fd = FakeData([], loc, ctx)
    except Exception as e:
        fails[type(e).__name__] += 1; continue
    for i in range(30):
        ctx.v.clear()
        try:
            if i % 2 == 0:
                fd._get_fake_data("FirstName"); fd._get_fake_data("last_name")
            e = fd._get_fake_data("email"); u = fd._get_fake_data("username")
        except Exception as ex:
            fails[(loc, type(ex).__name__)] += 1; continue
        n += 1
        dom = e.rsplit("@", 1)[-1]; doms[dom] += 1
        if dom not in ("example.com", "example.org", "example.net") or e.count("@") != 1: bad[("email", loc, e)] += 1
        if len(u) > 80 or u.count("@") != 1: bad[("user", loc, u)] += 1
        maxlen = max(maxlen, len(u))
print("locales", len(AVAILABLE_LOCALES), "samples", n, "bad", list(bad)[:5], "max username len", maxlen, doms.most_common(4), "fails", dict(fails))
