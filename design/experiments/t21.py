import io, warnings, tempfile, os, json, sqlite3, csv
warnings.simplefilter("ignore")
from snowfakery.api import generate_data
R = """
- snowfakery_version: 3
- object: P
  nickname: pp
- object: A
  count: 2
  fields:
    b: ${{ True }}
    n: ${{ None }}
    i: ${{ 2 ** 40 }}
    f: ${{ 1.5 }}
    d: ${{ date(year=2024, month=2, day=29) }}
    dt: ${{ datetime(year=2024, month=2, day=29, hour=1, minute=2, second=3) }}
    s: "a,b \\"q\\" 'x'\\nnl; é ☃"
    e: ""
    r:
      reference: pp
    dec:
      fake.pydecimal:
        left_digits: 2
        right_digits: 2
        positive: true
"""
d = tempfile.mkdtemp()
o_txt = io.StringIO(); o_json = io.StringIO(); o_sql = io.StringIO()
generate_data(io.StringIO(R), output_files=[o_txt], output_format="txt")
print(o_txt.getvalue())
generate_data(io.StringIO(R), output_files=[o_json], output_format="json"); print(o_json.getvalue())
generate_data(io.StringIO(R), output_format="csv", output_folder=d); print(open(d + "/A.csv").read()); print(list(csv.DictReader(open(d + "/A.csv", newline="")))[0])
generate_data(io.StringIO(R), dburl=f"sqlite:///{d}/x.db"); print(sqlite3.connect(d + "/x.db").execute("select * from A").fetchall())
generate_data(io.StringIO(R), output_files=[o_sql], output_format="sql"); print(o_sql.getvalue()[-600:])
