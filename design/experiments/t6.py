import io, tempfile, os, yaml, sqlite3
from snowfakery.api import generate_data
print("=== big int to sqlite")
d = tempfile.mkdtemp()
db = f"sqlite:///{d}/x.db"
try:
    generate_data(io.StringIO("""
- snowfakery_version: 3
- object: A
  count: 3
  fields:
    big: ${{ 2 ** 70 }}
    name: x
"""), dburl=db)
    print("reported success")
except Exception as e:
    print("EXC", type(e).__name__, e)
con = sqlite3.connect(f"{d}/x.db"); print(con.execute("select * from A").fetchall())
print("=== mapping w/ ref to hidden table")
try:
    m = io.StringIO()
    generate_data(io.StringIO("""
- object: __H
  nickname: h
- object: A
  fields:
    r:
      reference: h
"""), generate_cci_mapping_file=m, output_file=io.StringIO(), output_format="txt")
    print(m.getvalue())
except Exception as e:
    print("EXC", type(e).__name__, repr(e))
print("=== mapping continuation")
R = """
- object: P
  just_once: true
  nickname: par
- object: Q
  just_once: true
  fields:
    p:
      reference: par
- object: C
  fields:
    q:
      reference: Q
"""
m1 = io.StringIO(); c1 = io.StringIO()
generate_data(io.StringIO(R), generate_cci_mapping_file=m1, generate_continuation_file=c1, output_file=io.StringIO(), output_format="txt")
m2 = io.StringIO(); 
generate_data(io.StringIO(R), generate_cci_mapping_file=m2, continuation_file=io.StringIO(c1.getvalue()), output_file=io.StringIO(), output_format="txt")
print(m1.getvalue()); print("-- continued:"); print(m2.getvalue())
