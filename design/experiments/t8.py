from run import run
print("== datetime_between offsets")
run("""
- object: A
  count: 3
  fields:
    d:
      datetime_between:
        start_date: 2024-01-01T00:00:00-05:00
        end_date: 2024-01-01T03:00:00+00:00
""")
run("""
- object: A
  count: 3
  fields:
    d:
      datetime_between:
        start_date: 2024-01-01T00:00:00+05:00
        end_date: 2024-01-01T00:00:01+05:00
""")
print("== choice prob 0")
run("""
- object: A
  count: 3
  fields:
    d:
      random_choice:
        - choice:
            probability: 0
            pick: X
        - choice:
            probability: 100%
            pick: Y
""")
run("""
- object: A
  count: 3
  fields:
    d:
      random_choice:
        - choice:
            probability: 0%
            pick: X
        - choice:
            probability: 100%
            pick: Y
""")
run("""
- object: A
  count: 3
  fields:
    d:
      random_choice:
        X: 0
        Y: 10
""")
print("== random_number")
run("""
- object: A
  count: 5
  fields:
    d:
      random_number:
        min: -7
        max: -7
    e:
      random_number:
        min: 3
        max: 10
        step: 4
""")
print("== date_between")
run("""
- object: A
  count: 2
  fields:
    d:
      date_between:
        start_date: 2024-02-29
        end_date: 2024-02-29
    e:
      date_between:
        start_date: today
        end_date: today
    f:
      date_between:
        start_date: +1d
        end_date: -1d
    g:
      date_between:
        start_date: 2024-03-01
        end_date: 2024-02-01
""")
