import io, warnings, tempfile, os, json, sqlite3
warnings.simplefilter("ignore")
from snowfakery.api import generate_data
R = """
- macro: m
  fields:
    __mh: 5
    mv: ${{__mh + 1}}
- object: __H
  nickname: hh
  fields:
    __x: 3
    y: ${{__x * 2}}
    kid:
      - object: K
        fields:
          v: ${{__x}}
- object: A
  include: m
  count: ${{hh.__x - 1}}
  fields:
    __hid:
      - object: B
        fields:
          z: 1
    vis: ${{__hid.z + hh.y}}
  friends:
    - object: __F
      fields:
        q: 1
    - object: G
      fields:
        __g: 2
        h: ${{__g}}
"""
d = tempfile.mkdtemp()
m = io.StringIO()
generate_data(io.StringIO(R), output_format="csv", output_folder=d, generate_cci_mapping_file=m)
for f in sorted(os.listdir(d)):
    print("--", f); print(open(os.path.join(d,f)).read())
print(m.getvalue())
o = io.StringIO(); generate_data(io.StringIO(R), output_format="json", output_file=o); print(o.getvalue())
o = io.StringIO(); generate_data(io.StringIO(R), output_format="sql", output_file=o); print(o.getvalue()[:1500])
