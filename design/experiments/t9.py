from run import run
run("""
- snowfakery_version: 3
- object: A
  fields:
    a: ${{datetime("2008-04-25 21:18:29+08:00")}}
    b:
      datetime: 2008-04-25 21:18:29+08:00
    c:
      datetime: "2008-04-25 21:18:29+08:00"
""")
