from run import run
print("--- unique random ref with interleaved growth")
run("""
- object: A
  count: 5
  friends:
    - object: B
      fields:
        a:
          random_reference:
            to: A
            unique: True
""")
print("--- nickname == tablename reuse")
run("""
- object: A
  fields:
    ref:
      reference: B
- object: C
  nickname: B
- object: B
- object: C
""")
print("--- same nickname two tables")
run("""
- object: A
  fields:
    ref:
      reference: N
- object: T1
  nickname: N
- object: T2
  nickname: N
- object: T1
""")
