from run import run
run("""
- object: A
  fields:
    fwd:
      reference: nick
- object: T
  count: 2
  fields:
    name: t
- object: P
  count: 6
  fields:
    r:
      random_reference: T
- object: T
  nickname: nick
  fields:
    name: nn
- object: P2
  count: 6
  fields:
    r:
      random_reference: T
""")
run("""
- object: A
  fields:
    fwd:
      reference: nick
- object: T
  count: 2
  fields:
    name: t
- object: P
  count: 6
  fields:
    r:
      random_reference: T
    n: ${{r.name}}
- object: T
  nickname: nick
  fields:
    name: nn
""")
