from run import run
run("""
- object: A
  fields:
    ref:
      reference: B
    child:
      - object: B
- object: B
""")
run("""
- object: A
  fields:
    ref:
      reference: B
- object: B
- object: C
  fields:
    x:
      reference: A.ref
""")
run("""
- object: A
  fields:
    ref:
      reference: B
    y: ${{ref.id}}
- object: B
- object: C
  fields:
    x: ${{A.ref.id}}
    z: ${{B.id}}
""")
