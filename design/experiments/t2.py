import io, yaml, warnings
from snowfakery.data_generator import generate
from snowfakery.output_streams import DebugOutputStream
from snowfakery.api import generate_data
def run2(recipe, n_runs=2, **kw):
    cont = None
    for i in range(n_runs):
        out = io.StringIO(); newc = io.StringIO()
        try:
            generate(io.StringIO(recipe), output_stream=DebugOutputStream(out), generate_continuation_file=newc,
                 continuation_file=io.StringIO(cont) if cont else None, **kw)
        except Exception as e:
            print("EXC", type(e).__name__, str(e)[:300])
        print(f"run {i}:"); print(out.getvalue())
        cont = newc.getvalue()
        print("CONT:", cont)
print("=== just_once with reference field, continuation")
run2("""
- object: P
  just_once: true
  nickname: par
  fields:
    name: pp
- object: Q
  just_once: true
  nickname: qq
  fields:
    p:
      reference: par
    nested:
      - object: R
        fields:
          z: 1
    s: "0123"
    t: "yes"
    u: 12345678901234567890123
- object: C
  fields:
    x: ${{qq.p.name}}
    y: ${{qq.s}}
    y2: ${{qq.t}}
    y3: ${{qq.u}}
    w:
      reference: qq.nested
""")
