"""Prototype of the declarative recurrence model planned for C15 (to be ported to Lean).
Compared against snowfakery.standard_plugins.Schedule.CalendarRule (dateutil underneath)."""
import random, sys, warnings
from datetime import date, datetime, timedelta, timezone
warnings.simplefilter("ignore")
from snowfakery.standard_plugins.Schedule import CalendarRule

FREQS = ["YEARLY", "MONTHLY", "WEEKLY", "DAILY"]
WD = ["MO", "TU", "WE", "TH", "FR", "SA", "SU"]

def dim(y, m): return [31, 29 if (y % 4 == 0 and (y % 100 != 0 or y % 400 == 0)) else 28, 31,30,31,30,31,31,30,31,30,31][m-1]
def ylen(y): return 366 if dim(y,2) == 29 else 365

def week_index(d):  # weeks start on Sunday
    # ordinal 1 = 0001-01-01 is a Monday; Sunday-start week index:
    return (d.toordinal() + 0) // 7 if False else (d.toordinal()) // 7  # toordinal%7==0 -> Sunday
def period_index(freq, d):
    if freq == "YEARLY": return d.year
    if freq == "MONTHLY": return d.year * 12 + d.month
    if freq == "WEEKLY": return week_index(d)
    return d.toordinal()

def nth_match(d, wd, n, within_year):
    if d.weekday() != wd: return False
    if within_year:
        first = date(d.year, 1, 1); last = date(d.year, 12, 31)
    else:
        first = date(d.year, d.month, 1); last = date(d.year, d.month, dim(d.year, d.month))
    if n > 0:
        k = (d - first).days // 7 + 1
        return k == n
    else:
        k = (last - d).days // 7 + 1
        return k == -n

def occurs_day(p, d):
    s = p["start"]
    freq = p["freq"]
    if (period_index(freq, d) - period_index(freq, s.date())) % p["interval"] != 0: return False
    bymonth, bymonthday, byyearday = p.get("bymonth"), p.get("bymonthday"), p.get("byyearday")
    wds = p.get("byweekday")  # list of (wd, n or None)
    plain = None; nth = None
    if wds:
        plain = [w for w, n in wds if not n or freq not in ("YEARLY", "MONTHLY")]
        nth = [(w, n) for w, n in wds if n and freq in ("YEARLY", "MONTHLY")]
    if not (byyearday or bymonthday or wds):
        if freq == "YEARLY":
            if not bymonth: bymonth = [s.month]
            bymonthday = [s.day]
        elif freq == "MONTHLY": bymonthday = [s.day]
        elif freq == "WEEKLY": plain = [s.weekday()]
    if bymonth and d.month not in bymonth: return False
    if plain and d.weekday() not in plain: return False
    if nth:
        within_year = (freq == "YEARLY" and not p.get("bymonth"))
        if not any(nth_match(d, w, n, within_year) for w, n in nth): return False
    if bymonthday:
        neg = d.day - dim(d.year, d.month) - 1
        if d.day not in bymonthday and neg not in bymonthday: return False
    if byyearday:
        yd = d.timetuple().tm_yday
        if yd not in byyearday and yd - ylen(d.year) - 1 not in byyearday: return False
    return True

def timeset(p):
    s = p["start"]
    hs = sorted(set(p.get("byhour") or [s.hour])); ms = sorted(set(p.get("byminute") or [s.minute])); ss = sorted(set(p.get("bysecond") or [s.second]))
    return [(h, m, sec) for h in hs for m in ms for sec in ss]

def model(p, horizon_days=1200):
    s = p["start"]; out = []
    until = p.get("until"); count = p.get("count")
    d = s.date()
    for i in range(horizon_days):
        dd = d + timedelta(days=i)
        if occurs_day(p, dd):
            for (h, m, sec) in timeset(p):
                t = datetime(dd.year, dd.month, dd.day, h, m, sec, tzinfo=s.tzinfo)
                if t < s: continue
                if until and t > until: return out
                out.append(t)
                if count and len(out) >= count: return out
    return out

def gen(rnd):
    y = rnd.choice([2023, 2024, 2025]); s = datetime(y, 1, 1, tzinfo=timezone.utc) + timedelta(days=rnd.randrange(365), hours=rnd.randrange(24), minutes=rnd.choice([0, 30]))
    p = {"freq": rnd.choice(FREQS), "start": s, "interval": rnd.choice([1, 1, 2, 3])}
    if rnd.random() < 0.3: p["bymonth"] = sorted(rnd.sample(range(1, 13), rnd.randint(1, 3)))
    r = rnd.random()
    if r < 0.3: p["bymonthday"] = sorted(rnd.sample([1, 2, 10, 15, 28, 29, 30, 31, -1, -2], rnd.randint(1, 2)))
    elif r < 0.45: p["byyearday"] = sorted(rnd.sample([1, 32, 59, 60, 61, 200, 365, 366, -1, -100], rnd.randint(1, 2)))
    elif r < 0.75:
        k = rnd.randint(1, 3); days = rnd.sample(range(7), k)
        use_n = rnd.random() < 0.4
        p["byweekday"] = [(w, rnd.choice([1, 2, 3, -1, -2]) if use_n else None) for w in days]
    if rnd.random() < 0.25: p["byhour"] = sorted(rnd.sample(range(24), rnd.randint(1, 2)))
    if rnd.random() < 0.2: p["byminute"] = sorted(rnd.sample([0, 15, 30, 45], rnd.randint(1, 2)))
    if rnd.random() < 0.2: p["bysecond"] = sorted(rnd.sample([0, 10, 59], rnd.randint(1, 2)))
    if rnd.random() < 0.5: p["count"] = rnd.randint(1, 12)
    p["until"] = s + timedelta(days=rnd.randint(30, 900))
    return p

def real(p, patched_weekno=True):
    kw = dict(freq=p["freq"], start_date=p["start"], interval=p["interval"], count=p.get("count"), until=p["until"].date() if False else None)
    for k in ("bymonth", "bymonthday", "byyearday", "byhour", "byminute", "bysecond"):
        if p.get(k): kw[k] = p[k]
    if p.get("byweekday"):
        kw["byweekday"] = ",".join(WD[w] + (f"({n:+d})" if n else "") for w, n in p["byweekday"])
    cr = CalendarRule(**kw)
    out = []
    for t in cr.ruleset:
        if t > p["until"]: break
        out.append(t)
    return out

if __name__ == "__main__":
    rnd = random.Random(int(sys.argv[1]) if len(sys.argv) > 1 else 0)
    n = int(sys.argv[2]) if len(sys.argv) > 2 else 300
    bad = 0; tot = 0; nonempty = 0
    for i in range(n):
        p = gen(rnd)
        if p.get("bysecond"):  # D13: bysecond leaks into byweekno; skip for model validation
            continue
        tot += 1
        m = model(p); r = real(p)
        nonempty += bool(m)
        if m != r:
            bad += 1
            if bad <= 6:
                print("MISMATCH", {k: (v.isoformat() if hasattr(v, 'isoformat') else v) for k, v in p.items()})
                print("  model", [t.isoformat() for t in m[:6]], len(m)); print("  real ", [t.isoformat() for t in r[:6]], len(r))
    print("cases", tot, "nonempty", nonempty, "mismatches", bad)
