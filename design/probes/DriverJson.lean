import Lean.Data.Json
open Lean

def handle (line : String) : String :=
  match Json.parse line with
  | .error e => s!"bad {e}"
  | .ok j =>
    match j.getObjValAs? Nat "n" with
    | .ok n => toString (Json.mkObj [("sq", (n*n : Nat))])
    | .error e => s!"bad {e}"

partial def loop (h : IO.FS.Stream) : IO Unit := do
  let line ← h.getLine
  if line.isEmpty then return ()
  IO.println (handle line.trimRight)
  loop h

def main : IO Unit := do loop (← IO.getStdin)
