"""Design probe: continuation chains — real Snowfakery vs the L2 prototype with a save/load model."""
import io, sys, random, json, warnings
warnings.simplefilter("ignore")
from l2_interpreter_prototype import *
def run_real_chain(y, chain):
    rows = []; cont = None
    for reps in chain:
        cap = Cap(); newc = io.StringIO()
        try:
            generate(io.StringIO(y), output_stream=cap, stopping_criteria=StoppingCriteria("__REPS__", reps),
                     continuation_file=io.StringIO(cont) if cont else None, generate_continuation_file=newc)
        except DataGenError:
            return ["err", rows + cap.rows]
        except Exception as e:
            return ["internal:" + type(e).__name__, rows + cap.rows]
        rows += cap.rows; cont = newc.getvalue()
    return ["ok", rows]
class SaveError(Exception): pass
def model_chain(rc, chain):
    m = Model(rc); first = True
    for reps in chain:
        top = {"obj": None, "vars": {}}
        try:
            for it in range(reps):
                for st in rc["statements"]: m.stmt(st, top, (it > 0) or not first)
                if [n for n, sl in m.slots.items() if isinstance(sl.state, int)]: raise RecipeError("unfulfilled")
                m.reset()
        except RecipeError:
            return ["err", m.out]
        # save/load: rows keep only non-Row values; Slot values cannot be represented; keys sorted
        def persist(row):
            vals = {}
            for k in sorted(row.values):
                v = row.values[k]
                if isinstance(v, Row): continue
                if isinstance(v, Slot): raise SaveError()
                vals[k] = v
            return Row(row.table, vals, None)
        try:
            m.pnick = {k: persist(v) for k, v in m.pnick.items()}; m.ptable = {k: persist(v) for k, v in m.ptable.items()}
        except SaveError:
            return ["internal:RepresenterError", m.out]
        first = False
    return ["ok", m.out]
if __name__ == "__main__":
    seed, n = int(sys.argv[1]), int(sys.argv[2]); r = random.Random(seed)
    stats = {"agree_ok": 0, "agree_err": 0, "agree_internal": 0, "outside": 0, "mismatch": 0, "split_ne_unsplit": 0, "split_fails_unsplit_ok": 0}; shown = 0
    for i in range(n):
        rc = gen_recipe(r)
        # bias: make just_once more common
        for st in rc["statements"]:
            if "object" in st and r.random() < 0.3: st["just_once"] = True
        k = r.randint(2, 4); chain = []
        while k > 0:
            c = r.randint(1, k); chain.append(c); k -= c
        if len(chain) == 1: chain = [1] + [chain[0] - 1] if chain[0] > 1 else [1, 1]
        y = recipe_yaml(rc); real = run_real_chain(y, chain)
        try:
            mod = model_chain(rc, chain); unsplit = Model(rc).run(sum(chain))
        except Outside: stats["outside"] += 1; continue
        key = "agree_" + ("internal" if mod[0].startswith("internal") else mod[0])
        if json.dumps(real) == json.dumps(mod): stats[key] += 1
        else:
            stats["mismatch"] += 1
            if shown < 2:
                shown += 1; print("=== MISMATCH chain", chain); print(y); print("real:", real[0]); [print("  ", x) for x in real[1]]; print("model:", mod[0]); [print("  ", x) for x in mod[1]]
        if unsplit[0] == "ok":
            if mod[0] != "ok": stats["split_fails_unsplit_ok"] += 1
            elif json.dumps(mod[1]) != json.dumps(unsplit[1]): stats["split_ne_unsplit"] += 1
    print(stats)
