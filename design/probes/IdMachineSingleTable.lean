/-! Probe: single-table id/slot machine, invariant "issued ids are exactly 1..lastUsed". -/

inductive SlotSt | unused | alloc (n : Nat) | consumed
deriving DecidableEq, Repr

structure St where
  lastUsed : Nat
  created : List Nat
  slots : List (String × SlotSt)
deriving Repr

def allocIds : List (String × SlotSt) → List Nat
  | [] => []
  | (_, .alloc n) :: r => n :: allocIds r
  | _ :: r => allocIds r

/-- reference to `name`: allocate an id in its slot if unused (forward reference) -/
def allocSlot (name : String) (next : Nat) : List (String × SlotSt) → List (String × SlotSt) × Bool
  | [] => ([], false)
  | (n, s) :: r =>
    if n = name then
      match s with
      | .unused => ((n, .alloc next) :: r, true)
      | _ => ((n, s) :: r, false)
    else
      let (r', b) := allocSlot name next r
      ((n, s) :: r', b)

/-- consume the slot `name` if it is allocated; returns its id -/
def consume (name : String) : List (String × SlotSt) → List (String × SlotSt) × Option Nat
  | [] => ([], none)
  | (n, s) :: r =>
    if n = name then
      match s with
      | .alloc k => ((n, .consumed) :: r, some k)
      | _ => ((n, s) :: r, none)
    else
      let (r', b) := consume name r
      ((n, s) :: r', b)

inductive Op | resolve (name : String) | create (nick : Option String) (table : String) | endIter

def step (s : St) : Op → Option St
  | .resolve name =>
    let (sl, b) := allocSlot name (s.lastUsed + 1) s.slots
    some { s with slots := sl, lastUsed := if b then s.lastUsed + 1 else s.lastUsed }
  | .create nick table =>
    let (sl1, r1) := match nick with
      | some n => consume n s.slots
      | none => (s.slots, none)
    match r1 with
    | some k => some { s with slots := sl1, created := k :: s.created }
    | none =>
      let (sl2, r2) := consume table sl1
      match r2 with
      | some k => some { s with slots := sl2, created := k :: s.created }
      | none => some { s with slots := sl2, created := (s.lastUsed + 1) :: s.created, lastUsed := s.lastUsed + 1 }
  | .endIter =>
    if allocIds s.slots = [] then
      some { s with slots := s.slots.map (fun p => (p.1, SlotSt.unused)) }
    else none

def Good (s : St) : Prop := (s.created ++ allocIds s.slots).Perm (List.range' 1 s.lastUsed)

theorem allocSlot_ids (name : String) (next : Nat) (sl : List (String × SlotSt)) :
    (allocIds (allocSlot name next sl).1).Perm
      (if (allocSlot name next sl).2 then next :: allocIds sl else allocIds sl) := by
  fun_induction allocSlot name next sl <;> simp_all [allocIds]
  rename_i n s r h r' b hx ih
  cases s <;> cases b <;> simp_all [allocIds]
  exact (List.Perm.cons _ ih).trans (List.Perm.swap _ _ _)

theorem consume_ids (name : String) (sl : List (String × SlotSt)) :
    match (consume name sl).2 with
    | some k => (k :: allocIds (consume name sl).1).Perm (allocIds sl)
    | none => allocIds (consume name sl).1 = allocIds sl := by
  fun_induction consume name sl <;> simp_all [allocIds]
  rename_i n s r h r' b hx ih
  cases s <;> cases b <;> simp_all [allocIds]
  exact (List.Perm.swap _ _ _).trans (List.Perm.cons _ ih)

theorem range'_succ_perm (n : Nat) : (List.range' 1 (n + 1)).Perm ((n + 1) :: List.range' 1 n) := by
  rw [List.range'_1_concat]
  exact List.perm_append_singleton _ _ |>.trans (by simp [Nat.add_comm])

theorem allocIds_map_unused (sl : List (String × SlotSt)) :
    allocIds (sl.map (fun p => (p.1, SlotSt.unused))) = [] := by
  induction sl with
  | nil => rfl
  | cons p r ih => simp [allocIds, ih]

theorem perm_take_slot {cr a a' R : List Nat} {k : Nat}
    (hp : (cr ++ a).Perm R) (hc : (k :: a').Perm a) : ((k :: cr) ++ a').Perm R :=
  ((List.perm_middle (l₁ := cr) (l₂ := a') (a := k)).symm.trans (List.Perm.append_left _ hc)).trans hp

theorem perm_fresh {cr a : List Nat} {L : Nat}
    (hp : (cr ++ a).Perm (List.range' 1 L)) : (((L + 1) :: cr) ++ a).Perm (List.range' 1 (L + 1)) :=
  (List.Perm.cons _ hp).trans (range'_succ_perm _).symm

theorem step_good (s s' : St) (op : Op) (h : Good s) (hs : step s op = some s') : Good s' := by
  unfold Good at *
  cases op with
  | resolve name =>
    simp only [step, Option.some.injEq] at hs
    subst hs
    have := allocSlot_ids name (s.lastUsed + 1) s.slots
    cases hb : (allocSlot name (s.lastUsed + 1) s.slots).2 <;> simp_all
    · exact (List.Perm.append_left _ this).trans h
    · refine ((List.Perm.append_left _ this).trans ?_).trans (range'_succ_perm _).symm
      exact List.perm_middle.trans (List.Perm.cons _ h)
  | create nick table =>
    simp only [step] at hs
    cases nick with
    | none =>
      simp only at hs
      have hc := consume_ids table s.slots
      cases hk : (consume table s.slots).2 with
      | some k =>
        simp only [hk] at hs hc; cases hs
        exact perm_take_slot h hc
      | none =>
        simp only [hk] at hs hc; cases hs
        simp only [hc]; exact perm_fresh h
    | some n =>
      simp only at hs
      have hc := consume_ids n s.slots
      cases hk : (consume n s.slots).2 with
      | some k =>
        simp only [hk] at hs hc; cases hs
        exact perm_take_slot h hc
      | none =>
        simp only [hk] at hs hc
        have hc2 := consume_ids table (consume n s.slots).1
        cases hk2 : (consume table (consume n s.slots).1).2 with
        | some k =>
          simp only [hk2] at hs hc2; cases hs
          exact perm_take_slot h (hc ▸ hc2)
        | none =>
          simp only [hk2] at hs hc2; cases hs
          simp only [hc2, hc]; exact perm_fresh h
  | endIter =>
    simp only [step] at hs
    split at hs
    · rename_i he
      simp only [Option.some.injEq] at hs
      subst hs
      simp_all [allocIds_map_unused]
    · simp at hs

def run : St → List Op → Option St
  | s, [] => some s
  | s, op :: ops => (step s op).bind (fun s' => run s' ops)

theorem run_good (s s' : St) (ops : List Op) (h : Good s) (hr : run s ops = some s') : Good s' := by
  induction ops generalizing s with
  | nil => simp [run] at hr; exact hr ▸ h
  | cons op ops ih =>
    simp only [run] at hr
    cases hs : step s op with
    | none => simp [hs] at hr
    | some s1 => simp [hs] at hr; exact ih s1 (step_good s s1 op h hs) hr

/-- at an iteration boundary (no allocated slot) the created ids are exactly 1..lastUsed -/
theorem dense_at_boundary (s : St) (h : Good s) (hb : allocIds s.slots = []) :
    s.created.Perm (List.range' 1 s.lastUsed) := by
  unfold Good at h; simpa [hb] using h

def init (names : List String) : St := ⟨0, [], names.map (fun n => (n, SlotSt.unused))⟩
theorem init_good (names : List String) : Good (init names) := by
  have : allocIds (names.map (fun n => (n, SlotSt.unused))) = [] := by
    induction names with
    | nil => rfl
    | cons n r ih => simp [allocIds, ih]
  simp [Good, init, this]

-- non-vacuity: a forward reference followed by the row, then a boundary
example : (run (init ["B", "nick"]) [.resolve "nick", .create none "B", .create (some "nick") "B", .endIter]).map (·.created)
    = some [1, 2] := by decide
#print axioms run_good
