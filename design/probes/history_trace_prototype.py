"""Design probe: trace the real RowHistory (save_row / reset_locals / random_row_reference) by
monkey-patching from the harness side and replay the trace on a model of its counters."""
import io, random, sys, warnings, json
warnings.simplefilter("ignore")
from snowfakery.data_generator import generate
from snowfakery.data_generator_runtime import StoppingCriteria
from snowfakery import row_history as rh
from snowfakery.output_streams import OutputStream
from snowfakery.data_gen_exceptions import DataGenError

TRACE = []
_save, _reset, _rrr, _init = rh.RowHistory.save_row, rh.RowHistory.reset_locals, rh.RowHistory.random_row_reference, rh.RowHistory.__init__
def init(self, table_counters, tables, nickmap):
    TRACE.append(["init", dict(table_counters), sorted(tables), dict(nickmap)]); _init(self, table_counters, tables, nickmap)
def save(self, tablename, nickname, row):
    TRACE.append(["save", tablename, nickname, row["id"]]); return _save(self, tablename, nickname, row)
def reset(self):
    TRACE.append(["reset"]); return _reset(self)
def rrr(self, name, scope, randomizer_func):
    seen = {}
    def f(a, b):
        v = randomizer_func(a, b); seen["range"] = (a, b); seen["draw"] = v; return v
    try:
        res = _rrr(self, name, scope, f)
        TRACE.append(["pick", name, scope, seen.get("range"), seen.get("draw"), res._tablename, res.id]); return res
    except Exception as e:
        TRACE.append(["pick_fail", name, scope, seen.get("range"), type(e).__name__]); raise
rh.RowHistory.__init__, rh.RowHistory.save_row, rh.RowHistory.reset_locals, rh.RowHistory.random_row_reference = init, save, reset, rrr

class Null(OutputStream):
    def __init__(self): pass
    def write_row(self, *a): pass
    def write_single_row(self, *a): pass
    def close(self): pass

# ---- model of the counters
class Hist:
    def __init__(s, table_counters, tables, nickmap):
        s.tc = dict(table_counters); s.nc = {}; s.nick2table = {n: t for n, t in nickmap.items() if n != t}
        s.rows = {t: [] for t in tables}; s.reset()
    def reset(s): s.local = dict(s.tc)
    def save(s, table, nick, rid):
        s.tc[table] = rid
        if nick:
            s.nc[nick] = s.nc.get(nick, 0) + 1; s.tc[nick] = s.nc[nick]; ordn = s.nc[nick]
        else: ordn = None
        s.rows[table].append((rid, nick, ordn))
    def pick_range(s, name, scope):
        if name in s.nick2table: nick, table, mx = name, s.nick2table[name], s.nc.get(name, 0)
        else: nick, table, mx = None, name, s.tc.get(name)
        if not mx: return None
        if scope == "prior-and-current-iterations": mn = 1
        else: mn = s.local.get(nick or table, 0) + 1
        if mx < mn: mn = 1
        return nick, table, mn, mx
    def resolve(s, nick, table, draw):
        if nick:
            for rid, n, o in s.rows[table]:
                if n == nick and o == draw: return rid
            return "ASSERT"
        return draw

def replay(trace):
    h = None; problems = []; picks = 0; notyet = 0
    for op in trace:
        if op[0] == "init": h = Hist(op[1], op[2], op[3])
        elif op[0] == "reset": h.reset()
        elif op[0] == "save": h.save(op[1], op[2], op[3])
        elif op[0] == "pick":
            picks += 1
            _, name, scope, rng, draw, rt, rid = op
            pr = h.pick_range(name, scope)
            if pr is None: problems.append(("model says no rows", op)); continue
            nick, table, mn, mx = pr
            if rng is not None and tuple(rng) != (mn, mx): problems.append(("range", (mn, mx), op))
            if h.resolve(nick, table, draw) != rid or table != rt: problems.append(("resolve", op))
            if rid not in [r for r, _, _ in h.rows[table]]: notyet += 1      # property C10: target must already exist (saved)
        elif op[0] == "pick_fail":
            pr = h.pick_range(op[1], op[2])
            if pr is not None and op[4] == "DataGenError" and op[3] is None: problems.append(("model has rows but real failed", op))
    return problems, picks, notyet

def gen(r):
    tabs = ["A", "B"]; sts = []; n = r.randint(2, 5)
    for i in range(n):
        t = r.choice(tabs); st = f"- object: {t}\n  count: {r.randint(0,3)}\n"
        if r.random() < 0.4: st += f"  nickname: n{t}\n"
        if r.random() < 0.2: st += "  just_once: true\n"
        fs = []
        if r.random() < 0.7:
            to = r.choice(tabs + ["nA", "nB"])
            if r.random() < 0.3: fs.append(f"    r:\n      random_reference:\n        to: {to}\n        unique: true\n")
            else: fs.append(f"    r:\n      random_reference: {to}\n")
        if r.random() < 0.25: fs.append(f"    fwd:\n      reference: {r.choice(['nA','nB','A','B'])}\n")
        if fs: st += "  fields:\n" + "".join(fs)
        if r.random() < 0.3:
            to = r.choice(tabs)
            st += f"  friends:\n    - object: {r.choice(tabs)}\n      fields:\n        q:\n          random_reference:\n            to: {to}\n            unique: {r.choice(['true','false'])}\n"
        sts.append(st)
    return "".join(sts)

if __name__ == "__main__":
    seed, n = int(sys.argv[1]), int(sys.argv[2]); r = random.Random(seed); random.seed(seed)
    tot = dict(cases=0, ok=0, err=0, internal=0, picks=0, problems=0, notyet=0); shown = 0
    for i in range(n):
        y = gen(r); TRACE.clear(); tot["cases"] += 1
        try:
            generate(io.StringIO(y), output_stream=Null(), stopping_criteria=StoppingCriteria("__REPS__", r.choice([1, 2, 3]))); tot["ok"] += 1
        except DataGenError as e:
            tot["err"] += 1
            if "AssertionError" in repr(e.__cause__) or "(1," in str(e): tot["internal"] += 1
        except Exception as e: tot["internal"] += 1
        probs, picks, notyet = replay(list(TRACE)); tot["picks"] += picks; tot["problems"] += len(probs); tot["notyet"] += notyet
        if probs and shown < 3: shown += 1; print(y); print(probs[:2])
    print(tot)
