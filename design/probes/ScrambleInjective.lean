/-! Probe: scramble_number is injective for any mask and any bit-count function (< 1000). -/
def scr (mask : Nat → Nat → Nat) (nb : Nat → Nat → Nat) (n b : Nat) : Nat :=
  let key := n % 10
  let number := n / 10
  let numbits := nb number b
  (number ^^^ mask key numbits) * 10000 + key * 1000 + numbits

theorem scr_injective (mask nb) (hnb : ∀ x b, nb x b < 1000) (n n' b b' : Nat)
    (h : scr mask nb n b = scr mask nb n' b') : n = n' := by
  unfold scr at h
  simp only at h
  have hk : n % 10 < 10 := Nat.mod_lt _ (by decide)
  have hk' : n' % 10 < 10 := Nat.mod_lt _ (by decide)
  have h1 := hnb (n / 10) b
  have h2 := hnb (n' / 10) b'
  generalize hx : (n / 10 ^^^ mask (n % 10) (nb (n / 10) b)) = x at h
  generalize hy : (n' / 10 ^^^ mask (n' % 10) (nb (n' / 10) b')) = y at h
  have e3 : nb (n / 10) b = nb (n' / 10) b' := by omega
  have e2 : n % 10 = n' % 10 := by omega
  have e1 : x = y := by omega
  rw [← hx, ← hy, e2, e3] at e1
  have : n / 10 = n' / 10 := by
    have := congrArg (· ^^^ mask (n' % 10) (nb (n' / 10) b')) e1
    simpa [Nat.xor_assoc] using this
  omega
#print axioms scr_injective
