import random, sys, warnings
from datetime import date, datetime, timedelta, timezone
warnings.simplefilter("ignore")
from proto import occurs_day, real, WD
UNIT = {"HOURLY": 3600, "MINUTELY": 60, "SECONDLY": 1}
def model_sub(p):
    s = p["start"]; out = []; step = UNIT[p["freq"]] * p["interval"]
    until = p["until"]; count = p.get("count")
    # date filters as limits: reuse occurs_day with DAILY/interval 1 semantics but without defaults
    q = dict(p); q["freq"] = "DAILY"; q["interval"] = 1
    q["byweekday"] = [(w, None) for w, n in (p.get("byweekday") or [])] or None
    has_date_filter = any(p.get(k) for k in ("bymonth", "bymonthday", "byyearday", "byweekday"))
    t = s; k = 0
    f = p["freq"]
    mins = p.get("byminute"); secs = p.get("bysecond"); hours = p.get("byhour")
    while t <= until:
        ok = (not has_date_filter) or occurs_day_nodefault(q, t.date())
        if ok and (not hours or t.hour in hours):
            if f == "HOURLY":
                for m in sorted(set(mins or [s.minute])):
                    for sec in sorted(set(secs or [s.second])):
                        tt = t.replace(minute=m, second=sec)
                        if tt >= s and tt <= until: out.append(tt)
            elif f == "MINUTELY":
                if not mins or t.minute in mins:
                    for sec in sorted(set(secs or [s.second])):
                        tt = t.replace(second=sec)
                        if tt >= s and tt <= until: out.append(tt)
            else:
                if (not mins or t.minute in mins) and (not secs or t.second in secs): out.append(t)
        if count and len(out) >= count: return out[:count]
        t = t + timedelta(seconds=step)
    return out
def occurs_day_nodefault(q, d):
    # same as occurs_day but with no RFC defaults: emulate by supplying a weekday filter that is always true if none
    from proto import dim, ylen
    bymonth, bymonthday, byyearday, wds = q.get("bymonth"), q.get("bymonthday"), q.get("byyearday"), q.get("byweekday")
    if bymonth and d.month not in bymonth: return False
    if wds and d.weekday() not in [w for w, n in wds]: return False
    if bymonthday and d.day not in bymonthday and d.day - dim(d.year, d.month) - 1 not in bymonthday: return False
    if byyearday:
        yd = d.timetuple().tm_yday
        if yd not in byyearday and yd - ylen(d.year) - 1 not in byyearday: return False
    return True
def gen(rnd):
    s = datetime(2024, 1, 1, tzinfo=timezone.utc) + timedelta(days=rnd.randrange(366), hours=rnd.randrange(24), minutes=rnd.randrange(60), seconds=rnd.choice([0, 7]))
    f = rnd.choice(["HOURLY", "MINUTELY"])
    p = {"freq": f, "start": s, "interval": rnd.choice([1, 2, 3, 5, 7, 90])}
    if rnd.random() < 0.25: p["byweekday"] = [(w, None) for w in rnd.sample(range(7), rnd.randint(1, 3))]
    if rnd.random() < 0.15: p["bymonthday"] = rnd.sample([1, 2, 15, 29, 30, 31, -1], 2)
    if rnd.random() < 0.3: p["byhour"] = sorted(rnd.sample(range(24), rnd.randint(1, 4)))
    if rnd.random() < 0.3: p["byminute"] = sorted(rnd.sample([0, 10, 15, 30, 45, 59], rnd.randint(1, 3)))
    if rnd.random() < 0.5: p["count"] = rnd.randint(1, 15)
    p["until"] = s + timedelta(hours=rnd.randint(5, 96) if f == "HOURLY" else rnd.randint(1, 12))
    return p
if __name__ == "__main__":
    rnd = random.Random(int(sys.argv[1])); n = int(sys.argv[2]); bad = 0; ne = 0
    for i in range(n):
        p = gen(rnd)
        from math import gcd
        key, base, st = ("byhour", 24, p["start"].hour) if p["freq"] == "HOURLY" else ("byminute", 60, p["start"].minute)
        g = gcd(p["interval"], base)
        if p.get(key) and not [x for x in p[key] if g == 1 or (x - st) % g == 0]:
            m = "ERR"
        else:
            m = model_sub(p)
        try: r = real(p)
        except ValueError: r = "ERR"
        ne += bool(m) and m != "ERR"
        if m != r:
            bad += 1
            if bad <= 5:
                print("MISMATCH", {k: (v.isoformat() if hasattr(v, 'isoformat') else v) for k, v in p.items()})
                print("  model", m if m=="ERR" else ([t.isoformat() for t in m[:8]], len(m))); print("  real ", r if r=="ERR" else ([t.isoformat() for t in r[:8]], len(r)))
    print("cases", n, "nonempty", ne, "mismatches", bad)
