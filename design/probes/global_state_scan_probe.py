import ast, pathlib
root = pathlib.Path("/repo/snowfakery")
MUT = (ast.Dict, ast.List, ast.Set, ast.ListComp, ast.DictComp, ast.SetComp)
def interesting(v):
    if isinstance(v, MUT): return "container"
    if isinstance(v, ast.Call):
        f = ast.unparse(v.func)
        if f in ("count", "itertools.count"): return "counter"
        if f in ("defaultdict", "dict", "list", "set", "OrderedDict", "ContextVar", "Faker", "Random"): return "instance:" + f
    return None
out = []
for p in sorted(root.rglob("*.py")):
    if "/tools/" in str(p): continue
    t = ast.parse(p.read_text())
    def scan(body, scope):
        for n in body:
            if isinstance(n, ast.ClassDef): scan(n.body, scope + "." + n.name)
            elif isinstance(n, (ast.FunctionDef,)):
                for d in n.decorator_list:
                    if "lru_cache" in ast.unparse(d): out.append((str(p.relative_to(root)), scope + "." + n.name, "lru_cache"))
            elif isinstance(n, (ast.Assign, ast.AnnAssign)) and getattr(n, "value", None) is not None:
                k = interesting(n.value)
                tg = ast.unparse(n.targets[0] if isinstance(n, ast.Assign) else n.target)
                if k: out.append((str(p.relative_to(root)), scope + "." + tg, k))
    scan(t.body, "")
for o in out: print(o)
print(len(out))
