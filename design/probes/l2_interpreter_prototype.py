"""Design probe: Python prototype of the L2 reference interpreter (to be ported to Lean),
with a small recipe generator, compared against real Snowfakery. Not framework code."""
import io, random, sys, warnings, json
warnings.simplefilter("ignore")
from snowfakery.data_generator import generate
from snowfakery.output_streams import OutputStream
from snowfakery.data_gen_exceptions import DataGenError
from snowfakery.data_generator_runtime import StoppingCriteria
from snowfakery.object_rows import ObjectRow, ObjectReference, NicknameSlot

# ---------------------------------------------------------------- real side
class Cap(OutputStream):
    def __init__(self): self.rows = []
    def canon(self, v):
        if isinstance(v, (ObjectRow, ObjectReference)):
            i = v.id
            return ["ref", v._tablename, i if isinstance(i, int) else repr(i)]
        if isinstance(v, bool): return ["bool", v]
        if isinstance(v, int): return ["int", v]
        if isinstance(v, str): return ["str", v]
        if v is None: return ["null"]
        return ["other", type(v).__name__, str(v)]
    def write_row(self, t, row): self.rows.append([t, [[k, self.canon(v)] for k, v in row.items()]])
    def write_single_row(self, *a): pass
    def close(self): pass

def run_real(yaml_text, reps):
    cap = Cap()
    try:
        generate(io.StringIO(yaml_text), output_stream=cap, stopping_criteria=StoppingCriteria("__REPS__", reps))
        return ["ok", cap.rows]
    except DataGenError as e:
        return ["err", cap.rows]
    except Exception as e:
        return ["internal:" + type(e).__name__, cap.rows]

# ---------------------------------------------------------------- YAML emitter
def expr_src(e):
    k = e[0]
    if k == "int": return str(e[1])
    if k == "name": return e[1]
    if k == "attr": return f"{expr_src(e[1])}.{e[2]}"
    if k in ("add", "sub", "mul"): return f"({expr_src(e[1])} {dict(add='+', sub='-', mul='*')[k]} {expr_src(e[2])})"
    raise ValueError(e)
def tmpl_src(parts):
    return "".join(p[1] if p[0] == "text" else "${{" + expr_src(p[1]) + "}}" for p in parts)
def fd_yaml(fd, ind):
    k = fd[0]; pad = " " * ind
    if k == "lit": return " " + json.dumps(fd[1]) + "\n"
    if k == "tmpl": return " " + json.dumps(tmpl_src(fd[1])) + "\n"
    if k == "ref": return "\n" + pad + "reference: " + fd[1] + "\n"
    if k == "nested": return "\n" + stmt_yaml(fd[1], ind, dash=True)
    raise ValueError(fd)
def stmt_yaml(st, ind, dash=True):
    pad = " " * ind
    if "var" in st:
        return f"{pad}- var: {st['var']}\n{pad}  value:" + fd_yaml(st["value"], ind + 4)
    out = f"{pad}- object: {st['object']}\n"
    if st.get("nickname"): out += f"{pad}  nickname: {st['nickname']}\n"
    if st.get("just_once"): out += f"{pad}  just_once: true\n"
    if st.get("count") is not None: out += f"{pad}  count:" + fd_yaml(st["count"], ind + 4)
    if st.get("fields"):
        out += f"{pad}  fields:\n"
        for n, fd in st["fields"]: out += f"{pad}    {n}:" + fd_yaml(fd, ind + 6)
    if st.get("friends"):
        out += f"{pad}  friends:\n"
        for f in st["friends"]: out += stmt_yaml(f, ind + 4)
    return out
def recipe_yaml(rc):
    out = f"- snowfakery_version: {rc['version']}\n"
    for name, dflt in rc.get("options", []): out += f"- option: {name}\n  default: {json.dumps(dflt)}\n"
    for st in rc["statements"]: out += stmt_yaml(st, 0)
    return out

# ---------------------------------------------------------------- model
class Outside(Exception): pass
class RecipeError(Exception): pass
class Row:
    def __init__(s, table, values, idx): s.table, s.values, s.idx = table, values, idx
class Slot:
    def __init__(s, table): s.table, s.state = table, None   # None | int | "CONSUMED"
UNDEF = ("undef",)

def look_for_number(a):
    if len(a) == 0 or (a[0] == "0" and a[1:2] != "."): return a
    dot = False
    for c in a:
        if c not in "0123456789.": return a
        if c == ".":
            if dot: return a
            dot = True
    if dot: raise Outside("float")
    return int(a)

class Model:
    def __init__(s, rc):
        s.rc = rc; s.v3 = rc["version"] == 3
        s.last = {}; s.out = []
        s.names = {}
        for st in rc["statements"]:
            if "object" in st and st.get("nickname"): s.names[st["nickname"]] = st["object"]
        for st in rc["statements"]:
            if "object" in st: s.names[st["object"]] = st["object"]
        s.pnick, s.ptable = {}, {}
        s.options = dict(rc.get("options", []))
        s.reset()
    def reset(s):
        s.slots = {n: Slot(t) for n, t in s.names.items()}; s.nick, s.seen = {}, {}
    def gen_id(s, table):
        s.last[table] = s.last.get(table, 0) + 1; return s.last[table]
    def slot_id(s, sl):
        if sl.state is None: sl.state = s.gen_id(sl.table)
        return sl.state
    def object_names(s):
        d = dict(s.slots); d.update(s.pnick); d.update(s.ptable); d.update(s.nick); d.update(s.seen); return d
    def field_vars(s, ctx):
        obj = ctx["obj"]
        d = {"id": obj.values["id"] if obj else None, "count": obj.values["id"] if obj else None,
             "child_index": obj.idx if obj else None, "this": obj}
        d.update(s.options); d.update(s.object_names())
        if obj: d.update(obj.values)
        d.update(ctx["vars"])
        return d
    # ---- expressions
    def ev(s, e, env):
        k = e[0]
        if k == "int": return e[1]
        if k == "name": return env.get(e[1], UNDEF)
        if k == "attr":
            b = s.ev(e[1], env)
            if b is UNDEF: raise RecipeError("attr of undefined")
            if isinstance(b, Row):
                return b.values.get(e[2], UNDEF) if e[2] in b.values else UNDEF
            if isinstance(b, Slot):
                if e[2] == "id": return s.slot_id(b)
                return UNDEF
            return UNDEF
        a, b = s.ev(e[1], env), s.ev(e[2], env)
        if a is UNDEF or b is UNDEF: raise RecipeError("undefined in arithmetic")
        if isinstance(a, bool) or isinstance(b, bool): raise Outside("bool arith")
        if isinstance(a, int) and isinstance(b, int):
            return a + b if k == "add" else a - b if k == "sub" else a * b
        if isinstance(a, str) and isinstance(b, str) and k == "add": return a + b
        if k == "mul" and {type(a), type(b)} == {int, str}: raise Outside("str repeat")
        raise RecipeError("type error")
    def to_str(s, v):
        if v is UNDEF: return ""
        if isinstance(v, Row): return str(v.values["id"])
        if isinstance(v, Slot): raise Outside("slot repr")
        if v is None: return "None"
        return str(v)
    def render_tmpl(s, parts, ctx):
        env = s.field_vars(ctx)
        has_expr = any(p[0] == "expr" for p in parts)
        if not has_expr:
            text = "".join(p[1] for p in parts)
            return text if s.v3 else look_for_number(text)
        if s.v3:
            if len(parts) == 1:
                v = s.ev(parts[0][1], env)
                if v is UNDEF: raise RecipeError("undefined")
                if not isinstance(v, str): return v
                raw = v
            else:
                vals = [p[1] if p[0] == "text" else s.ev(p[1], env) for p in parts]
                if any(v is UNDEF for v in vals): raise Outside("undefined in concat v3")
                raw = "".join(s.to_str(v) for v in vals)
            return s.literal(raw)
        vals = [p[1] if p[0] == "text" else s.to_str(s.ev(p[1], env)) for p in parts]
        return look_for_number("".join(vals))
    def literal(s, raw):
        # ast.literal_eval approximation on the fragment: pure digit strings w/o leading zero → int
        if raw.isdigit() and raw.isascii() and (raw == "0" or raw[0] != "0"): return int(raw)
        if raw and raw[0] == "-" and raw[1:].isdigit() and raw.isascii() and (raw[1:] == "0" or raw[1] != "0"): return int(raw)
        if any(c in raw for c in "'\"[](){}#,+-*/.\\ \t\n_:") or raw in ("None", "True", "False") or raw == "" or raw[0].isdigit(): raise Outside("literal_eval risk")
        return raw
    # ---- field defs
    def render_fd(s, fd, ctx):
        k = fd[0]
        if k == "lit":
            v = fd[1]
            if isinstance(v, str): return v if s.v3 else look_for_number(v)
            return v
        if k == "tmpl": return s.render_tmpl(fd[1], ctx)
        if k == "nested": return s.template(fd[1], ctx)
        if k == "ref":
            parts = fd[1].split("."); env = s.field_vars(ctx)
            t = env.get(parts[0])
            for p in parts[1:]:
                if isinstance(t, Row):
                    if p not in t.values: raise RecipeError("no attr")
                    t = t.values[p]
                elif isinstance(t, Slot):
                    if p == "id": t = s.slot_id(t)
                    else: raise RecipeError("no attr on slot")
                else: raise RecipeError("no attr")
            if t is None or t == 0 or t == "" : raise RecipeError("not found")
            if isinstance(t, Slot):
                i = s.slot_id(t)
                if i == "CONSUMED": pass
                return t
            if isinstance(t, Row): return t
            raise RecipeError("incorrect object type")
        raise ValueError(fd)
    def count(s, st, ctx):
        c = st.get("count")
        if c is None: return 1
        v = s.render_fd(c, ctx)
        if isinstance(v, (Row, Slot)) or v is None: raise RecipeError("count")
        try: return int(float(v))
        except (ValueError, TypeError): raise RecipeError("count")
    # ---- statements
    def template(s, st, parent_ctx):
        ctx = {"obj": None, "vars": dict(parent_ctx["vars"])}
        n = s.count(st, ctx); last = None
        for i in range(n):
            ctx["vars"]["child_index"] = i
            last = s.row(st, ctx, i)
        return last
    def row(s, st, ctx, i):
        table, nick = st["object"], st.get("nickname"); rid = None
        if nick:
            sl = s.slots.get(nick)
            if sl and isinstance(sl.state, int): rid, sl.state = sl.state, "CONSUMED"
        if rid is None:
            sl = s.slots.get(table)
            if sl and isinstance(sl.state, int): rid, sl.state = sl.state, "CONSUMED"
        if rid is None: rid = s.gen_id(table)
        row = Row(table, {"id": rid}, i); ctx["obj"] = row
        if nick:
            (s.pnick if st.get("just_once") else s.nick)[nick] = row
        if st.get("just_once"): s.ptable[table] = row
        s.seen[table] = row
        for name, fd in st.get("fields", []):
            fctx = ctx
            v = s.render_fd(fd, fctx)
            ctx["obj"] = row   # (nested templates use their own ctx)
            row.values[name] = v
        if not table.startswith("__"):
            s.out.append([table, [[k, s.canon(v)] for k, v in row.values.items() if not k.startswith("__")]])
        for f in st.get("friends", []): s.stmt(f, ctx, True)
        return row
    def canon(s, v):
        if isinstance(v, Row): return ["ref", v.table, v.values["id"]]
        if isinstance(v, Slot):
            i = s.slot_id(v); return ["ref", v.table, i if isinstance(i, int) else "<SlotState.CONSUMED: 3>"]
        if isinstance(v, bool): return ["bool", v]
        if isinstance(v, int): return ["int", v]
        if isinstance(v, str): return ["str", v]
        if v is None: return ["null"]
        raise Outside("value")
    def stmt(s, st, ctx, continuing):
        if "var" in st:
            cctx = {"obj": ctx["obj"], "vars": dict(ctx["vars"])}
            # VariableDefinition.execute: child context of the *current* context: obj is None in a fresh child
            cctx["obj"] = None
            v = s.render_fd(st["value"], cctx)
            ctx["vars"][st["var"]] = v
        else:
            if st.get("just_once") and continuing: return
            s.template(st, ctx)
    def run(s, reps):
        top = {"obj": None, "vars": {}}
        try:
            for it in range(reps):
                for st in s.rc["statements"]: s.stmt(st, top, it > 0)
                bad = [n for n, sl in s.slots.items() if isinstance(sl.state, int)]
                if bad: raise RecipeError("unfulfilled")
                s.reset()
            return ["ok", s.out]
        except RecipeError:
            return ["err", s.out]

# ---------------------------------------------------------------- generator
TABLES = ["A", "B", "C", "__H"]; NICKS = ["n1", "n2"]; FIELDS = ["f1", "f2", "f3", "__h"]; VARS = ["v1", "v2"]
class G:
    def __init__(s, r): s.r = r; s.top_names = []; s.vars = []
    def expr(s, d, fields_so_far):
        r = s.r; x = r.random()
        safe = ["child_index", "id", "o1"] + fields_so_far + s.vars
        if d <= 0 or x < 0.3: return ("int", r.randint(0, 12))
        if x < 0.55: return ("name", r.choice(safe))
        if x < 0.6: return ("name", r.choice(FIELDS + VARS + s.top_names))       # maybe undefined / row / slot
        if x < 0.75 and s.top_names: return ("attr", ("name", r.choice(s.top_names)), r.choice(["id", "id", "f1", "f2"]))
        return (r.choice(["add", "add", "sub", "mul"]), s.expr(d - 1, fields_so_far), s.expr(d - 1, fields_so_far))
    def fd(s, depth, fields_so_far, allow_nested=True):
        r = s.r; x = r.random()
        if x < 0.2: return ("lit", r.choice([r.randint(0, 20), "abc", "12", "007", "x y", "0"]))
        if x < 0.45: return ("tmpl", [("expr", s.expr(2, fields_so_far))])
        if x < 0.55: return ("tmpl", [("text", r.choice(["x", "q"])), ("expr", s.expr(1, fields_so_far)), ("text", r.choice(["", "z"]))])
        if x < 0.8 and s.top_names:
            y = r.random()
            if y < 0.8: return ("ref", r.choice(s.top_names))
            if y < 0.9 and fields_so_far: return ("ref", r.choice(fields_so_far))
            return ("ref", r.choice(s.top_names) + "." + r.choice(FIELDS[:3]))
        if allow_nested and depth > 0: return ("nested", s.template(depth - 1, top=False))
        return ("lit", r.randint(0, 5))
    def template(s, depth, top, table=None, nick=None):
        r = s.r
        st = {"object": table or r.choice(TABLES)}
        if nick: st["nickname"] = nick
        if top and r.random() < 0.15: st["just_once"] = True
        x = r.random()
        if x < 0.25: st["count"] = ("lit", r.randint(0, 3))
        elif x < 0.35: st["count"] = ("tmpl", [("expr", s.expr(1, []))])
        fs = []; sofar = []
        for n in r.sample(FIELDS, r.randint(0, 4)):
            fs.append((n, s.fd(depth, list(sofar)))); sofar.append(n)
        st["fields"] = fs
        if depth > 0 and r.random() < 0.3:
            st["friends"] = [s.stmt(depth - 1, top=False) for _ in range(r.randint(1, 2))]
        return st
    def stmt(s, depth, top, table=None, nick=None):
        r = s.r
        if not table and r.random() < 0.15:
            v = r.choice(VARS); st = {"var": v, "value": s.fd(0, [], allow_nested=False)}; s.vars.append(v); return st
        return s.template(depth, top, table, nick)
    def recipe(s):
        r = s.r; n = r.randint(1, 5); plan = []
        for _ in range(n):
            t = r.choice(TABLES); nk = r.choice(NICKS) if r.random() < 0.4 else None
            plan.append((t, nk))
        # WellNamed: a nickname maps to one table
        seen = {}
        plan = [(t, nk if nk is None or seen.setdefault(nk, t) == t else None) for t, nk in plan]
        s.top_names = sorted({t for t, _ in plan} | {nk for _, nk in plan if nk})
        sts = []
        for t, nk in plan:
            if r.random() < 0.12: sts.append(s.stmt(0, True))
            sts.append(s.stmt(2, True, t, nk))
        return {"version": r.choice([2, 3]), "options": [("o1", r.choice([1, 2, 3]))], "statements": sts}
def gen_recipe(r): return G(r).recipe()

if __name__ == "__main__":
    seed, n = int(sys.argv[1]), int(sys.argv[2]); r = random.Random(seed)
    stats = {"agree_ok": 0, "agree_err": 0, "outside": 0, "mismatch": 0, "internal": 0}; shown = 0
    for i in range(n):
        rc = gen_recipe(r); reps = r.choice([1, 1, 2, 3]); y = recipe_yaml(rc)
        real = run_real(y, reps)
        try: mod = Model(rc).run(reps)
        except Outside as o: stats["outside"] += 1; continue
        if real[0].startswith("internal"): stats["internal"] += 1
        rr = [real[0] if not real[0].startswith("internal") else "err", real[1]]
        if json.dumps(rr) == json.dumps(mod): stats["agree_" + mod[0]] += 1
        else:
            stats["mismatch"] += 1
            if shown < int(sys.argv[3]) if len(sys.argv) > 3 else 3:
                shown += 1
                print("=== MISMATCH reps", reps); print(y); print("real:", real[0]); [print("  ", x) for x in real[1]]; print("model:", mod[0]); [print("  ", x) for x in mod[1]]
    print(stats)
