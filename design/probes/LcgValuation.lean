import Mathlib.Tactic.Ring
import Mathlib.Tactic.Linarith
import Mathlib.Algebra.Order.Ring.Nat
import Mathlib.Data.Nat.ModEq
import Mathlib.Data.Nat.Prime.Basic

/-- geometric sum 1 + a + ... + a^(n-1) -/
def geo (a : Nat) : Nat → Nat
  | 0 => 0
  | n+1 => geo a n + a ^ n

theorem geo_add (a m n : Nat) : geo a (m + n) = geo a m + a ^ m * geo a n := by
  induction n with
  | zero => simp [geo]
  | succ n ih =>
    rw [← Nat.add_assoc, geo, ih, geo]; ring

theorem geo_two_mul (a n : Nat) : geo a (2 * n) = geo a n * (1 + a ^ n) := by
  rw [two_mul, geo_add]; ring

theorem pow_mod4 (a n : Nat) (h : a % 4 = 1) : a ^ n % 4 = 1 := by
  induction n with
  | zero => simp
  | succ n ih => rw [pow_succ, Nat.mul_mod, ih, h]

theorem geo_mod2 (a n : Nat) (h : a % 4 = 1) : geo a n % 2 = n % 2 := by
  induction n with
  | zero => simp [geo]
  | succ n ih =>
    have := pow_mod4 a n h
    rw [geo]; omega

theorem two_pow_dvd_geo (a : Nat) (h : a % 4 = 1) :
    ∀ n k : Nat, 0 < n → (2 ^ k ∣ geo a n ↔ 2 ^ k ∣ n) := by
  intro n
  induction n using Nat.strong_induction_on with
  | _ n ih =>
    intro k hn
    rcases Nat.even_or_odd' n with ⟨m, rfl | rfl⟩
    · -- n = 2m
      have hm : 0 < m := by omega
      cases k with
      | zero => simp
      | succ k =>
        have h1 : (1 + a ^ m) % 4 = 2 := by have := pow_mod4 a m h; omega
        obtain ⟨q, hq⟩ : ∃ q, 1 + a ^ m = 2 * (2 * q + 1) := ⟨(1 + a^m) / 4, by omega⟩
        rw [geo_two_mul, hq, pow_succ]
        have e1 : geo a m * (2 * (2 * q + 1)) = (geo a m * (2 * q + 1)) * 2 := by ring
        have e2 : 2 * m = m * 2 := by ring
        rw [e1, e2, Nat.mul_dvd_mul_iff_right (by norm_num), Nat.mul_dvd_mul_iff_right (by norm_num)]
        rw [← ih m (by omega) k hm]
        have hc : Nat.Coprime (2 ^ k) (2 * q + 1) := by
          apply Nat.Coprime.pow_left
          exact Nat.coprime_two_left.mpr ⟨q, rfl⟩
        exact ⟨fun hd => hc.dvd_of_dvd_mul_right hd, fun hd => Dvd.dvd.mul_right hd _⟩
    · -- n odd
      have hg := geo_mod2 a (2 * m + 1) h
      cases k with
      | zero => simp
      | succ k =>
        constructor
        · intro hd
          have : 2 ∣ geo a (2 * m + 1) := Dvd.dvd.trans ⟨2 ^ k, by ring⟩ hd
          omega
        · intro hd
          have : 2 ∣ 2 * m + 1 := Dvd.dvd.trans ⟨2 ^ k, by ring⟩ hd
          omega
