import ast, sys
def fn(tree, cls, name):
    for n in ast.walk(tree):
        if isinstance(n, ast.ClassDef) and n.name == cls:
            for m in n.body:
                if isinstance(m, ast.FunctionDef) and m.name == name: return m
src = open('/repo/snowfakery/data_generator_runtime.py').read(); t = ast.parse(src)
f = fn(t, 'Globals', 'object_names')
ret = [n for n in ast.walk(f) if isinstance(n, ast.Return)][0]
print("object_names order:", [ast.unparse(v) for k, v in zip(ret.value.keys, ret.value.values) if k is None])
f = fn(t, 'EvaluationNamespace', 'simple_field_vars')
ret = [n for n in ast.walk(f) if isinstance(n, ast.Return)][0]
print("field_vars order:", [(k.value if k else '**'+ast.unparse(v)) for k, v in zip(ret.value.keys, ret.value.values)])
f = fn(t, 'Globals', '__getstate__')
for n in ast.walk(f):
    if isinstance(n, ast.Assign) and isinstance(n.value, ast.Dict) and all(isinstance(k, ast.Constant) for k in n.value.keys):
        print("saved keys:", [k.value for k in n.value.keys])
f = fn(t, 'Globals', '__setstate__')
acc = []
for n in ast.walk(f):
    if isinstance(n, ast.Subscript) and ast.unparse(n.value) == 'state': acc.append(('item', ast.unparse(n.slice)))
    if isinstance(n, ast.Call) and ast.unparse(n.func) == 'state.get': acc.append(('get', ast.unparse(n.args[0])))
    if isinstance(n, ast.Call) and ast.unparse(n.func) == 'getattr' and ast.unparse(n.args[0]) == 'state': acc.append(('attr', ast.unparse(n.args[1])))
print("loaded:", acc)
src = open('/repo/snowfakery/standard_plugins/Schedule.py').read(); t = ast.parse(src)
f = fn(t, 'CalendarRule', '__init__')
assigns = {}
for n in f.body:
    if isinstance(n, ast.Assign) and isinstance(n.targets[0], ast.Name) and isinstance(n.value, ast.Call):
        assigns[n.targets[0].id] = ast.unparse(n.value)
for n in ast.walk(f):
    if isinstance(n, ast.Call) and ast.unparse(n.func) == 'rrule':
        for kw in n.keywords:
            print("  rrule", kw.arg, "<-", ast.unparse(kw.value), "<-", assigns.get(ast.unparse(kw.value)))
src = open('/repo/snowfakery/utils/randomized_range.py').read(); t = ast.parse(src)
for n in ast.walk(t):
    if isinstance(n, ast.FunctionDef) and n.name == 'random_range':
        for s in ast.walk(n):
            if isinstance(s, ast.Assign) and isinstance(s.targets[0], ast.Name) and s.targets[0].id in ('offset','multiplier','modulus','value','maximum'):
                print("  ", s.targets[0].id, "=", ast.unparse(s.value))
