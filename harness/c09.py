"""C09 — names starting with two underscores never reach any output.

(a) L2 differential biased to hidden fields/tables (the Lean interpreter proves `no_hidden_in_output`);
(b) metamorphic twin on the real code: recipe r vs unhide(r) (every `__x` renamed to a fresh visible
    name): out(r) must equal out(unhide r) with the renamed tables/fields dropped;
(c) every output format + the CCI mapping: no artefact contains a `__` identifier."""
import copy
import csv
import io
import json
import os
import re
import shutil
import sqlite3
import tempfile

import yaml

from . import common, l2, recipes

SPEC = {
    "lean": ["SnowModel.Props.C09", "SnowModel.Props.C09Ren", "SnowModel.Props.C09Bridge"],
    "pins": ["Runtime", "ObjectModel", "OutputHidden"],
    "technique": "Lean 4 simulation across a renaming (`hidden_is_projection`: a recipe and its un-hidden twin have the same status and the recipe's output is the twin's with the hidden rows/fields dropped, for every chain, fuel and both dialects, up to `outside`; v3 needs the stated safety condition, refutation witness included) + Lean 4 invariant over the L2 interpreter (no `__` table or field is ever appended to the output, for every recipe, chain and fuel; the prefix is looked at only where a row is written) + pinned filter/guard expressions + real-run metamorphic twin (recipe vs its un-hidden renaming) + artefact scan of every output format and the mapping",
    "level_text": "Machine-checked proof that the reference interpreter never emits a hidden table or field and that hiding is a projection: the run of a recipe and the run of its un-hidden twin are related state by state (the twin's final state is the renamed image, its output projected onto the visible names is the recipe's output, statuses agree), so hidden fields, references, counts and child objects are computed exactly like visible ones; the two places where the real interpreter looks at the `__` prefix (the write guard in _generate_row and filter_row_values) are pinned from the AST; on the real code every generated recipe is compared with its un-hidden twin (values, counts, references and child rows must be identical after dropping the renamed names) and every artefact of every format (txt, json, csv folder incl. csvw metadata, sql script, sqlite database, CCI mapping) is scanned for `__` identifiers.",
    "level_note": "Trusted: Lean kernel, py2lean, harness, the artefact decoders (csv, json, sqlite3, a regex scan of the SQL/debug text). `hidden_is_projection_partial` is proved for every renaming satisfying `GoodRen` (injective, fixes the interpreter's special names, does not hide visible names; in the v3 dialect additionally: no protected field is a bare-name formula — `hidden_is_projection_refuted` shows this is needed: that is finding D44's mechanism); the metamorphic twin check exercises the same statement on the real code. The target of a visible field's lookup may name a hidden table (C16 demands that lookup); it is neither a step nor a field of the mapping and is not flagged.",
    "assumptions": [],
    "budget": {"quick": 600, "thorough": 3000},
}

RENAME = {"__H": "HH", "__h": "hh"}


def unhide(x):
    """Rename every hidden identifier in an L2Gen AST (tables, fields, names in formulas, paths)."""
    if isinstance(x, str):
        if x in RENAME:
            return RENAME[x]
        if "." in x and any(p in RENAME for p in x.split(".")):
            return ".".join(RENAME.get(p, p) for p in x.split("."))
        return x
    if isinstance(x, list):
        if len(x) == 2 and x[0] == "text":
            return x  # literal text of a template is not an identifier
        if len(x) == 2 and x[0] == "lit":
            return x
        return [unhide(y) for y in x]
    if isinstance(x, dict):
        return {k: unhide(v) for k, v in x.items()}
    return x


def drop_renamed(rows):
    out = []
    for table, fields in rows:
        if table in RENAME.values():
            continue
        fs = []
        for k, v in fields:
            if k in RENAME.values():
                continue
            if isinstance(v, dict) and v.get("t") == "ref" and v["table"] in RENAME.values():
                v = dict(v, table={b: a for a, b in RENAME.items()}[v["table"]])
            elif isinstance(v, dict) and v.get("t") == "str":
                # a string may embed a renamed identifier (the repr of a forward-reference slot in
                # the v2 dialect: `<NicknameSlot HH …>`): map it back before comparing
                t = v["v"]
                for a, b in RENAME.items():
                    t = t.replace(b, a)
                v = dict(v, v=t)
            fs.append([k, v])
        out.append([table, fs])
    return out


def lazy_slot_in_hidden(rc):
    """v3 only: a bare-name formula `${{name}}` naming a top-level template (it evaluates to the
    forward-reference slot object itself, without reserving an id) stored in a hidden field or in a row
    of a hidden table: the id is reserved only when a row holding the slot is written (finding D44)."""
    if rc["version"] != 3:
        return False
    tops = set()
    for st in rc["statements"]:
        if "object" in st:
            tops.add(st["object"])
            if st.get("nickname"):
                tops.add(st["nickname"])

    def bare(fd):
        return fd[0] == "tmpl" and len(fd[1]) == 1 and fd[1][0][0] == "expr" and fd[1][0][1][0] == "name" and fd[1][0][1][1] in tops

    def walk(st, hidden):
        if "var" in st:
            return False
        h = hidden or st["object"].startswith("__")
        for n, fd in st.get("fields", []):
            if bare(fd) and (h or n.startswith("__")):
                return True
            if fd[0] == "nested" and walk(fd[1], h or n.startswith("__")):
                return True
        return any(walk(f, h) for f in st.get("friends", []))

    return any(walk(st, False) for st in rc["statements"])


def twin_oracle(rep, rc, k):
    text = recipes.recipe_yaml(rc)
    twin = unhide(copy.deepcopy(rc))
    a, _ = l2.run_real(rc, [k], final_continuation=False)
    b, ttext = l2.run_real(twin, [k], final_continuation=False)
    case = {"recipe": text, "parts": [k], "ast": rc, "twin": ttext}
    for table, fields in a.rows:
        if table.startswith("__") or any(f.startswith("__") for f, _ in fields):
            rep.violation("C09:hidden-name-in-rows", f"a row of {table} with fields {[f for f, _ in fields]} reached the output stream", case)
            return a, case
    ca, cb = a.outcome.split(":")[0], b.outcome.split(":")[0]
    if ca != cb:
        if (ca == "ok" and "Reference not fulfilled" in (b.error or "")) or lazy_slot_in_hidden(rc):
            # a forward-reference slot stored (un-allocated, v3 native formula) in a hidden field or in a
            # row of a hidden table is never asked for its id because it is never written; the visible
            # twin is, reserves an id at write time and then fails the end-of-iteration check
            rep.violation("C09:twin-outcome:unfulfilled-only-when-visible",
                          f"recipe completes, its un-hidden twin fails ({(b.error or '')[:100]}): a dangling forward reference goes unnoticed when it is only held by hidden names",
                          case, b.outcome, a.outcome)
            return a, case
        rep.violation("C09:twin-outcome", f"recipe ends {a.outcome} ({(a.error or '')[:100]}), its un-hidden twin ends {b.outcome} ({(b.error or '')[:100]})", case, b.outcome, a.outcome)
        return a, case
    if a.outcome == "ok":
        ra = l2.canon_rows(a.rows)
        rb = drop_renamed(l2.canon_rows(b.rows))
        if ra != rb:
            i = 0
            while i < min(len(ra), len(rb)) and ra[i] == rb[i]:
                i += 1
            sig = "C09:twin-outcome:unfulfilled-only-when-visible" if lazy_slot_in_hidden(rc) else "C09:twin-differs"
            rep.violation(sig, f"row {i}: {ra[i] if i < len(ra) else None} but the un-hidden twin (renamed names dropped) gives {rb[i] if i < len(rb) else None}",
                          case, rb[i] if i < len(rb) else None, ra[i] if i < len(ra) else None)
    return a, case


def rref_case(rng):
    """A hidden field (or a row of a hidden table) reached through `random_reference` — the one path that
    reloads a row from the row history instead of using the live object — and read back by formulas."""
    v = rng.choice([2, 3])
    target = rng.choice(["A", "A", "__H"])
    nick = rng.choice([None, "n1"])
    vals = [rng.choice(["7", "abc", "12", "true"]) for _ in range(2)]
    cnt = rng.randint(1, 3)
    how = rng.choice(["plain", "scope", "unique", "nick"])
    to = nick if (how == "nick" and nick) else target
    rr = f"random_reference: {to}" if how in ("plain", "nick") else (
        f"random_reference:\n          to: {to}\n          scope: prior-and-current-iterations" if how == "scope" else
        f"random_reference:\n          to: {to}\n          unique: true")
    bcount = 1 if how == "unique" else rng.randint(1, 2)
    lines = [f"- snowfakery_version: {v}", f"- object: {target}"]
    if nick:
        lines.append(f"  nickname: {nick}")
    lines += [f"  count: {cnt if how != 'unique' else max(cnt, bcount)}", "  fields:", f"    __h: {vals[0]}", f"    f1: {vals[1]}",
              "    __k: ${{child_index + 40}}",
              "- object: B", f"  count: {bcount}", "  fields:", "    r:", f"      {rr}",
              "    x: ${{r.__h}}", "    y: ${{r.f1}}", "    __h: ${{r.__k}}", "    z: ${{__h}}"]
    if rng.random() < 0.5:
        lines += ["  friends:", "    - object: C", "      fields:", "        w: ${{B.r.__h}}", "        __h:", "          reference: B"]
    return "\n".join(lines) + "\n", rng.randint(0, 10**6)


def unhide_text(text):
    for a, b in (("__H", "HH"), ("__h", "hh"), ("__k", "kk")):
        text = text.replace(a, b)
    return text


def rref_oracle(rep, text, k, seed):
    """Twin oracle on YAML text with the random module seeded identically for both runs (the two recipes have
    the same shape, so they draw the same random numbers)."""
    import random as _random

    case = {"kind": "rref", "recipe": text, "parts": [k], "seed": seed, "twin": unhide_text(text)}
    _random.seed(seed)
    a = common.run_recipe(text, reps=k)
    _random.seed(seed)
    b = common.run_recipe(case["twin"], reps=k)
    for table, fields in a.rows:
        if table.startswith("__") or any(f.startswith("__") for f, _ in fields):
            rep.violation("C09:hidden-name-in-rows", f"a row of {table} with fields {[f for f, _ in fields]} reached the output stream", case)
            return a
    if a.outcome.split(":")[0] != b.outcome.split(":")[0]:
        rep.violation("C09:twin-outcome", f"recipe ends {a.outcome} ({(a.error or '')[:120]}), its un-hidden twin ends {b.outcome} ({(b.error or '')[:120]})",
                      case, b.outcome, a.outcome)
        return a
    if a.outcome == "ok":
        ren = dict(RENAME, __k="kk")
        back = {b_: a_ for a_, b_ in ren.items()}
        rb = []
        for table, fields in l2.canon_rows(b.rows):
            if table in back:
                continue
            fs = []
            for f, val in fields:
                if f in back:
                    continue
                if isinstance(val, dict) and val.get("t") == "ref" and val["table"] in back:
                    val = dict(val, table=back[val["table"]])
                fs.append([f, val])
            rb.append([table, fs])
        ra = l2.canon_rows(a.rows)
        if ra != rb:
            i = 0
            while i < min(len(ra), len(rb)) and ra[i] == rb[i]:
                i += 1
            rep.violation("C09:twin-differs", f"row {i}: {ra[i] if i < len(ra) else None} but the un-hidden twin (renamed names dropped) gives {rb[i] if i < len(rb) else None}",
                          case, rb[i] if i < len(rb) else None, ra[i] if i < len(ra) else None)
    return a


def upsert_case(rng):
    """Templates with `update_key` (upsert load steps) carrying hidden fields — scalars, formulas, references —
    next to plain templates of the same table; hidden tables with update keys."""
    v = rng.choice([2, 3])
    lines = [f"- snowfakery_version: {v}", "- object: Company", "  nickname: co", "  fields:", "    name: Acme", "    __k: 7"]
    keys = ["Email", "Name"]
    for i in range(rng.randint(1, 3)):
        table = rng.choice(["Contact", "Contact", "__H"])
        lines += [f"- object: {table}"]
        if rng.random() < 0.8:
            lines += [f"  update_key: {rng.choice(keys)}"]
        lines += ["  fields:", f"    Email: p{i}@example.com", f"    Name: n{i}"]
        if rng.random() < 0.8:
            lines += [f"    __first: {rng.choice(['b', '12', 'true'])}"]
        if rng.random() < 0.6:
            lines += ["    __employer:", "      reference: co"]
        if rng.random() < 0.5:
            lines += ["    Title: ${{__first}}" if any("__first" in x for x in lines[-4:]) else "    Title: t"]
        if rng.random() < 0.4:
            lines += ["    boss:", "      reference: co"]
    return "\n".join(lines) + "\n"


def update_case(rng):
    """Update mode: an input CSV with a `__` column, asked for as a pass-through field, next to hidden recipe fields."""
    cols = ["Id", "Name"] + rng.sample(["__x", "__k", "City"], rng.randint(1, 3))
    rows = [[f"00{i}"] + [f"v{i}{j}" for j in range(len(cols) - 1)] for i in range(1, rng.randint(2, 4))]
    csv_text = ",".join(cols) + "\n" + "".join(",".join(r) + "\n" for r in rows)
    passthrough = ["Id"] + [c for c in cols[2:] if rng.random() < 0.8]
    lines = ["- object: Contact", "  fields:", "    Greeting: hi ${{input.Name}}"]
    if rng.random() < 0.6:
        lines += ["    __tmp: ${{input.Name}}", "    Copy: ${{__tmp}}"]
    return {"kind": "update", "recipe": "\n".join(lines) + "\n", "csv": csv_text, "passthrough": passthrough, "parts": [1]}


def update_oracle(rep, case):
    from snowfakery import generate_data

    d = tempfile.mkdtemp(prefix="verif_c09u_")
    try:
        rpath, ipath, csvd, dbp = (os.path.join(d, n) for n in ("r.recipe.yml", "in.csv", "csv", "o.db"))
        os.mkdir(csvd)
        with open(rpath, "w") as f:
            f.write(case["recipe"])
        with open(ipath, "w") as f:
            f.write(case["csv"])
        js = io.StringIO()
        from snowfakery.api import SnowfakeryApplication

        def app():
            a = SnowfakeryApplication()
            a.echo = lambda *args, **kw: None
            return a

        kw = dict(update_input_file=ipath, update_passthrough_fields=case["passthrough"])
        # each artefact is scanned as soon as it exists: a later format failing must not hide an earlier leak
        try:
            generate_data(rpath, parent_application=app(), output_format="json", output_files=[js], **kw)
        except Exception as e:  # noqa
            rep.count("update-run-failed:" + common.outcome_of_exception(e).split(":")[0])
            return
        names = []
        for row in json.loads(js.getvalue() or "[]"):
            names += list(row.keys()) + [row.get("_table")]
        if scan(rep, case, "json", names):
            return
        try:
            generate_data(rpath, parent_application=app(), output_format="csv", output_folder=csvd, **kw)
            generate_data(rpath, parent_application=app(), dburl=f"sqlite:///{dbp}", **kw)
        except Exception as e:  # noqa
            # the JSON run of the very same recipe and input completed: a format that cannot take the rows is a
            # row reaching the stream with a key its schema (rightly) does not have
            rep.violation("C09:hidden-name-in-rows", f"the JSON run completes but another output format fails on the same rows ({type(e).__name__}: {str(e)[:160]})", case)
            return
        rep.count("update-run-ok")
        names = []
        for fn in os.listdir(csvd):
            names.append(os.path.splitext(fn)[0])
            if fn.endswith(".csv"):
                with open(os.path.join(csvd, fn), newline="") as f:
                    names += next(csv.reader(f), [])
            else:
                names += IDENT.findall(open(os.path.join(csvd, fn)).read())
        if scan(rep, case, "csv", names):
            return
        con = sqlite3.connect(dbp)
        names = []
        for (tn,) in con.execute("select name from sqlite_master where type='table'").fetchall():
            names.append(tn)
            names += [r[1] for r in con.execute(f'pragma table_info("{tn}")').fetchall()]
        con.close()
        scan(rep, case, "sqlite", names)
    finally:
        shutil.rmtree(d, ignore_errors=True)


def mapping_oracle(rep, text, k):
    """Run with a CCI mapping file and scan steps, sf_object/table, field keys and lookup keys."""
    from snowfakery import generate_data
    from snowfakery.api import SnowfakeryApplication, COUNT_REPS
    from snowfakery.data_generator_runtime import StoppingCriteria

    case = {"kind": "upsert", "recipe": text, "parts": [k]}
    d = tempfile.mkdtemp(prefix="verif_c09m_")
    try:
        rpath, mapp = os.path.join(d, "r.recipe.yml"), os.path.join(d, "map.yml")
        with open(rpath, "w") as f:
            f.write(text)
        app = SnowfakeryApplication(StoppingCriteria(COUNT_REPS, k))
        app.echo = lambda *a, **kw: None
        try:
            generate_data(rpath, parent_application=app, output_format="json", output_files=[io.StringIO()],
                          generate_cci_mapping_file=mapp)
        except Exception as e:  # noqa
            rep.count("upsert-run-failed:" + common.outcome_of_exception(e).split(":")[0])
            return
        rep.count("upsert-run-ok")
        m = yaml.safe_load(open(mapp)) or {}
        names = []
        for step, body in m.items():
            names += IDENT.findall(step) + [body.get("sf_object"), body.get("table"), body.get("update_key")]
            names += list((body.get("fields") or {}).keys()) + list((body.get("fields") or {}).values())
            for lk, lv in (body.get("lookups") or {}).items():
                names += [lk, lv.get("key_field") if isinstance(lv, dict) else None]
            names += IDENT.findall(" ".join(map(str, body.get("filters") or [])))
        scan(rep, case, "mapping", [n for n in names if isinstance(n, str)])
    finally:
        shutil.rmtree(d, ignore_errors=True)


IDENT = re.compile(r"__[A-Za-z]\w*")


def scan(rep, case, where, text_or_names):
    names = text_or_names if isinstance(text_or_names, (list, set, tuple)) else IDENT.findall(text_or_names)
    bad = [n for n in names if isinstance(n, str) and n.startswith("__")]
    if bad:
        rep.violation(f"C09:hidden-name-in-{where}", f"{where} contains hidden identifiers {sorted(set(bad))[:5]}", case, [], sorted(set(bad)))
        return True
    return False


def formats_oracle(rep, rc, k):
    """Run the recipe once into every output format (+ mapping) and scan the artefacts."""
    from snowfakery import generate_data

    text = recipes.recipe_yaml(rc)
    case = {"recipe": text, "parts": [k], "ast": rc}
    d = tempfile.mkdtemp(prefix="verif_c09_")
    try:
        rpath = os.path.join(d, "r.recipe.yml")
        with open(rpath, "w") as f:
            f.write(text)
        txt, js = io.StringIO(), io.StringIO()
        sqlp, dbp, csvd, mapp = (os.path.join(d, n) for n in ("o.sql", "o.db", "csv", "map.yml"))
        os.mkdir(csvd)
        app_msgs = []

        def run(mapping):
            from snowfakery.api import SnowfakeryApplication, COUNT_REPS
            from snowfakery.data_generator_runtime import StoppingCriteria

            app = SnowfakeryApplication(StoppingCriteria(COUNT_REPS, k))
            app.echo = lambda message=None, *a, **kw: app_msgs.append(str(message))
            generate_data(rpath, parent_application=app, output_files=[txt, js, sqlp][:0] or None, output_format=None) if False else None
            # one call per format family (text streams need an explicit format)
            generate_data(rpath, parent_application=app, output_format="txt", output_files=[txt])
            app2 = SnowfakeryApplication(StoppingCriteria(COUNT_REPS, k)); app2.echo = app.echo
            generate_data(rpath, parent_application=app2, output_format="json", output_files=[js])
            app3 = SnowfakeryApplication(StoppingCriteria(COUNT_REPS, k)); app3.echo = app.echo
            generate_data(rpath, parent_application=app3, output_files=[sqlp], dburl=f"sqlite:///{dbp}",
                          generate_cci_mapping_file=mapp if mapping else None)
            app4 = SnowfakeryApplication(StoppingCriteria(COUNT_REPS, k)); app4.echo = app.echo
            generate_data(rpath, parent_application=app4, output_format="csv", output_folder=csvd)

        try:
            run(True)
        except Exception as e:  # noqa: recipe errors etc. are not this oracle's business
            rep.count("formats-run-failed:" + common.outcome_of_exception(e).split(":")[0])
            return
        rep.count("formats-run-ok")
        # txt
        # txt: `Table(field=value, …)` per row — table and field names only (a *value* may legitimately
        # render a reference into a hidden table as `__H(1)`: out of scope by the property's text)
        names = []
        for line in txt.getvalue().splitlines():
            if "(" in line:
                names.append(line.split("(", 1)[0])
                names += re.findall(r"(?:\(|, )(\w+)=", line)
        if scan(rep, case, "txt", names):
            return
        # json: keys and _table
        names = []
        for row in json.loads(js.getvalue() or "[]"):
            names += list(row.keys()) + [row.get("_table")]
        if scan(rep, case, "json", names):
            return
        # sql script + sqlite db
        if os.path.exists(sqlp):
            # execute the script and inspect the schema (values may legitimately mention names)
            con = sqlite3.connect(":memory:")
            names = []
            try:
                con.executescript(open(sqlp).read())
                for (tn,) in con.execute("select name from sqlite_master where type='table'").fetchall():
                    names.append(tn)
                    names += [r[1] for r in con.execute(f'pragma table_info("{tn}")').fetchall()]
            except sqlite3.Error as e:
                rep.count("sql-script-not-executable:" + type(e).__name__)
            finally:
                con.close()
            if scan(rep, case, "sql-script", names):
                return
        if os.path.exists(dbp):
            con = sqlite3.connect(dbp)
            names = []
            for (tn,) in con.execute("select name from sqlite_master where type='table'").fetchall():
                names.append(tn)
                names += [r[1] for r in con.execute(f'pragma table_info("{tn}")').fetchall()]
            con.close()
            if scan(rep, case, "sqlite", names):
                return
        # csv folder: file names, headers, csvw metadata
        names = []
        for fn in os.listdir(csvd):
            names.append(os.path.splitext(fn)[0])
            p = os.path.join(csvd, fn)
            if fn.endswith(".csv"):
                with open(p, newline="") as f:
                    hdr = next(csv.reader(f), [])
                names += hdr
            else:
                names += IDENT.findall(open(p).read())
        if scan(rep, case, "csv", names):
            return
        # mapping
        if os.path.exists(mapp):
            m = yaml.safe_load(open(mapp)) or {}
            names = []
            for step, body in m.items():
                names += IDENT.findall(step) + [body.get("sf_object"), body.get("table")] + list((body.get("fields") or {}).keys() if isinstance(body.get("fields"), dict) else body.get("fields") or [])
                # the *target* of a visible field's lookup may legitimately name a hidden table (the field held a
                # reference into it, C16 asks for exactly that lookup): like a reference value in the text output it
                # is neither a step nor a field of the mapping
                names += list((body.get("lookups") or {}).keys())
            scan(rep, case, "mapping", [n for n in names if n])
    finally:
        shutil.rmtree(d, ignore_errors=True)


def gen(rng):
    while True:
        g = recipes.L2Gen(rng)
        rc = g.recipe()
        if g.features & {"hidden-field", "hidden-table"}:
            return rc, g


def run(ctx, rep, findings):
    rep.rule = ("L2Gen recipes containing at least one hidden field or table (top level, nested, friends), both dialects, "
                "1-2 iterations: real run vs real run of the un-hidden twin; L2 model vs real run; a subset through every "
                "output format + mapping with artefact scan. Non-trivial: completed run with >= 3 rows.")
    for f in findings:
        if f.get("input") and "ast" in f["input"]:
            twin_oracle(rep, f["input"]["ast"], f["input"]["parts"][0])
    n = ctx.scale(350, 5000)
    nf = ctx.scale(45, 600)
    pending = []
    for f in findings:
        if f.get("input") and f["input"].get("kind") == "update":
            update_oracle(rep, f["input"])
    for i in range(ctx.scale(15, 150)):
        c = update_case(ctx.rng)
        update_oracle(rep, c)
        rep.case({"recipe": c["recipe"], "csv": c["csv"], "passthrough": c["passthrough"]}, nontrivial=True)
        rep.count("family:update-mode-hidden-passthrough")
    for i in range(ctx.scale(40, 500)):
        text = upsert_case(ctx.rng)
        k = ctx.rng.choice([1, 2])
        mapping_oracle(rep, text, k)
        rep.case({"recipe": text, "parts": [k]}, nontrivial=True)
        rep.count("family:upsert-with-hidden-fields (mapping)")
    for i in range(ctx.scale(60, 800)):
        text, seed = rref_case(ctx.rng)
        k = ctx.rng.choice([1, 2, 2])
        a = rref_oracle(rep, text, k, seed)
        rep.case({"recipe": text, "parts": [k], "seed": seed}, nontrivial=a.outcome == "ok" and len(a.rows) >= 2)
        rep.count("family:random_reference-to-hidden")
        rep.count("rref-outcome:" + a.outcome.split(":")[0])
    for i in range(n):
        rc, g = gen(ctx.rng)
        k = ctx.rng.choice([1, 1, 2])
        a, case = twin_oracle(rep, rc, k)
        rep.case({"recipe": case["recipe"], "parts": [k]}, nontrivial=a.outcome == "ok" and len(a.rows) >= 3)
        rep.count("outcome:" + a.outcome.split(":")[0])
        for f in g.features & {"hidden-field", "hidden-table", "nested", "friends"}:
            rep.count("feature:" + f)
        pending.append(({"recipe": case["recipe"], "parts": [k], "ast": rc}, a))
        if i < nf:
            formats_oracle(rep, rc, k)
        if len(pending) >= 250:
            flush(rep, pending)
        if ctx.time_left() < 60:
            rep.notes.append("stopped early: time budget")
            break
    flush(rep, pending)


def flush(rep, pending):
    res = common.model_batch([{"m": "l2.run", "recipe": c["ast"], "parts": c["parts"], "final_save": False} for c, _ in pending])
    for (case, chain), m in zip(pending, res):
        r = l2.compare(rep, "l2.hidden", case, chain, m)
        rep.count("compare:" + r)
        if r != "outside":
            rep.traces_validated += 1
    pending.clear()


def replay(case, rep):
    k = case["parts"][0]
    if case.get("kind") == "update":
        update_oracle(rep, case)
        return
    if case.get("kind") == "upsert":
        mapping_oracle(rep, case["recipe"], k)
        return
    if case.get("kind") == "rref":
        rref_oracle(rep, case["recipe"], k, case["seed"])
        return
    twin_oracle(rep, case["ast"], k)
    formats_oracle(rep, case["ast"], k)
