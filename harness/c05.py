"""C05 — the continuation file is a complete, re-loadable snapshot of persistent state.

For every generated recipe (just_once rows over the typed value universe, injected through recipe
literals, formulas and a tiny plugin) the REAL code is driven through its public entry point
(`data_generator.generate` with `generate_continuation_file` / `continuation_file`) and through
`load_continuation_yaml` / `save_continuation_yaml`:

  oracle (model-independent)
    * the run completed  =>  writing the file does not raise
    * `load(file)` equals the live `Globals` of the run that wrote it, component by component: id
      counters, every persistent row by nickname and by table with each field's TYPE and value,
      nickname->table bindings, today, dependencies
    * `save(load(file))` is the file, along a chain of up to 4 save/load steps; a continued run that
      generates nothing writes the same file
    * a continued run sees, through formulas (`${{nick.f.__class__.__name__}}`, the value), what the
      first run saw; `today` comes from the file; every persistent row of a table with history is back
      in the row history (`random_reference` still dereferences); the CCI mapping is unchanged
    * the YAML scalar contract itself: `safe_load(dump(v)) == v` with the same type, for every scalar used

  correspondence (Lean model `SnowModel.Persist`, driver method c05.cycle, YAML layer = identity)
    * outcome of the save (ok / RepresenterError of which class), the parsed file (key order included),
      the loaded state (order included, start_ids), the chain result, the history restore list.
"""
import datetime
import decimal
import io
import json
import re

from . import common

SPEC = {
    "lean": ["SnowModel.Props.C05", "SnowModel.Props.C05Bridge"],
    "pins": ["Runtime", "ObjectRows", "Persist"],
    "technique": "Lean 4 theorems over an executable model of save_continuation_yaml / load_continuation_yaml (Globals/IdManager/ObjectRow __getstate__/__setstate__, yaml.dump key sorting and representer failures, hydrate, the history restore) with the YAML scalar layer as an explicit contract hypothesis + key tables, access kinds, dump call, representer registrations and __setstate__ body pinned from the AST + differential correspondence and a direct oracle on real runs, files and Globals objects",
    "level_text": "Machine-checked proof, for every state (any tables, nicknames, rows, fields, values, dependencies) and every chain length, that under the YAML scalar contract loading a written continuation file gives back the id counters (start_ids re-derived), every persistent row with each remaining field's typed value, the nickname bindings, today and the dependencies (persist_roundtrip), that load-then-save reproduces the file and every longer chain is stable (save_load_save, chain_stable), that the save succeeds exactly on states without unrepresentable values (save_ok_iff; save_total refuted for slot values: D04, proved on the scalar universe incl. Decimal: save_total_scalars, decimal_roundtrip), that row-valued fields are the only loss (full_snapshot_refuted / persist_roundtrip_partial: D03), that the history restore puts back every persistent row of a history table (resave_complete; D48 repaired) while the history itself is not in the file (history_complete_refuted: D49); every key written is read back by key access (pinned).",
    "level_note": "Trusted: Lean kernel, py2lean, harness. PyYAML's scalar dump/load is an assumption (Lawful Y), exercised on every scalar of every case; floats, dates, datetimes and decimals (written under the tag !snowfakery_decimal) are opaque tokens in the model. Table / nickname / field names are assumed to round-trip as YAML strings (exercised with hostile names). What a continuation does not carry by design (top-level variables, transients) is C04's subject.",
    "assumptions": ["PyYAML: safe_load(dump(v, Dumper=SnowfakeryDumper)) == v with the same type for str/int/float/bool/None/date/datetime/Decimal (checked on every generated scalar)"],
    "budget": {"quick": 600, "thorough": 3000},
}

PLUGIN = "harness.c05_plugin.C05Plug"

# ----------------------------------------------------------------------------- value pools

STRS = [
    "12", "null", "yes", "~", "1e3", "0x10", " lead", "a: b", "- x", "'", "\n", "007", "1_000",
    "2024-01-01", "true", "", "No", "off", ".inf", "1:30", "0o17", "+1", "-0", "1.0", "1e+3", ".5",
    "=", "<<", "!tag", "&a", "*a", "#c", "a #b", "%d", "@x", "`x", "{a", "[a", "trail ", "\ttab",
    "x\r", "multi\nline\n", " x", "\x85y", "﻿bom", "héllo ☃", "\U0001F600", "\x07",
    "\x00z", "\"q\"", "\\", "2024-01-01T00:00:00", "null ", "Null", "NULL", "TRUE", "y", "n", "on",
    "123456789012345678901234567890", "-7", "0", "0.0", "nan", ".nan", "inf", "- ", "? x", ": x",
    "a\n\nb", "  ", "plain", "x" * 40 + " " + "y" * 50 + "  z", "|", ">", "---", "...", "a\tb", " ",
    "1,000", "0b11", "1__0", "9223372036854775808", "中文", "a'b\"c",
]
INTS = [0, 1, -1, 7, 2 ** 31, 2 ** 63, 2 ** 64, 2 ** 70, -(2 ** 70), 10 ** 30, -12345678901234567890]
FLOATS = ["1.5", "-0.0", "0.1", "1e22", "1e16", "1e-07", "nan", "inf", "-inf", "3.0", "123456789.12345679",
          "5e-324", "1.7976931348623157e308", "-2.5e-05"]
LIT_FLOATS = ["1.5", "0.25", "-3.75", ".inf", "-.inf", ".nan", "1.0e+3", "6.02e23", "1e3"]
DATES = ["2024-02-29", "0001-01-01", "9999-12-31", "1999-12-31"]
DATETIMES = ["2024-01-01T10:00:00", "2024-01-01T10:00:00+05:00", "2024-01-01T01:02:03+00:00",
             "2024-01-01T10:00:00.123456-03:30", "1970-01-01T00:00:00", "2038-01-19T03:14:08.000001+00:00"]
LIT_DATETIMES = ["2024-01-01T10:00:00", "2024-01-01 10:00:00+05:00", "2024-01-01T01:02:03Z",
                 "2024-01-01T10:00:00.123456-03:30"]
DECIMALS = ["1.50", "1.10", "0", "-3.14", "1E+3", "0E-10", "-0.00", "123456789012345678901234567890.123456789", "NaN", "-Infinity"]
SAFE_NICKS = ["qq", "rr", "ss", "tt"]
HOSTILE_NAMES = ["yes", "null", "12", "~", "héllo", "007", "true", "1e3", "No"]
TABLES = ["Q", "R", "S"]
FIELD_NAMES = ["f1", "f2", "f3", "f4", "f5", "f6"]
HOSTILE_FIELDS = ["12", "null", "yes", "a b", "é", "x.y", "a-b", "名前", "1st", "a: b"]
# the NAME of a field must not matter: hidden (`__x`), single underscore, id-adjacent names
UNDERSCORE_FIELDS = ["__h", "__x1", "__hidden_note", "_u", "_legacy_code", "_sf_code", "_id", "Id", "ID", "id2", "idx"]
# tables that get rows without being a top-level template of their own (so they are not in
# nicknames_and_tables): nested children, friends, hidden tables
EXTRA_KEYS = ["kid", "fr", "jfr", "hid", "kidh"]


def yq(s):
    """YAML double-quoted scalar for an arbitrary string"""
    out = ['"']
    for ch in s:
        o = ord(ch)
        if ch == '"':
            out.append('\\"')
        elif ch == "\\":
            out.append("\\\\")
        elif 32 <= o < 127:
            out.append(ch)
        elif o < 0x10000:
            out.append("\\u%04x" % o)
        else:
            out.append("\\U%08x" % o)
    out.append('"')
    return "".join(out)


# ----------------------------------------------------------------------------- generator


def gen_spec(rng, version, back_targets, fwd_targets):
    """one field definition spec"""
    r = rng.random()
    if r < 0.04 and back_targets:
        return {"via": "ref", "to": rng.choice(back_targets)}
    if r < 0.055 and fwd_targets:
        return {"via": "fwd", "to": rng.choice(fwd_targets)}
    if 0.06 <= r < 0.14:
        if rng.random() < 0.3:
            return {"via": "fakedec"}
        return {"via": "plugin", "t": "decimal", "v": rng.choice(DECIMALS)}
    t = rng.choice(["str", "str", "str", "int", "float", "bool", "null", "date", "datetime"])
    via = rng.choice(["lit", "plugin", "formula"] if version == 3 else ["lit", "plugin", "plugin"])
    if t == "str":
        s = rng.choice(STRS) if rng.random() < 0.85 else "".join(rng.choice("ab 1:-#'\"\n,[]{}&*!|>%@`~?=.0eE+_xnoé☃") for _ in range(rng.randint(1, 7)))
        if via == "formula":
            via = "lit"
        return {"via": via, "t": "str", "v": s}
    if t == "int":
        return {"via": via, "t": "int", "v": str(rng.choice(INTS))}
    if t == "float":
        if via == "lit":
            return {"via": "lit", "t": "float", "v": rng.choice(LIT_FLOATS)}
        if via == "formula":
            return {"via": "formula", "t": "float", "v": rng.choice(["1.5", "0.1", "2.5e-05", "1e22", "3.0"])}
        return {"via": "plugin", "t": "float", "v": rng.choice(FLOATS)}
    if t == "bool":
        return {"via": via, "t": "bool", "v": rng.choice([True, False])}
    if t == "null":
        return {"via": via, "t": "null", "v": None}
    if t == "date":
        return {"via": via, "t": "date", "v": rng.choice(DATES)}
    if via == "lit":
        return {"via": "lit", "t": "datetime", "v": rng.choice(LIT_DATETIMES)}
    return {"via": via, "t": "datetime", "v": rng.choice(DATETIMES)}


def gen_case(rng):
    version = 3 if rng.random() < 0.7 else 2
    nrows = rng.choice([1, 1, 2, 2, 3])
    rows = []
    used_nicks = set()
    back = ["T0"]
    for i in range(nrows):
        table = rng.choice(TABLES)
        r = rng.random()
        nick = None
        if r < 0.5:
            cand = [n for n in SAFE_NICKS if n not in used_nicks]
            nick = rng.choice(cand)
        elif r < 0.65:
            cand = [n for n in HOSTILE_NAMES if n not in used_nicks]
            nick = rng.choice(cand)
        if nick:
            used_nicks.add(nick)
        fields = []
        names = list(FIELD_NAMES)
        rng.shuffle(names)
        for fn in names[: rng.randint(1, 5)]:
            fields.append([fn, gen_spec(rng, version, back, ["C"] if rng.random() < 0.5 else [])])
        if rng.random() < 0.2:
            fields.append([rng.choice(HOSTILE_FIELDS), gen_spec(rng, version, [], [])])
        if rng.random() < 0.5:
            for fn in rng.sample(UNDERSCORE_FIELDS, rng.randint(1, 3)):
                fields.append([fn, gen_spec(rng, version, [], [])])
        rows.append({"table": table, "nick": nick, "fields": fields})
        back = back + [nick if (nick in SAFE_NICKS) else table]
    hist = None
    if rng.random() < 0.45:
        # mostly a table with a single just_once row (D49 otherwise dominates)
        tabs = [r["table"] for r in rows]
        good = [r["table"] for r in rows if tabs.count(r["table"]) == 1]
        hist = rng.choice(good) if good and rng.random() < 0.75 else rng.choice(tabs)
    jr = None
    if rng.random() < 0.5:
        r0 = rng.choice(rows)
        jr = r0["nick"] if r0["nick"] in SAFE_NICKS else r0["table"]
    extras = {k: True for k in EXTRA_KEYS if rng.random() < 0.4}
    case = {"version": version, "rows": rows, "hist": hist, "jr": jr, "n": rng.randint(1, 4),
            "zero": rng.random() < 0.5, "extras": extras}
    # aliasing: the SAME Python object in several fields of a row and in several rows
    if rng.random() < 0.4:
        spec = gen_alias_spec(rng)
        if spec["via"] == "var":
            case["var"] = rng.choice(SHARED_VALUES)
        targets = rows if rng.random() < 0.5 else [rng.choice(rows)]
        for row in targets:
            for fn in ALIAS_FIELDS[: rng.randint(2, 3)]:
                row["fields"].append([fn, dict(spec)])
    return case


ALIAS_FIELDS = ["al1", "al2", "al3"]
SHARED_VALUES = [
    {"t": "date", "v": "2024-02-29"}, {"t": "datetime", "v": "2024-01-01T10:00:00+05:00"},
    {"t": "datetime", "v": "2024-01-01T10:00:00"}, {"t": "decimal", "v": "1.10"},
    {"t": "int", "v": str(2 ** 70)}, {"t": "str", "v": "12"}, {"t": "str", "v": "multi\nline\n"},
    {"t": "float", "v": "1e22"},
]


def gen_alias_spec(rng):
    kind = rng.choice(["shared", "shared", "shared", "today", "datefn", "var"])
    if kind == "shared":
        return dict(rng.choice(SHARED_VALUES), via="shared")
    if kind == "datefn":
        return {"via": "datefn", "v": rng.choice(DATES)}
    return {"via": kind}


# ----------------------------------------------------------------------------- rendering


def render_fielddef(spec):
    via = spec["via"]
    if via == "ref" or via == "fwd":
        return "{reference: %s}" % spec["to"]
    if via == "fakedec":
        return "{fake.pydecimal: {left_digits: 2, right_digits: 2}}"
    if via == "today":
        return "${{ today }}"
    if via == "var":
        return "${{ shared_v }}"
    if via == "datefn":
        return "{date: %s}" % yq(spec["v"])
    if via == "shared":
        return "{C05Plug.shared: {t: %s, v: %s}}" % (spec["t"], yq(spec["v"]))
    t, v = spec["t"], spec["v"]
    if via == "plugin":
        if t == "null":
            return "{C05Plug.mk: {t: \"null\"}}"
        if t == "bool":
            return "{C05Plug.mk: {t: bool, v: %s}}" % ("1" if v else "0")
        return "{C05Plug.mk: {t: %s, v: %s}}" % (t, yq(v))
    if via == "formula":
        if t == "int":
            i = int(v)
            return "${{ %s }}" % (("0 - %d" % -i) if i < 0 else str(i))
        if t == "float":
            return "${{ %s }}" % v
        if t == "bool":
            return "${{ %s }}" % ("True" if v else "False")
        if t == "null":
            return "${{ None }}"
        if t == "date":
            y, m, d = v.split("-")
            return "${{ date(year=%d, month=%d, day=%d) }}" % (int(y), int(m), int(d))
        if t == "datetime":
            dt = datetime.datetime.fromisoformat(v)
            return "${{ datetime(year=%d, month=%d, day=%d, hour=%d, minute=%d, second=%d) }}" % (
                dt.year, dt.month, dt.day, dt.hour, dt.minute, dt.second)
    # literal
    if t == "str":
        return yq(v)
    if t == "int":
        return v
    if t == "float":
        return v
    if t == "bool":
        return "true" if v else "false"
    if t == "null":
        return "null"
    return v  # date / datetime


def accessor(case, i):
    """how a formula of a later template reaches just_once row i (None: not reachable by a safe name)"""
    row = case["rows"][i]
    if row["nick"] in SAFE_NICKS:
        return row["nick"]
    later_same = any(r["table"] == row["table"] for r in case["rows"][i + 1:])
    if not later_same:
        return row["table"]
    return None


def is_ident(s):
    return re.fullmatch(r"[A-Za-z_][A-Za-z_0-9]*", s) is not None


def render(case, only_just_once=False):
    lines = []
    if case["version"] == 3:
        lines.append("- snowfakery_version: 3")
    lines.append("- plugin: " + PLUGIN)
    if case.get("var"):
        lines += ["- var: shared_v", "  value: {C05Plug.mk: {t: %s, v: %s}}" % (case["var"]["t"], yq(case["var"]["v"]))]
    ex = case.get("extras") or {}
    if not only_just_once:
        lines += ["- object: T0", "  count: 2", "  fields:", "    k: 5"]
        if ex.get("kidh"):  # a hidden table that only ever appears nested in a field
            lines += ["    hk:", "      - object: __KidH", "        fields:", "          k: 1"]
    first = True
    for row in case["rows"]:
        lines.append("- object: " + row["table"])
        lines.append("  just_once: true")
        if row["nick"]:
            lines.append("  nickname: " + yq(row["nick"]))
        lines.append("  fields:")
        lines.append("    k: 5")
        for fn, spec in row["fields"]:
            lines.append("    %s: %s" % (yq(fn), render_fielddef(spec)))
        if first and ex.get("jfr"):  # a table that only ever appears as a friend of a just_once row
            lines += ["  friends:", "    - object: FrQ", "      fields:", "        k: 1"]
        first = False
    if only_just_once:
        return "\n".join(lines) + "\n"
    if ex.get("hid"):
        lines += ["- object: __Hid", "  count: 2", "  fields:", "    k: 1"]
    lines += ["- object: C", "  fields:", "    td: ${{ today }}"]
    if ex.get("kid"):  # a table that only ever appears nested in a field
        lines += ["    kid:", "      - object: KidC", "        fields:", "          k: 1"]
    for i, row in enumerate(case["rows"]):
        acc = accessor(case, i)
        if not acc:
            continue
        for j, (fn, spec) in enumerate(row["fields"]):
            if not is_ident(fn):
                continue
            if spec["via"] in ("ref", "fwd"):
                lines.append("    rf_%d_%d: ${{ %s.%s.id }}" % (i, j, acc, fn))
            else:
                lines.append("    ty_%d_%d: ${{ %s.%s.__class__.__name__ }}" % (i, j, acc, fn))
                lines.append("    ob_%d_%d: ${{ C05Plug.obs(%s.%s) }}" % (i, j, acc, fn))
    if case.get("jr"):
        lines.append("    jr: {reference: %s}" % case["jr"])
    if case.get("hist"):
        lines.append("    hr: {random_reference: %s}" % case["hist"])
        lines.append("    hk: ${{ hr.k }}")
    if ex.get("fr"):  # a table that only ever appears as a friend
        lines += ["  friends:", "    - object: FrC", "      fields:", "        k: 1"]
    return "\n".join(lines) + "\n"


# ----------------------------------------------------------------------------- canonical forms


def canon(v):
    from .c05_plugin import canon as c

    return c(v)


def snap_row(r):
    return {"table": r._tablename, "values": [[k, canon(v)] for k, v in r._values.items()]}


def snap_globals(g):
    return {
        "lastUsed": [[k, v] for k, v in g.id_manager.last_used_ids.items()],
        "startIds": [[k, v] for k, v in g.id_manager.start_ids.items()],
        "pNick": [[k, snap_row(r)] for k, r in g.persistent_nicknames.items()],
        "pTable": [[k, snap_row(r)] for k, r in g.persistent_objects_by_table.items()],
        "nickTable": [[k, v] for k, v in g.nicknames_and_tables.items()],
        "today": canon(g.today),
        "deps": [[d.table_name_from, d.table_name_to, d.field_name] for d in g.intertable_dependencies],
    }


def doc_json(d):
    """yaml.safe_load(file) in the shape of the model's document (key order = order in the file)"""
    out = []
    for k, v in d.items():
        if k in ("persistent_nicknames", "persistent_objects_by_table", "nicknamed_objects"):
            out.append([k, [[nk, [[ek, (ev if ek == "_tablename" else [[f, canon(x)] for f, x in ev.items()])]
                                  for ek, ev in row.items()]] for nk, row in v.items()]])
        elif k == "id_manager":
            out.append([k, [[k2, [[t, n] for t, n in v2.items()]] for k2, v2 in v.items()]])
        elif k == "today":
            out.append([k, canon(v)])
        elif k == "nicknames_and_tables":
            out.append([k, [[a, b] for a, b in v.items()]])
        elif k == "intertable_dependencies":
            out.append([k, [[[a, b] for a, b in dep.items()] for dep in v]])
        else:
            out.append([k, "unexpected"])
    return out


def as_dict(pairs):
    return {k: v for k, v in pairs}


# ----------------------------------------------------------------------------- driving the real code


class Captured:
    def __init__(self):
        self.pre_save = None  # snapshot of the live Globals when save_continuation_yaml is entered
        self.save_exc = None
        self.keep = None
        self.history = None


def run_real(text, continuation=None, want_continuation=True, reps=1):
    """data_generator.generate, with save_continuation_yaml and the history restore observed"""
    from snowfakery import data_generator as dg
    from snowfakery import data_generator_runtime as rt
    from snowfakery import row_history as rh

    cap = Captured()
    orig_save = dg.save_continuation_yaml
    orig_resave = rt.Interpreter.resave_objects_from_continuation
    orig_save_row = rh.RowHistory.save_row
    state = {"in": False}

    def save(globls, f):
        cap.pre_save = snap_globals(globls)
        try:
            return orig_save(globls, f)
        except BaseException as e:  # noqa
            cap.save_exc = e
            raise

    def resave(self, globls, tables):
        cap.keep = sorted(tables)
        cap.history = []
        state["in"] = True
        try:
            return orig_resave(self, globls, tables)
        finally:
            state["in"] = False

    def save_row(self, tablename, nickname, row):
        if state["in"]:
            cap.history.append([tablename, nickname, canon(row.get("id"))])
        return orig_save_row(self, tablename, nickname, row)

    dg.save_continuation_yaml = save
    rt.Interpreter.resave_objects_from_continuation = resave
    rh.RowHistory.save_row = save_row
    try:
        res = common.run_recipe(text, reps=reps, continuation=continuation, want_continuation=want_continuation)
    finally:
        dg.save_continuation_yaml = orig_save
        rt.Interpreter.resave_objects_from_continuation = orig_resave
        rh.RowHistory.save_row = orig_save_row
    return res, cap


def mapping_of(res):
    from snowfakery.generate_mapping_from_recipe import mapping_from_recipe_templates

    try:
        return json.loads(json.dumps(mapping_from_recipe_templates(res.summary), default=str))
    except Exception as e:  # noqa
        return {"error": type(e).__name__ + ": " + str(e)[:100]}


def observer_rows(res):
    return [dict(f) for t, f in res.rows if t == "C"]


def scalar_contract(rep, case, v):
    """the assumption `Lawful Y`, on one real scalar"""
    import yaml
    from snowfakery.utils.yaml_utils import SnowfakeryDumper

    try:
        back = yaml.safe_load(yaml.dump({"x": v}, Dumper=SnowfakeryDumper))["x"]
    except Exception as e:  # noqa
        rep.violation("C05:scalar-contract:" + type(v).__name__, f"dump/load of {v!r} raised {type(e).__name__}", case, canon(v), str(e)[:200])
        return
    if canon(back) != canon(v):
        rep.violation("C05:scalar-contract:" + type(v).__name__, f"dump/load of {v!r} gives {back!r}", case, canon(v), canon(back))


def compare_states(rep, case, a, b, text):
    """oracle: state b (loaded) against state a (the live Globals that was saved); dicts by key"""
    cs = {"recipe": text, **case}
    dropped = []
    if as_dict(a["lastUsed"]) != as_dict(b["lastUsed"]):
        rep.violation("C05:counter-differs", "id counters after load differ", cs, a["lastUsed"], b["lastUsed"])
    exp_start = {k: v + 1 for k, v in a["lastUsed"]}
    if as_dict(b["startIds"]) != exp_start:
        rep.violation("C05:start-ids-differ", "start_ids after load are not last_used_ids + 1", cs, exp_start, b["startIds"])
    if as_dict(a["nickTable"]) != as_dict(b["nickTable"]):
        rep.violation("C05:nick-table-differs", "nickname->table bindings differ after load", cs, a["nickTable"], b["nickTable"])
    if a["today"] != b["today"]:
        rep.violation("C05:today-differs", "today differs after load", cs, a["today"], b["today"])
    if a["deps"] != b["deps"]:
        rep.violation("C05:deps-differ", "inter-table dependencies differ after load", cs, a["deps"], b["deps"])
    for comp in ("pNick", "pTable"):
        da, db = as_dict(a[comp]), as_dict(b[comp])
        if set(da) != set(db):
            rep.violation("C05:row-missing", f"{comp}: names differ after load", cs, sorted(da), sorted(db))
        for name, ra in da.items():
            rb = db.get(name)
            if rb is None:
                continue
            if ra["table"] != rb["table"]:
                rep.violation("C05:row-table-differs", f"{comp}[{name}] table differs", cs, ra["table"], rb["table"])
            va, vb = as_dict(ra["values"]), as_dict(rb["values"])
            for f, x in va.items():
                if f not in vb:
                    if isinstance(x, dict) and x.get("t") == "ref":
                        dropped.append((comp, name, f))
                        rep.violation("C05:row-field-dropped", f"{comp}[{name}].{f} (a reference to {x['table']}({x['id']})) is missing after load", cs, x, "missing")
                    else:
                        rep.violation("C05:field-missing", f"{comp}[{name}].{f} is missing after load", cs, x, "missing")
                    continue
                y = vb[f]
                tx = x["t"] if isinstance(x, dict) else "null"
                ty = y["t"] if isinstance(y, dict) else "null"
                if tx != ty:
                    rep.violation("C05:field-type-changed", f"{comp}[{name}].{f}: {tx} became {ty}", cs, x, y)
                elif x != y:
                    rep.violation("C05:field-value-changed", f"{comp}[{name}].{f}: value changed", cs, x, y)
            for f in vb:
                if f not in va:
                    rep.violation("C05:field-appeared", f"{comp}[{name}].{f} appeared after load", cs, "missing", vb[f])
    return dropped


def run_case(rep, case, pending):
    import yaml
    from snowfakery.data_generator import load_continuation_yaml, save_continuation_yaml

    text = render(case)
    cs = {"recipe": text, **case}
    res1, cap1 = run_real(text)
    if cap1.pre_save is None:
        rep.count("run1-not-completed:" + res1.outcome.split(":")[0])
        rep.case(cs, nontrivial=False)
        return
    g1 = cap1.pre_save
    kinds = set()
    for comp in ("pNick", "pTable"):
        for _, r in g1[comp]:
            for f, x in r["values"]:
                kinds.add(x["t"] if isinstance(x, dict) else "null")
    for k in kinds:
        rep.count("value-kind:" + k)
    rep.count("version:%d" % case["version"])
    for k in (case.get("extras") or {}):
        rep.count("extra-table:" + k)
    for _, r in g1["pNick"] + g1["pTable"]:
        for f, _x in r["values"]:
            if f.startswith("__"):
                rep.count("field-name:hidden")
            elif f.startswith("_"):
                rep.count("field-name:underscore")
            elif not is_ident(f):
                rep.count("field-name:non-identifier")
    for row in case["rows"]:
        for _fn, sp in row["fields"]:
            if sp.get("via") in ("shared", "today", "var", "datefn"):
                rep.count("aliased-field:" + sp["via"])
    nt = set(as_dict(g1["nickTable"]).values())
    for t, _n in g1["lastUsed"]:
        if t not in nt:
            rep.count("counter-of-table-not-in-nicknames_and_tables")
    entry = {"case": cs, "g1": g1, "n": case["n"], "keep": [], "real": {}}
    pending.append(entry)
    real = entry["real"]
    # ---- the save
    if cap1.save_exc is not None:
        e = cap1.save_exc
        cls = "other"
        if type(e).__name__ == "RepresenterError" and len(e.args) >= 2:
            cls = type(e.args[1]).__name__
        real["save"] = {"error": [type(e).__name__, cls]}
        rep.count("save:error:" + cls)
        rep.violation("C05:save-fails:" + cls,
                      f"the run completed but writing the continuation file raised {type(e).__name__}: {str(e)[:120]}",
                      cs, "file written", f"{type(e).__name__}: {str(e)[:200]}")
        rep.case(cs, nontrivial=True)
        return
    rep.count("save:ok")
    t1 = res1.continuation
    if t1 is None:
        rep.count("run1-no-file")
        pending.pop()
        return
    try:
        parsed = yaml.safe_load(t1)
        real["save"] = {"ok": doc_json(parsed)}
    except Exception as e:  # noqa
        rep.violation("C05:load-fails", f"the written file cannot be parsed: {type(e).__name__}", cs, "parsed", str(e)[:200])
        real["save"] = {"error": ["parse", type(e).__name__]}
        return
    # ---- scalar contract on every real value
    seen = set()
    try:
        gobj = load_continuation_yaml(io.StringIO(t1))
    except Exception as e:  # noqa
        rep.violation("C05:load-fails", f"load_continuation_yaml raised {type(e).__name__}: {str(e)[:100]}", cs, "loaded", str(e)[:200])
        real["load"] = {"error": [type(e).__name__, ""]}
        return
    for d in (gobj.persistent_nicknames, gobj.persistent_objects_by_table):
        for r in d.values():
            for v in r._values.values():
                key = (type(v).__name__, repr(v))
                if key not in seen:
                    seen.add(key)
                    scalar_contract(rep, cs, v)
    # ---- load, compare with the live state
    g2 = snap_globals(gobj)
    real["load"] = {"ok": g2}
    dropped = compare_states(rep, case, g1, g2, text)
    # ---- chain of save/load steps on the file
    cur_text, cur_obj = t1, gobj
    same = True
    for step in range(case["n"]):
        out = io.StringIO()
        try:
            save_continuation_yaml(cur_obj, out)
        except Exception as e:  # noqa
            rep.violation("C05:resave-fails", f"saving a loaded state raised {type(e).__name__}", cs, "file", str(e)[:200])
            same = False
            break
        if out.getvalue() != cur_text:
            same = False
            rep.violation("C05:not-idempotent", f"load + save (step {step + 1}) does not reproduce the file", cs, cur_text[:600], out.getvalue()[:600])
            break
        cur_text = out.getvalue()
        cur_obj = load_continuation_yaml(io.StringIO(cur_text))
    real["resave_same"] = same
    real["chain"] = {"ok": snap_globals(cur_obj)}
    rep.count("chain:%d" % case["n"])
    # ---- a continued run that generates nothing writes the same file
    if case.get("zero"):
        rz, _ = run_real(render(case, only_just_once=True), continuation=t1)
        rep.count("zero-run:" + rz.outcome.split(":")[0])
        if rz.outcome != "ok":
            rep.violation("C05:zero-run-fails", f"a continued run that has nothing to generate failed: {rz.error}", cs, "ok", rz.error)
        elif rz.continuation != t1:
            rep.violation("C05:zero-run-changes-file", "a continued run that generates nothing wrote a different file", cs, t1[:600], (rz.continuation or "")[:600])
    # ---- the continued run (today doctored in the file: it must come from the file)
    doctored = re.sub(r"(?m)^today: .*$", "today: 2001-02-03", t1)
    res2, cap2 = run_real(text, continuation=doctored)
    rep.count("continued:" + res2.outcome.split(":")[0])
    entry["keep"] = cap2.keep or []
    real["history"] = cap2.history if cap2.history is not None else []
    hist_missing = []
    if cap2.history is not None:
        have = {(h[0], json.dumps(h[2])) for h in cap2.history}
        for comp in ("pNick", "pTable"):
            for name, r in g2[comp]:
                if r["table"] in (cap2.keep or []):
                    rid = as_dict(r["values"]).get("id")
                    if (r["table"], json.dumps(rid)) not in have:
                        hist_missing.append((comp, name, r["table"], rid))
        for comp, name, table, rid in hist_missing:
            rep.violation("C05:history-not-restored",
                          f"{comp}[{name}] = {table}({rid}) is not put back into the row history of the continued run",
                          cs, [table, rid], cap2.history)
    if res2.outcome != "ok":
        err = res2.error or ""
        if dropped and ("has no attribute" in err or "object has no" in err):
            sig = "C05:row-field-dropped"
        elif hist_missing and "cannot find" in err:
            sig = "C05:history-not-restored"
        elif re.search(r"cannot find (\S+): (\d+)", err):
            # a row that is in neither persistent dict (e.g. an earlier just_once row of the same table):
            # the file restores the id counters that random_reference draws from, but not the rows
            m = re.search(r"cannot find (\S+): (\d+)", err)
            persistent = {(r["table"], json.dumps(as_dict(r["values"]).get("id"))) for comp in ("pNick", "pTable") for _, r in g2[comp]}
            if (m.group(1), json.dumps({"t": "int", "v": m.group(2)})) in persistent:
                sig = "C05:continued-run-fails"
            else:
                sig = "C05:row-history-not-persisted"
        else:
            sig = "C05:continued-run-fails"
        rep.violation(sig, f"the continued run fails although the first run completed: {err[:160]}", cs, "ok", err)
    else:
        o1, o2 = observer_rows(res1), observer_rows(res2)
        if len(o1) == 1 and len(o2) == 1:
            a, b = o1[0], o2[0]
            for k in a:
                if k in ("id", "hr", "hk", "kid"):
                    continue
                if k == "td":
                    # v3: the date object; v2 renders every formula to text
                    if b.get(k) not in ({"t": "date", "v": "2001-02-03"}, {"t": "str", "v": "2001-02-03"}):
                        rep.violation("C05:today-not-from-file", "`today` of the continued run is not the file's", cs, "2001-02-03", b.get(k))
                    continue
                if a[k] != b.get(k):
                    rep.violation("C05:observer-differs", f"formula field {k} of the continued run differs from the first run", cs, a[k], b.get(k))
            if "hk" in a and b.get("hk") != a.get("hk"):
                rep.violation("C05:observer-differs", "field read through random_reference differs", cs, a.get("hk"), b.get("hk"))
        # every table that has produced rows — top-level, nested-only, friends-only — continues its ids
        last = as_dict(g1["lastUsed"])
        firsts = {}
        for t, f in res2.rows:
            rid = dict(f).get("id")
            if isinstance(rid, int) and t not in firsts:
                firsts[t] = rid
        for t, rid in firsts.items():
            if rid != last.get(t, 0) + 1:
                rep.violation("C05:ids-restart", f"the first {t} row of the continued run has id {rid}, the first run ended at {last.get(t, 0)}", cs, last.get(t, 0) + 1, rid)
        m1, m2 = mapping_of(res1), mapping_of(res2)
        if m1 != m2:
            rep.violation("C05:mapping-differs", "the CCI mapping of the continued run differs from the first run's", cs, m1, m2)
    nontrivial = len(kinds) >= 2
    rep.case(cs, nontrivial=nontrivial)


_LINEBREAKS = {"\\": "\\\\", "\x85": "\\x85", "\u2028": "\\u2028", "\u2029": "\\u2029"}


def enc(o):
    """String payloads are opaque to the model: send them through an injective escape of the characters
    that `str.splitlines` (used to read the driver's answer lines) treats as line ends."""
    if isinstance(o, dict):
        if o.get("t") == "str" and isinstance(o.get("v"), str):
            return {"t": "str", "v": "".join(_LINEBREAKS.get(ch, ch) for ch in o["v"])}
        return {k: enc(v) for k, v in o.items()}
    if isinstance(o, list):
        return [enc(x) for x in o]
    return o


def model_request(entry):
    g = enc(json.loads(json.dumps(entry["g1"])))
    # ids of referenced rows that are not ints cannot be sent to the model (never happens on completed runs)
    return {"m": "c05.cycle", "g": g, "n": entry["n"], "keep": entry["keep"]}


def flush(rep, pending):
    reqs = [model_request(e) for e in pending]
    res = common.model_batch(reqs)
    for e, (st, val) in zip(pending, res):
        real, cs = enc(e["real"]), e["case"]
        if st != "ok":
            rep.disagreement("c05.cycle:driver-error", cs, val, None)
            continue
        rep.traces_validated += 1
        msave = val["save"]
        if "error" in msave:
            if real.get("save") != {"error": msave["error"]}:
                rep.disagreement("c05.save-outcome", cs, msave, real.get("save"))
            continue
        if real.get("save") != msave:
            rep.disagreement("c05.save-doc", cs, msave, real.get("save"))
            continue
        if "load" in real and real["load"] != val["load"]:
            rep.disagreement("c05.load-state", cs, val["load"], real["load"])
        if "resave_same" in real and real["resave_same"] != val["resave_same"]:
            rep.disagreement("c05.resave-same", cs, val["resave_same"], real["resave_same"])
        if "chain" in real and real["chain"] != val["chain"]:
            rep.disagreement("c05.chain", cs, val["chain"], real["chain"])
        if "history" in real and real["history"] != val["history"]:
            rep.disagreement("c05.history", cs, val["history"], real["history"])
    pending.clear()


FIXED = [
    # every hostile string and every scalar kind at least once, both dialects
    {"version": 3, "rows": [{"table": "Q", "nick": "qq", "fields": [["f%d" % i, {"via": "plugin", "t": "str", "v": s}] for i, s in enumerate(STRS[:45])]}],
     "hist": "Q", "jr": "qq", "n": 4, "zero": True},
    {"version": 3, "rows": [{"table": "Q", "nick": "qq", "fields": [["f%d" % i, {"via": "lit", "t": "str", "v": s}] for i, s in enumerate(STRS[45:])]}],
     "hist": None, "jr": "Q", "n": 2, "zero": True},
    {"version": 2, "rows": [{"table": "Q", "nick": "qq", "fields": [["f%d" % i, {"via": "lit", "t": "str", "v": s}] for i, s in enumerate(STRS[:45])]}],
     "hist": None, "jr": None, "n": 2, "zero": False},
    {"version": 3, "rows": [
        {"table": "Q", "nick": "qq", "fields": [["f%d" % i, {"via": "plugin", "t": "int", "v": str(x)}] for i, x in enumerate(INTS)]},
        {"table": "R", "nick": None, "fields": [["f%d" % i, {"via": "plugin", "t": "float", "v": x}] for i, x in enumerate(FLOATS)]},
        {"table": "S", "nick": "yes", "fields": [["f%d" % i, {"via": "plugin", "t": "datetime", "v": x}] for i, x in enumerate(DATETIMES)]
            + [["g%d" % i, {"via": "plugin", "t": "date", "v": x}] for i, x in enumerate(DATES)]
            + [["b1", {"via": "lit", "t": "bool", "v": True}], ["b2", {"via": "formula", "t": "bool", "v": False}],
               ["n1", {"via": "lit", "t": "null", "v": None}], ["n2", {"via": "plugin", "t": "null", "v": None}]]
            + [["d%d" % i, {"via": "plugin", "t": "decimal", "v": x}] for i, x in enumerate(DECIMALS)]}],
     # R has no nickname and its row has the id (1) of the nicknamed rows of Q and S: D48 regression
     "hist": "R", "jr": "R", "n": 3, "zero": True},
]

FIXED.append(
    {"version": 3, "rows": [
        {"table": "Q", "nick": "qq", "fields": [[fn, {"via": "lit", "t": "int", "v": str(i)}] for i, fn in enumerate(UNDERSCORE_FIELDS + HOSTILE_FIELDS)]},
        {"table": "R", "nick": None, "fields": [[fn, {"via": "plugin", "t": "str", "v": "v" + fn}] for fn in UNDERSCORE_FIELDS]}],
     "hist": "R", "jr": "qq", "n": 2, "zero": True, "extras": {k: True for k in EXTRA_KEYS}})
FIXED.append(dict(FIXED[-1], version=2))

def _alias_fields(prefix, specs):
    out = []
    for i, sp in enumerate(specs):
        out += [["%s%da" % (prefix, i), dict(sp)], ["%s%db" % (prefix, i), dict(sp)]]
    return out


_ALIAS_SPECS = [dict(v, via="shared") for v in SHARED_VALUES] + [{"via": "today"}, {"via": "var"},
                                                                 {"via": "datefn", "v": "2024-02-29"}]
# every aliasing source, twice in a nicknamed row, twice in an un-nicknamed row, both dialects
FIXED.append(
    {"version": 3, "rows": [{"table": "Q", "nick": "qq", "fields": _alias_fields("a", _ALIAS_SPECS)},
                            {"table": "R", "nick": None, "fields": _alias_fields("b", _ALIAS_SPECS)}],
     "hist": None, "jr": "qq", "n": 3, "zero": True, "extras": {}, "var": {"t": "decimal", "v": "1.10"}})
FIXED.append(dict(FIXED[-1], version=2, var={"t": "datetime", "v": "2024-01-01T10:00:00+05:00"}))

# a continuation file written before cf894eb (no `!snowfakery_decimal` tag anywhere), with the legacy
# `nicknamed_objects` key and dependencies in the old list form: it must still load
LEGACY_FILE = """id_manager:
  last_used_ids:
    A: 3
    Q: 1
intertable_dependencies:
- field_name: q
  table_name_from: A
  table_name_to: Q
- [A, Q, q2]
nicknamed_objects: {}
nicknames_and_tables:
  A: A
  Q: Q
  qq: Q
persistent_nicknames:
  qq:
    _tablename: Q
    _values:
      id: 1
      price: '1.10'
      s: '12'
persistent_objects_by_table:
  Q:
    _tablename: Q
    _values:
      id: 1
      price: '1.10'
      s: '12'
today: 2024-03-01
"""
LEGACY_EXPECTED = {
    "lastUsed": [["A", 3], ["Q", 1]], "startIds": [["A", 4], ["Q", 2]],
    "pNick": [["qq", {"table": "Q", "values": [["id", {"t": "int", "v": "1"}], ["price", {"t": "str", "v": "1.10"}], ["s", {"t": "str", "v": "12"}]]}]],
    "pTable": [["Q", {"table": "Q", "values": [["id", {"t": "int", "v": "1"}], ["price", {"t": "str", "v": "1.10"}], ["s", {"t": "str", "v": "12"}]]}]],
    "nickTable": [["A", "A"], ["Q", "Q"], ["qq", "Q"]], "today": {"t": "date", "v": "2024-03-01"},
    "deps": [["A", "Q", "q"], ["A", "Q", "q2"]],
}


def legacy_file(rep):
    """old files (no Decimal tag) still load, and re-save to a file that loads to the same state"""
    from snowfakery.data_generator import load_continuation_yaml, save_continuation_yaml

    cs = {"legacy_file": LEGACY_FILE}
    try:
        g = load_continuation_yaml(io.StringIO(LEGACY_FILE))
        snap = snap_globals(g)
        out = io.StringIO()
        save_continuation_yaml(g, out)
        snap2 = snap_globals(load_continuation_yaml(io.StringIO(out.getvalue())))
    except Exception as e:  # noqa
        rep.violation("C05:legacy-file-load", f"a continuation file in the old format does not load / re-save: {type(e).__name__}: {str(e)[:120]}", cs, LEGACY_EXPECTED, str(e)[:200])
        return
    if snap != LEGACY_EXPECTED or snap2 != LEGACY_EXPECTED:
        rep.violation("C05:legacy-file-load", "a continuation file in the old format loads to a different state", cs, LEGACY_EXPECTED, snap if snap != LEGACY_EXPECTED else snap2)
    rep.count("legacy-file:checked")


def run(ctx, rep, findings):
    rep.rule = ("type-directed generator: 1-3 just_once templates (tables Q/R/S, safe / YAML-hostile / no nickname, repeated "
                "tables), 1-6 fields each over str (84 YAML-hostile strings + random), int (to 10**30), float, bool, null, "
                "date, datetime (naive / offsets / microseconds), Decimal, backward row references, forward references; "
                "ALIASING: the same Python object (date / datetime / Decimal / big int / str / float via a memoising plugin "
                "function, `today` twice, a `var`, the lru_cached `date:` function) in 2-3 fields of a row and in several rows; "
                "field NAMES incl. hidden `__x`, `_x`, id-adjacent, unicode, spaces, dots; extra tables that are nested-only "
                "(KidC, hidden __KidH), friends-only (FrC, FrQ under a just_once row), hidden top-level (__Hid); "
                "injected through recipe literals, v3 formulas and a plugin; both dialects; chain length 1-4; observer "
                "template reading every reachable field by formula, a reference and a random_reference to a just_once "
                "table. Non-trivial: the run completed and its persistent rows hold >= 2 kinds of values.")
    pending = []
    legacy_file(rep)
    for c in [f["input"] for f in findings if f.get("input")] + ctx.corpus() + FIXED:
        run_case(rep, c, pending)
    flush(rep, pending)
    n = ctx.scale(900, 9000)
    for i in range(n):
        run_case(rep, gen_case(ctx.rng), pending)
        if len(pending) >= 200:
            flush(rep, pending)
        if ctx.time_left() < 60:
            rep.notes.append("stopped early: time budget")
            break
    flush(rep, pending)


def replay(case, rep):
    pending = []
    c = {k: v for k, v in case.items() if k != "recipe"}
    run_case(rep, c, pending)
    flush(rep, pending)


def shrink(case, signature):
    """drop just_once templates and fields while the signature still reproduces"""
    c = {k: v for k, v in case.items() if k != "recipe"}

    def fails(cand):
        rep = common.Report("C05")
        try:
            run_case(rep, cand, [])
        except Exception:  # noqa
            return False
        return any(v["signature"] == signature for v in rep.violations)

    if not fails(c):
        return case
    changed = True
    while changed:
        changed = False
        for i in range(len(c["rows"])):
            if len(c["rows"]) > 1:
                cand = dict(c, rows=c["rows"][:i] + c["rows"][i + 1:])
                if cand.get("hist") not in [r["table"] for r in cand["rows"]]:
                    cand["hist"] = None
                names = [r["nick"] for r in cand["rows"]] + [r["table"] for r in cand["rows"]]
                if cand.get("jr") not in names:
                    cand["jr"] = None
                if fails(cand):
                    c, changed = cand, True
                    break
            row = c["rows"][i]
            for j in range(len(row["fields"])):
                nr = dict(row, fields=row["fields"][:j] + row["fields"][j + 1:])
                cand = dict(c, rows=c["rows"][:i] + [nr] + c["rows"][i + 1:])
                if fails(cand):
                    c, changed = cand, True
                    break
            if changed:
                break
    for k in list((c.get("extras") or {}).keys()):
        cand = dict(c, extras={a: b for a, b in c["extras"].items() if a != k})
        if fails(cand):
            c = cand
    for key, val in (("hist", None), ("jr", None), ("zero", False), ("n", 1)):
        cand = dict(c, **{key: val})
        if cand != c and fails(cand):
            c = cand
    return dict(c, recipe=render(c))
