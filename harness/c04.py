"""C04 — stop-and-continue is invisible: split runs equal one uninterrupted run.

(a) direct oracle on the real code: for ContinuationSafe recipes, the concatenated output of every
    composition of k iterations into chained runs equals the output of one run of k iterations, and a
    continuation run never fails when the uninterrupted run completes;
(b) differential: the real chain against the Lean L2 model of the same chain (which mirrors what a
    continuation file carries and what it drops)."""
from . import common, l2, recipes

SPEC = {
    "lean": ["SnowModel.Props.C04", "SnowModel.Props.C04L2", "SnowModel.Props.L1Bridge"],
    "pins": ["Runtime", "ObjectRows", "ObjectModel"],
    "technique": "Lean 4 refinement theorem on the L1 machine (for every op sequence, a save/load inserted at an iteration boundary changes no observation, no error and no later behaviour) + L2 theorems: iterations(a+b) = iterations a ; iterations b, and chain parts = one run of sum(parts) iterations for every recipe without top-level variables whose persistent rows hold plain values at every cut (decidable; implied by the syntactic condition LitOnce), with witnesses that each hypothesis is needed + pinned persisted keys + real split-vs-unsplit oracle over all compositions + L2 chain differential",
    "level_text": "Machine-checked proof that, for every operation sequence of the id/slot/registry machine, stopping after an iteration boundary and continuing from the continuation state is observationally identical to not stopping (same ids, same lookups, same errors, equivalent final state; composable, so any number of cuts), that a+b iterations of the reference interpreter equal a iterations followed by b, and that a chain of continued runs of the reference interpreter equals the uninterrupted run (state, output and status) whenever the continuation file loses nothing (no top-level variable; persistent rows hold no row/slot value at the cuts, which `saveLoad_identity` turns into `saveLoad s = s`); what the file carries (keys written and how they are read back) is pinned from the AST; the recipe-level equality on the real code is checked for every composition of k<=4 (quick) iterations on generated recipes and against the Lean chain model.",
    "level_note": "Trusted: Lean kernel, py2lean, harness. The L2-level equality through the file is proved under the decidable hypotheses NoTopVars + CleanCuts (the harness evaluates them on every generated case and reports how often they hold); outside them it is false in the model and in the code alike (witnesses chain_eq_iterations_needs_clean / _needs_noTopVars / _needs_pos): the model mirrors that ObjectRow.__getstate__ drops row-valued fields (finding D03) and that a slot value cannot be represented (finding D04). ContinuationSafe (decidable, used by the oracle): no top-level `var` (the top-level variable context lives for a whole run and is not persisted), no random or clock functions.",
    "assumptions": ["cross-iteration state is only what Snowfakery documents as persistent (ContinuationSafe)"],
    "budget": {"quick": 600, "thorough": 3000},
}


def continuation_safe(rc):
    return not any("var" in st for st in rc["statements"])


def justonce_row_fields(rc):
    """Does a just_once template store a row-valued field (reference / nested object)?"""
    for st in rc["statements"]:
        if st.get("just_once"):
            for _, fd in st.get("fields", []):
                if fd[0] in ("ref", "nested"):
                    return True
                if fd[0] == "tmpl" and rc["version"] == 3:
                    return True  # a v3 formula can evaluate to a row
    return False


def oracle_split(rep, rc, k, parts, unsplit, split, text):
    case = {"recipe": text, "parts": parts, "ast": rc, "k": k}
    if unsplit.outcome != "ok":
        return
    tag = "justonce-row-field" if justonce_row_fields(rc) else "general"
    if split.outcome != "ok":
        kind = split.outcome.split(":")[-1] if split.outcome.startswith("internal") else "recipe_error"
        if "RepresenterError" in (split.error or ""):
            what = next((w for w in ("NicknameSlot", "LazyLoadedObjectReference", "Decimal") if w in split.error), "other")
            rep.violation(f"C04:continuation-save-fails:{what}",
                          f"writing the continuation file failed ({split.error[:120]}) although the uninterrupted run completes",
                          case, "ok", split.error)
        else:
            rep.violation(f"C04:split-fails:{tag}",
                          f"the split run {parts} fails ({(split.error or '')[:160]}) although the uninterrupted run of {k} iterations completes",
                          case, "ok", split.error)
        return
    a = l2.canon_rows(unsplit.rows)
    b = l2.canon_rows(split.rows)
    if a != b:
        i = 0
        while i < min(len(a), len(b)) and a[i] == b[i]:
            i += 1
        rep.violation(f"C04:split-differs:{tag}",
                      f"split {parts} differs from the uninterrupted run at row {i}: {b[i] if i < len(b) else None} vs {a[i] if i < len(a) else None}",
                      case, a[i] if i < len(a) else None, b[i] if i < len(b) else None)


def run_case(rep, rc, k, comps, pending):
    text = recipes.recipe_yaml(rc)
    unsplit, _ = l2.run_real(rc, [k], final_continuation=False)
    safe = continuation_safe(rc)
    rep.count("unsplit:" + unsplit.outcome.split(":")[0])
    for parts in comps:
        if len(parts) == 1:
            split = unsplit
        else:
            split, _ = l2.run_real(rc, parts, final_continuation=False)
            if safe:
                oracle_split(rep, rc, k, parts, unsplit, split, text)
            else:
                rep.count("not-continuation-safe")
        pending.append(({"recipe": text, "parts": parts, "ast": rc}, split))
        nontrivial = split.outcome == "ok" and len(parts) > 1 and len(split.rows) >= 3
        rep.case({"recipe": text, "parts": parts}, nontrivial=nontrivial)
        rep.count("runs:%d" % len(parts))


def _rref_fields(recipe):
    """(table, field) pairs filled by random_reference anywhere in a RefGen recipe; and whether a just_once
    template stores a row-valued field (reference / nested object)"""
    rr, jo_row = set(), False

    def walk(t, top_jo):
        nonlocal jo_row
        for f, v in (t.get("fields") or {}).items():
            if isinstance(v, dict) and "random_reference" in v:
                rr.add((t["object"], f))
                if top_jo:
                    jo_row = True
            elif isinstance(v, dict) and "reference" in v:
                if top_jo:
                    jo_row = True
            elif isinstance(v, list):
                if top_jo:
                    jo_row = True
                for c in v:
                    walk(c, False)
        for c in t.get("friends") or []:
            walk(c, False)

    for t in recipe:
        walk(t, bool(t.get("just_once")))
    return rr, jo_row


def random_family_case(rep, recipe, k, parts, seed):
    """Recipes WITH random functions (RefGen: random_reference next to references, nesting, friends, just_once):
    the property promises equal ids, per-table row counts and the table of every reference, and that the
    continued run does not fail where the uninterrupted one completes."""
    import random as _random

    from . import l1

    text = recipes.dump(recipe)
    case = {"kind": "random", "recipe": text, "parts": parts, "k": k, "seed": seed, "struct": recipe}
    rr, jo_row = _rref_fields(recipe)
    _random.seed(seed)
    one = l1.run_chain(text, [k], trace=False, final_continuation=False)
    rep.count("random-family:unsplit:" + one.outcome.split(":")[0])
    if one.outcome != "ok":
        return
    _random.seed(seed)
    ch = l1.run_chain(text, parts, trace=False, final_continuation=False)
    tag = "justonce-row-field" if jo_row else "general"
    if ch.outcome != "ok":
        if "RepresenterError" in (ch.error or ""):
            what = next((w for w in ("NicknameSlot", "LazyLoadedObjectReference", "Decimal") if w in ch.error), "other")
            rep.violation(f"C04:continuation-save-fails:{what}", f"writing the continuation file failed ({ch.error[:120]}) although the uninterrupted run completes", case, "ok", ch.error)
        else:
            rep.violation(f"C04:split-fails:{tag}" if jo_row else "C04:split-fails:random-family",
                          f"the split run {parts} fails ({(ch.error or '')[:160]}) although the uninterrupted run of {k} iterations completes", case, "ok", ch.error)
        return

    def shape(rows):
        out = []
        for table, fields in rows:
            fs = []
            for f, v in fields:
                if isinstance(v, dict) and v.get("t") == "ref":
                    v = {"t": "ref", "table": v["table"], "id": None if (table, f) in rr else v["id"]}
                fs.append([f, v])
            out.append([table, fs])
        return out

    a = shape([r for run in one.runs for r in run.rows])
    b = shape([r for run in ch.runs for r in run.rows])
    if a != b:
        i = 0
        while i < min(len(a), len(b)) and a[i] == b[i]:
            i += 1
        rep.violation(f"C04:split-differs:{tag}" if jo_row else "C04:split-differs:random-family",
                      f"split {parts} differs from the uninterrupted run at row {i} (ids, row counts, reference tables; random_reference ids masked): {b[i] if i < len(b) else None} vs {a[i] if i < len(a) else None}",
                      case, a[i] if i < len(a) else None, b[i] if i < len(b) else None)
    rep.case({"recipe": text, "parts": parts, "random": True}, nontrivial=len(parts) > 1 and len(a) >= 3)


def cli_chain_case(rep, rc, parts):
    """The same chain through the command-line entry point, with ONE rolling continuation file that
    every continued run reads and overwrites (`--continuation-file state.yml
    --generate-continuation-file state.yml`), compared with a single CLI run of k iterations."""
    import json as _json
    import os
    import shutil
    import tempfile

    from snowfakery.cli import generate_cli

    text = recipes.recipe_yaml(rc)
    k = sum(parts)
    d = tempfile.mkdtemp(prefix="verif_c04cli_")
    case = {"kind": "cli", "recipe": text, "parts": parts, "ast": rc}

    def load_rows(path):
        # a run that emits no row (only hidden tables; everything just_once and continued) leaves the file empty
        with open(path) as f:
            t = f.read()
        return _json.loads(t) if t.strip() else []

    def run(args):
        try:
            generate_cli.main(args, standalone_mode=False)
            return None
        except BaseException as e:  # noqa
            if isinstance(e, (KeyboardInterrupt,)):
                raise
            return f"{type(e).__name__}: {str(e)[:200]}"

    try:
        rpath = os.path.join(d, "r.yml")
        with open(rpath, "w") as f:
            f.write(text)
        one = os.path.join(d, "one.json")
        err = run([rpath, "--reps", str(k), "--output-file", one])
        rep.count("cli:unsplit:" + ("ok" if err is None else "error"))
        if err is not None:
            return
        want = load_rows(one)
        got = []
        state = os.path.join(d, "state.yml")
        for i, ki in enumerate(parts):
            out = os.path.join(d, f"part{i}.json")
            args = [rpath, "--reps", str(ki), "--output-file", out, "--generate-continuation-file", state]
            if i > 0:
                args += ["--continuation-file", state]
            err = run(args)
            if err is not None:
                sig = "C04:continuation-save-fails:NicknameSlot" if "NicknameSlot" in err else \
                    ("C04:split-fails:justonce-row-field" if justonce_row_fields(rc) else "C04:cli-rolling-continuation-fails")
                rep.violation(sig, f"CLI run {i} of the chain {parts} with a rolling continuation file fails ({err}); the single run of {k} iterations completes",
                              case, "ok", err)
                return
            got += load_rows(out)
        if got != want:
            sig = "C04:split-differs:justonce-row-field" if justonce_row_fields(rc) else "C04:cli-rolling-continuation-differs"
            rep.violation(sig, f"CLI chain {parts} through one rolling continuation file differs from the single run", case,
                          want[:3], got[:3])
        rep.case({"recipe": text, "parts": parts, "cli": True}, nontrivial=len(parts) > 1 and len(want) >= 3)
    finally:
        shutil.rmtree(d, ignore_errors=True)


def flush(rep, pending):
    res = common.model_batch([{"m": "l2.run", "recipe": c["ast"], "parts": c["parts"], "final_save": False} for c, _ in pending])
    for (case, chain), m in zip(pending, res):
        r = l2.compare(rep, "l2.chain", case, chain, m)
        rep.count("compare:" + r)
        if r != "outside":
            rep.traces_validated += 1
    # the hypotheses of the L2 split theorems (Props/C04L2), evaluated by the model on the very cases run above:
    # how often they hold (non-vacuity, measured) and, where they hold, the theorem's instance on the executable model
    multi = [(c, m) for (c, _), m in zip(pending, res) if len(c["parts"]) > 1 and m[0] == "ok" and not m[1]["status"].startswith(("outside", "fuel"))]
    hyp = common.model_batch([{"m": "l2.hyp", "recipe": c["ast"], "parts": c["parts"]} for c, _ in multi])
    single = common.model_batch([{"m": "l2.run", "recipe": c["ast"], "parts": [sum(c["parts"])], "final_save": False} for c, _ in multi])
    for (case, m), h, one in zip(multi, hyp, single):
        if h[0] != "ok" or one[0] != "ok":
            rep.disagreement("l2.hyp:driver-error", case, h, one)
            continue
        hv = h[1]
        rep.count("thm:no_top_vars" if hv["no_top_vars"] else "thm:top-vars")
        if hv["lit_once"] and hv["no_top_vars"]:
            rep.count("thm:syntactic hypotheses hold (LitOnce, NoTopVars)")
        if hv["no_top_vars"] and hv["positive"] and hv["clean_cuts"]:
            rep.count("thm:chain_eq_iterations hypotheses hold")
            if (m[1]["status"], m[1]["rows"]) != (one[1]["status"], one[1]["rows"]):
                rep.disagreement("l2.hyp:theorem-instance (runChain_split) fails on the executable model", case,
                                 {"status": m[1]["status"], "n": len(m[1]["rows"])}, {"status": one[1]["status"], "n": len(one[1]["rows"])})
        else:
            rep.count("thm:hypotheses fail (%s)" % ("top-vars" if not hv["no_top_vars"] else "persistent row holds a row/slot value"))
    pending.clear()


def run(ctx, rep, findings):
    rep.rule = ("L2Gen recipes (deterministic core, both dialects) x k in 1..4 (thorough 1..5) x every composition of k "
                "(quick: all for k<=3, 3 random ones for k=4); real unsplit vs real split (oracle, ContinuationSafe "
                "recipes) and real chain vs Lean chain model. Non-trivial: completed split run with >= 2 runs, >= 3 rows.")
    pending = []
    for c in [f["input"] for f in findings if f.get("input")] + ctx.corpus():
        if c.get("kind") == "random":
            random_family_case(rep, c["struct"], c["k"], c["parts"], c["seed"])
        else:
            run_case(rep, c["ast"], sum(c["parts"]), [c["parts"]], pending)
    # what a continuation must restore: just_once rows with every kind of scalar, visible and hidden
    for i in range(ctx.scale(60, 600)):
        rc = recipes.persist_case(ctx.rng)
        k = ctx.rng.randint(2, 3)
        run_case(rep, rc, k, [c for c in recipes.all_compositions(k) if len(c) > 1], pending)
        rep.count("family:persisted-values")
    # recipes with random functions: ids, row counts, reference tables; the continued run must not fail
    for i in range(ctx.scale(150, 2000)):
        g = recipes.RefGen(ctx.rng)
        recipe = g.recipe()
        if i % 2 == 0 and "random_reference" not in g.features:
            # force the interesting shape: a table that is a random_reference target whose rows refer to other rows
            tabs = [t["object"] for t in recipe if not t["object"].startswith("__")]
            if tabs:
                recipe.append({"object": "C", "fields": {"rr": {"random_reference": ctx.rng.choice(tabs)}}})
        k = ctx.rng.randint(2, 4)
        comps = [c for c in recipes.all_compositions(k) if len(c) > 1]
        random_family_case(rep, recipe, k, ctx.rng.choice(comps), ctx.rng.randint(0, 10**6))
        rep.count("family:random-functions")
    # the command-line entry point with one rolling continuation file
    for i in range(ctx.scale(12, 150)):
        rc = recipes.persist_case(ctx.rng) if i % 2 else recipes.L2Gen(ctx.rng).recipe()
        if not continuation_safe(rc):
            continue
        k = ctx.rng.randint(2, 4)
        comps = [c for c in recipes.all_compositions(k) if len(c) > 1]
        cli_chain_case(rep, rc, ctx.rng.choice(comps))
    n = ctx.scale(220, 2500)
    kmax = 5 if ctx.tier == "thorough" else 4
    for i in range(n):
        g = recipes.L2Gen(ctx.rng)
        # continuation-relevant bias: more just_once
        rc = g.recipe()
        k = ctx.rng.randint(2, kmax)
        comps = recipes.all_compositions(k)
        if k >= 4 and ctx.tier != "thorough":
            comps = [c for c in comps if len(c) > 1]
            comps = ctx.rng.sample(comps, 3)
        run_case(rep, rc, k, comps, pending)
        if len(pending) >= 300:
            flush(rep, pending)
        if ctx.time_left() < 60:
            rep.notes.append("stopped early: time budget")
            break
    flush(rep, pending)


def replay(case, rep):
    if case.get("kind") == "random":
        random_family_case(rep, case["struct"], case["k"], case["parts"], case["seed"])
        return
    if case.get("kind") == "cli":
        cli_chain_case(rep, case["ast"], case["parts"])
        return
    pending = []
    run_case(rep, case["ast"], sum(case["parts"]), [case["parts"]], pending)
    flush(rep, pending)
