"""C17 — datasets are iterated faithfully: in order, cyclically, or exactly once.

Correspondence (model <-> code), four case kinds, each materialises a generated dataset
(CSV file: n = 0..9 records, quoted / multi-line / unicode cells, BOM, both line ends, extra
columns; or a sqlite table with text and integer columns) in a temp dir:

  iter      the iterator object built by `FileDataset._load_dataset` (mode dispatch, repeat
            default) is driven `count` times through `next()`; outcomes value/stop and the number
            of `start()` calls are compared with `DsIter.runN`.
  site      a recipe through `snowfakery.data_generator.generate` whose consuming template takes
            one record per row at a `Dataset.iterate` / `Dataset.shuffle` field (top-level, nested,
            friend, inside a for_each template, inside an update-mode recipe; one or two
            independent sites); compared with `DsIter.consume` (= `consumeAt` for every placement).
  for_each  a `for_each` template (top-level / nested / friend) — compared with
            `DsIter.forEachExecs`.
  update    update mode (`update_input_file`, passthrough fields, 1..3 iterations, raw capture
            or the real CSV output stream) — compared with `DsIter.updateRun`.

`random.shuffle` is replaced by a recording generator (the draws go to the model, which has to
reproduce the exact order: `DsIter.shuffle`); the order returned by `ORDER BY random()` is
recorded per pass and handed to the model as the oracle.

Direct oracle (model-independent): the field values of the k-th consuming row are the cells
of record k mod n of the file, column by column; every cycle of n is a permutation; for_each /
update emit exactly the n records in order with child_index 0..n-1 and stop; exhaustion of a
non-repeating or empty dataset is a recipe error after exactly the available rows.
"""
import csv
import io
import itertools
import os
import random
import shutil
import signal
import sqlite3
import tempfile
from contextlib import contextmanager
from pathlib import Path

from . import common

SPEC = {
    "lean": ["SnowModel.Props.C17", "SnowModel.Props.C17Bridge"],
    "pins": ["IterProtocol", "Datasets", "ForEach", "UpdateMode"],
    "harness": "harness.c17",
    "technique": "Lean 4 theorems about an executable model of the iterator protocol (restart on exhaustion, non-repeating, shuffled with the shuffle as oracle / Fisher-Yates with explicit draws, for_each row loop, update mode) + pins regenerated from the AST (the body of PluginResultIterator.next as a small program whose semantics is proved equal to the model) + differential correspondence on generated CSV / sqlite datasets",
    "level_text": "Machine-checked proof, for every record list, every call number, every consumer count, every shuffle oracle and every draw sequence, that the model of the dataset iterators hands out record k mod n, a permutation per cycle, exactly n for_each / update rows in order, and an error on exhaustion; the model is tied to the source by bridging lemmas over definitions regenerated from four source files on every run and by differential runs (iterator level and end-to-end recipes) with recorded shuffles.",
    "level_note": "Trusted: Lean kernel; py2lean + tools/pins/datasets.py; the harness; csv.DictReader / SQLAlchemy+sqlite returning the rows of the file / table in storage order; random.shuffle being the Fisher-Yates loop that the recorded-draw correspondence exercises. The formula layer (${{row.col}}) is outside the model: recipe-level cases use cell values that both dialects leave alone, iterator-level cases use arbitrary cells.",
    "assumptions": [
        "csv.DictReader yields the records of the file in file order (checked on every case: expected cells come from the generator, not from parsing)",
        "select(table) on sqlite returns rows in insertion order; ORDER BY random() returns every row once (recorded and checked per pass)",
        "random.shuffle(x) is `for i in reversed(range(1, len(x))): j = randbelow(i+1); swap` (exact order reproduced by the model from the recorded draws)",
    ],
    "budget": {"quick": 600, "thorough": 1500},
}


# ----------------------------------------------------------------------------- time / row limits


class CaseTimeout(BaseException):
    pass


class RowCapExceeded(BaseException):
    pass


@contextmanager
def time_limit(seconds):
    """Per-case watchdog that coexists with ./check's own SIGALRM budget."""
    try:
        old = signal.getsignal(signal.SIGALRM)
        remaining = signal.alarm(0)
    except ValueError:  # not the main thread
        yield
        return

    def handler(*_):
        raise CaseTimeout()

    signal.signal(signal.SIGALRM, handler)
    signal.setitimer(signal.ITIMER_REAL, seconds)
    try:
        yield
    finally:
        signal.setitimer(signal.ITIMER_REAL, 0)
        signal.signal(signal.SIGALRM, old)
        if remaining:
            signal.alarm(remaining)


CASE_TIMEOUT = 8


# ----------------------------------------------------------------------------- datasets

SAFE_FIRST = "acdeghijklmopqsvwxyzACDEGHIJKLMOPQSVWXYZäéßжλ日"
TAIL = list("abcxyzABC0123456789 _-.,;:!?'\"#%&()[]{}<>/\\|=+*~^@$") + ["\n", "\r\n", "\t", "ü", "é", "ß", "Ж", "日本", "🙂", "  ", '""', "{{", "}}", "${{", "%s"]
NASTY = ["", " ", "12", "007", "-3", "1.5", "1e5", "True", "None", "'q'", '"dq"', "[1]", "(1,)", "{'a': 1}", "b'x'",
         "0", "00", " 12", "12 ", "+5", ".5", "nan", "inf", "NULL", "null", "${{1+1}}", "{{x}}", "{% if %}", "a,b", '"', "''",
         "\n", "\r", "x\ny", "line1\r\nline2", "﻿bom", "tab\there", "ünï", "ZÜRICH", "日本語", "🙂🙂", "a" * 300]
HEADERS_ID = ["name", "City", "ZIP", "col_3", "Street", "number", "extra1", "Extra2", "x", "Y", "long_column_name_9"]
HEADERS_WILD = ["first name", "Ünï", "a-b", "1st", "日本", "q?", "with,comma", 'with"quote', " lead", "trail "]
# hostile header cells: embedded line breaks (LF, CRLF, lone CR), separators, quotes, blanks, a BOM character
# in the middle, an empty name, emoji — what a spreadsheet export can contain
HEADERS_HOSTILE = ["Street\nAddress", "Line\r\nBreak", "lone\rcr", "two\n\nbreaks\n", "\nleading break", "a,b,c",
                   '"quoted"', 'say ""hi""', "  two lead", "trail  ", "tab\there", "ÜNÏ code", "emoji🙂", "mid\ufeffbom", "",
                   "x\ny,\"z\"\r\n", "${{formula}}", "#hash", "semi;colon"]


def gen_cell(rng, safe):
    r = rng.random()
    if safe:
        if r < 0.08:
            return rng.choice(["12", "7", "100", "31337"])  # canonical ints: both dialects may turn them into int
        if r < 0.14:
            return rng.choice(["007", "0", "0123", "0x"])  # leading zero: stays a string in both dialects ("00" is the v3 int 0)
        if r < 0.17:
            return ""
        n = rng.choice([0, 1, 2, 3, 5, 8, 13, 40])
        return rng.choice(SAFE_FIRST) + "".join(rng.choice(TAIL) for _ in range(n))
    if r < 0.45:
        return rng.choice(NASTY)
    n = rng.choice([0, 1, 2, 3, 5, 8, 13, 40])
    return "".join(rng.choice(TAIL) for _ in range(n))


def gen_dataset(rng, safe, n=None, kind=None):
    """A dataset spec (JSON-able; everything needed to rebuild the files)."""
    kind = kind or rng.choice(["csv", "csv", "csv", "sql"])
    if n is None:
        n = rng.choice([0, 1, 1, 2, 2, 3, 3, 4, 5, 6, 7, 9])
    ncols = rng.choice([1, 2, 2, 3, 3, 4, 6])
    pool = list(HEADERS_ID)
    if not safe and kind == "csv":
        pool += HEADERS_WILD + HEADERS_HOSTILE
    rng.shuffle(pool)
    header, seen = [], set()
    for h in pool:
        if h.lower() not in seen:
            header.append(h)
            seen.add(h.lower())
        if len(header) == ncols:
            break
    dup_header = False
    if kind == "csv":
        hostile_p = 0.45
        if safe:
            # recipes address columns as `row.<identifier>`: identifier columns stay, hostile columns are
            # extra columns of the file that no formula mentions (never in position 0)
            if rng.random() < hostile_p:
                for h in rng.sample(HEADERS_HOSTILE, rng.choice([1, 1, 2, 3])):
                    header.insert(rng.randint(1, len(header)), h)
        else:
            if rng.random() < hostile_p and not any(h in HEADERS_HOSTILE for h in header):
                for h in rng.sample(HEADERS_HOSTILE, rng.choice([1, 1, 2])):
                    if h.lower() not in {x.lower() for x in header}:
                        header.insert(rng.randint(1, len(header)), h)
            if len(header) >= 2 and rng.random() < 0.12:
                # duplicate header names (exact / differing in case only): accepted by the code, the LAST such
                # column wins (csv.DictReader + CaseInsensitiveDict); never the identifying column 0
                src_h = rng.choice(header[1:])
                dup = src_h if rng.random() < 0.5 else (src_h.upper() if src_h.upper() != src_h else src_h.lower())
                header.insert(rng.randint(1, len(header)), dup)
                dup_header = True
        ncols = len(header)
    types = ["text"] * ncols
    if kind == "sql":
        types = [rng.choice(["text", "text", "int"]) for _ in range(ncols)]
        types[0] = "text"
    rows = []
    for i in range(n):
        row = []
        for c in range(ncols):
            if types[c] == "int":
                row.append(rng.choice([0, 1, -1, 42, 2**31, rng.randint(-1000, 1000)]))
            else:
                cell = gen_cell(rng, safe)
                if kind == "sql" and "\x00" in cell:
                    cell = cell.replace("\x00", "")
                row.append(cell)
        # the first column identifies the record (lets the harness map a row back to its index)
        row[0] = (rng.choice(SAFE_FIRST) if safe else "") + f"r{i}~" + str(row[0])
        rows.append(row)
    ds = {"kind": kind, "header": header, "rows": rows}
    if kind == "csv":
        ds.update(
            bom=rng.random() < 0.35,
            quote_all=rng.random() < 0.3,
            eol=rng.choice(["\r\n", "\n"]),
            final_eol=rng.random() < 0.85,
        )
        if ds["final_eol"] and rng.random() < 0.25:
            ds["trailing_blank"] = rng.choice([1, 2, 3])  # blank lines after the last record
        if dup_header:
            ds["dup_header"] = True
    else:
        ds.update(types=types, table=rng.choice(["t", "addresses", "Data_1"]), second_table=rng.random() < 0.3,
                  name_table=rng.random() < 0.5)
    return ds


def materialize(ds, folder, stem="data"):
    """Write the dataset; returns the `dataset:` reference and extra kwargs."""
    if ds["kind"] == "csv":
        path = os.path.join(folder, stem + ".csv")
        eol = ds.get("eol", "\r\n")

        def field(c, alone):
            # RFC 4180 quoting done here (csv.writer leaves a lone "\r" unquoted when the line end is "\n")
            if ds.get("quote_all") or any(ch in c for ch in ',"\r\n') or (alone and c == ""):
                return '"' + c.replace('"', '""') + '"'
            return c

        buf = io.StringIO()
        for row in [ds["header"]] + ds["rows"]:
            buf.write(",".join(field(c, len(row) == 1) for c in row) + eol)
        text = buf.getvalue()
        if not ds.get("final_eol", True) and text.endswith(ds.get("eol", "\r\n")) and ds["rows"]:
            text = text[: -len(ds.get("eol", "\r\n"))]
        elif ds.get("trailing_blank"):
            text += eol * ds["trailing_blank"]
        data = text.encode("utf-8")
        if ds.get("bom"):
            data = b"\xef\xbb\xbf" + data
        with open(path, "wb") as f:
            f.write(data)
        # the file says what the generator meant: an independent csv.reader (newline="") must read back
        # exactly the header and the records (a difference is a bug of this harness, not of Snowfakery)
        with open(path, newline="", encoding="utf-8-sig") as f:
            back = [r for r in csv.reader(f) if r]
        if back != [list(ds["header"])] + [[str(c) for c in r] for r in ds["rows"]]:
            raise AssertionError(f"harness: generated CSV does not read back as intended: {back[:2]!r}")
        return path, {}
    path = os.path.join(folder, stem + ".db")
    con = sqlite3.connect(path)
    cols = ", ".join(f'"{h}" {"INTEGER" if t == "int" else "TEXT"}' for h, t in zip(ds["header"], ds["types"]))
    con.execute(f'create table "{ds["table"]}" ({cols})')
    con.executemany(
        f'insert into "{ds["table"]}" values ({",".join("?" * len(ds["header"]))})', [tuple(r) for r in ds["rows"]]
    )
    if ds.get("second_table"):
        con.execute("create table zz_other (a TEXT)")
        con.execute("insert into zz_other values ('decoy')")
    con.commit()
    con.close()
    extra = {}
    if ds.get("second_table") or ds.get("name_table"):
        extra["table"] = ds["table"]
    return "sqlite:///" + path, extra


def records_of(ds):
    """What a record looks like as a mapping: column names that are equal up to case denote ONE key
    (csv.DictReader + CaseInsensitiveDict): the last such column gives the value and the spelling."""
    out = []
    for row in ds["rows"]:
        store = {}
        for h, v in zip(ds["header"], row):
            store[h.lower()] = (h, v)
        out.append({h: v for h, v in store.values()})
    return out


# ----------------------------------------------------------------------------- instrumentation


class _RecRandom(random.Random):
    """random.Random whose shuffle is the stdlib algorithm with every draw recorded."""

    def __init__(self, seed, log):
        super().__init__(seed)
        self.log = log

    def _randbelow(self, n):
        v = super()._randbelow(n)
        if self.log["shuffles"]:
            self.log["shuffles"][-1]["draws"].append(v)
        return v

    def shuffle(self, x):
        self.log["shuffles"].append({"n": len(x), "draws": []})
        return super().shuffle(x)


@contextmanager
def instrument(seed):
    """Record every `start()` of a dataset iterator (per object), the draws of every shuffle and
    the order of every `ORDER BY random()` pass.  Harness-side monkey-patching, restored on exit."""
    import snowfakery.standard_plugins.datasets as dsm

    log = {"starts": [], "shuffles": []}
    counter = itertools.count()
    rec = _RecRandom(seed, log)
    saved_shuffle = dsm.shuffle
    dsm.shuffle = rec.shuffle
    patched = []

    def make(orig):
        def start(self):
            before = len(log["shuffles"])
            orig(self)
            no = self.__dict__.get("_verif_no")
            if no is None:
                no = self.__dict__["_verif_no"] = next(counter)
            ent = {"it": no, "cls": type(self).__name__}
            d = self.__dict__
            ent["src"] = os.path.basename(str(d.get("path"))) if d.get("path") is not None else str(getattr(d.get("table"), "name", None))
            if len(log["shuffles"]) > before:
                ent["draws"] = log["shuffles"][-1]["draws"]
            if isinstance(self, dsm.SQLDatasetRandomPermutationIterator):
                rows = list(self.results)
                self.results = iter(rows)
                ent["order"] = [{k: r.result[k] for k in r.result} for r in rows]
            log["starts"].append(ent)

        return start

    for cls in (dsm.CSVDatasetLinearIterator, dsm.CSVDatasetRandomPermutationIterator, dsm.SQLDatasetIterator):
        if "start" in cls.__dict__:
            orig = cls.__dict__["start"]
            setattr(cls, "start", make(orig))
            patched.append((cls, orig))
    try:
        yield log
    finally:
        dsm.shuffle = saved_shuffle
        for cls, orig in patched:
            setattr(cls, "start", orig)


def passes_by_iterator(log, exclude_src="outer.csv"):
    out = {}
    for ent in log["starts"]:
        if ent.get("src") == exclude_src:
            continue
        out.setdefault(ent["it"], []).append(ent)
    return [out[k] for k in sorted(out)]


def index_of(rec_first_cell, ds):
    """index of the record whose identifying first cell is given"""
    for i, row in enumerate(ds["rows"]):
        if row[0] == rec_first_cell:
            return i
    return None


def model_source(ds, fn_mode, passes):
    """request fragment describing the source of one iterator: linear / shuffle draws / oracle orders"""
    n = len(ds["rows"])
    if fn_mode == "linear":
        return {"mode": "linear", "n": n}
    if ds["kind"] == "csv":
        return {"mode": "shuffle", "n": n, "draws": [p.get("draws", []) for p in passes]}
    first = ds["header"][0]
    orders = []
    for p in passes:
        orders.append([index_of(r.get(first), ds) for r in p.get("order", [])])
    if any(i is None for o in orders for i in o):
        return None
    return {"mode": "oracle", "n": n, "orders": orders}


# ----------------------------------------------------------------------------- recipes


def _ds_call(fn, ref, extra, repeat, indent):
    pad = " " * indent
    lines = [f"{pad}Dataset.{fn}:", f"{pad}  dataset: {ref}"]
    if "table" in extra:
        lines.append(f"{pad}  table: {extra['table']}")
    if repeat is not None:
        lines.append(f"{pad}  repeat: {'true' if repeat else 'false'}")
    return lines


def _template(name, indent, head, fields, friends=None):
    """YAML text of one object template (list item) at the given indent."""
    pad = " " * indent
    lines = [f"{pad}- object: {name}"]
    for ln in head:
        lines.append(f"{pad}  {ln}")
    lines.append(f"{pad}  fields:")
    for ln in fields:
        lines.append(f"{pad}    {ln}")
    if friends:
        lines.append(f"{pad}  friends:")
        lines += friends
    return lines


def build_site_recipe(case, ref, extra):
    fn = case["fn"]
    fields = []
    for s in range(case.get("sites", 1)):
        fields.append(f"__row{s}:")
        fields += _ds_call(fn if s == 0 else "iterate", ref, extra, case["repeat"] if s == 0 else None, 2)
        for ci, col in enumerate(case["cols"]):
            fields.append(f"s{s}c{ci}: ${{{{__row{s}.{col}}}}}")
    head = [f"count: {case['q']}"] if case["q"] != 1 or case.get("explicit_count") else []
    lines = []
    if case["dialect"] == 3:
        lines.append("- snowfakery_version: 3")
    lines.append("- plugin: snowfakery.standard_plugins.datasets.Dataset")
    ctx = case.get("context")
    if ctx:
        # the consuming site lies inside a for_each template over a second dataset with `p` records
        fe = ["for_each:", "  var: orow", "  value:", "    Dataset.iterate:", f"      dataset: {case['_outer']}"]
        if ctx == "upd":
            # update mode: the recipe is this one template; `input` is bound by --update-input-file
            lines += _template("C", 0, [], ["tag: ${{input.k}}"] + fields)
        elif ctx == "fe_self":
            lines += _template("C", 0, fe, ["tag: ${{orow.k}}"] + fields)
        elif ctx == "fe_nested":
            child = _template("C", 6, head, fields)
            lines += _template("O", 0, fe, ["tag: ${{orow.k}}", "child:"] + [ln[4:] for ln in child])
        else:
            friend = _template("C", 4, head, fields)
            lines += _template("O", 0, fe, ["tag: ${{orow.k}}"], friends=friend)
    elif case["placement"] == "top":
        lines += _template("C", 0, head, fields)
    elif case["placement"] == "nested":
        child = _template("C", 6, head, fields)
        lines += _template("P", 0, [f"count: {case['p']}"], ["tag: p", "child:"] + [ln[4:] for ln in child])
    else:
        friend = _template("C", 4, head, fields)
        lines += _template("P", 0, [f"count: {case['p']}"], ["tag: p"], friends=friend)
    return "\n".join(lines) + "\n"


def build_for_each_recipe(case, ref, extra):
    head = ["for_each:", "  var: rec", "  value:"] + _ds_call(case["fn"], ref, extra, case["repeat"], 4)
    fields = [f"c{ci}: ${{{{rec.{col}}}}}" for ci, col in enumerate(case["cols"])]
    fields.append("ci: ${{child_index}}")
    lines = []
    if case["dialect"] == 3:
        lines.append("- snowfakery_version: 3")
    lines.append("- plugin: snowfakery.standard_plugins.datasets.Dataset")
    if case["placement"] == "top":
        lines += _template("C", 0, head, fields)
    elif case["placement"] == "nested":
        child = _template("C", 6, head, fields)
        lines += _template("P", 0, [f"count: {case['p']}"], ["tag: p", "child:"] + [ln[4:] for ln in child])
    else:
        friend = _template("C", 4, head, fields)
        lines += _template("P", 0, [f"count: {case['p']}"], ["tag: p"], friends=friend)
    return "\n".join(lines) + "\n"


def build_update_recipe(case):
    lines = []
    if case["dialect"] == 3:
        lines.append("- snowfakery_version: 3")
    lines.append("- object: C")
    if case.get("update_key"):
        lines.append(f"  update_key: {case['update_key']}")
    lines.append("  fields:")
    for ci, col in enumerate(case["cols"]):
        lines.append(f"    c{ci}: ${{{{input.{col}}}}}")
    lines.append("    ci: ${{child_index}}")
    return "\n".join(lines) + "\n"


# ----------------------------------------------------------------------------- running the real code


def run_generate(recipe_text, *, reps, row_cap, folder, update_input_file=None, passthrough=()):
    """`snowfakery.data_generator.generate` with raw row capture, a row cap and a watchdog."""
    from snowfakery.api import COUNT_REPS, SnowfakeryApplication
    from snowfakery.data_generator import generate
    from snowfakery.data_generator_runtime import StoppingCriteria

    stream = common.make_capture_stream()
    inner = stream.write_row

    def capped(tablename, row):
        if len(stream.rows) >= row_cap:
            raise RowCapExceeded()
        inner(tablename, row)

    stream.write_row = capped
    app = SnowfakeryApplication(StoppingCriteria(COUNT_REPS, reps) if reps is not None else None)
    app.echo = lambda *a, **k: None
    res = common.RunResult()
    path = os.path.join(folder, "main.recipe.yml")
    with open(path, "w", encoding="utf-8") as f:
        f.write(recipe_text)
    cwd = os.getcwd()
    try:
        with time_limit(CASE_TIMEOUT):
            with open(path, encoding="utf-8") as src:
                generate(src, {}, stream, parent_application=app, update_input_file=update_input_file,
                         update_passthrough_fields=passthrough)
        res.outcome = "ok"
    except BaseException as e:  # noqa
        if isinstance(e, (KeyboardInterrupt, SystemExit)):
            raise
        if isinstance(e, (CaseTimeout, RowCapExceeded)):
            res.outcome = "does_not_stop:" + type(e).__name__
        else:
            res.outcome = common.outcome_of_exception(e)
        res.error = f"{type(e).__name__}: {str(e)[:300]}"
    finally:
        os.chdir(cwd)
    res.rows = stream.rows
    return res


def consumer_rows(res, table="C"):
    return [dict(fields) for t, fields in res.rows if t == table]


def cell_matches(cell, obs):
    """Does the captured field value carry the dataset cell?  (Formula layer: a canonical decimal
    int may arrive as an int in either dialect; everything else must be the identical string.)"""
    if isinstance(cell, int):
        # (dialect 2 renders the int 0 as the string "0")
        return obs == cell or (isinstance(obs, dict) and obs.get("t") in ("int", "str") and obs.get("v") == str(cell))
    if obs == {"t": "str", "v": cell}:
        return True
    if isinstance(obs, int) and not isinstance(obs, bool) and str(obs) == cell:
        return True
    return False


def as_int(obs):
    if isinstance(obs, int) and not isinstance(obs, bool):
        return obs
    if isinstance(obs, dict) and obs.get("t") == "str":
        try:
            return int(obs["v"])
        except ValueError:
            return None
    return None


def row_record_index(row, prefix, case):
    """index of the record a consuming row carries (via the identifying first column), or None"""
    ds = case["ds"]
    if ds["header"][0] not in case["cols"]:
        return None
    ci = case["cols"].index(ds["header"][0])
    obs = row.get(f"{prefix}{ci}")
    for i, r in enumerate(ds["rows"]):
        if cell_matches(r[0], obs):
            return i
    return None


def record_ci(ds, idx):
    """record as a dict keyed by lower-cased column name (recipes may spell columns in any case)"""
    return _CI({h.lower(): v for h, v in zip(ds["header"], ds["rows"][idx])})


class _CI(dict):
    def __getitem__(self, k):
        return dict.__getitem__(self, k.lower())


def row_matches_record(row, prefix, case, idx):
    ds = case["ds"]
    rec = record_ci(ds, idx)
    bad = []
    for ci, col in enumerate(case["cols"]):
        if not cell_matches(rec[col], row.get(f"{prefix}{ci}")):
            bad.append((col, rec[col], row.get(f"{prefix}{ci}")))
    return bad


# ----------------------------------------------------------------------------- the four case kinds


def run_iter_case(case, folder):
    from snowfakery.standard_plugins.datasets import FileDataset

    ds = case["ds"]
    ref, extra = materialize(ds, folder)
    kwargs = dict(extra, dataset=ref)
    if case["repeat"] is not None:
        kwargs["repeat"] = case["repeat"]
    outs = []
    with instrument(case["seed"]) as log:
        with time_limit(CASE_TIMEOUT):
            it = FileDataset()._load_dataset(case["mode"], Path(folder), kwargs)
            try:
                for _ in range(case["count"]):
                    try:
                        r = it.next()
                        outs.append(["value", {k: r.result[k] for k in r.result}])
                    except StopIteration:
                        outs.append(["stop"])
                    except Exception as e:  # noqa: a well-formed file must not make next() fail
                        outs.append(["exc", f"{type(e).__name__}: {str(e)[:160]}"])
                        break
            finally:
                it.close()
    return {"outs": outs, "cls": type(it).__name__, "passes": passes_by_iterator(log)}


def oracle_iter(rep, case, real):
    ds = case["ds"]
    recs = records_of(ds)
    n = len(recs)
    outs = real["outs"]
    repeat = True if case["repeat"] is None else case["repeat"]
    for k, o in enumerate(outs):
        if o[0] == "exc":
            rep.violation("C17:unexpected-error", f"next() number {k} over a well-formed dataset of {n} records raised {o[1][:100]}",
                          case, "a record" if n and (repeat or k < n) else ["stop"], o)
            return
        if n == 0 or (not repeat and k >= n):
            if o != ["stop"]:
                rep.violation("C17:exhaustion-not-error",
                              f"next() number {k} on a {'non-repeating' if not repeat else 'empty'} dataset of {n} records returned a record instead of raising",
                              case, ["stop"], o)
                return
            continue
        if o[0] != "value":
            rep.violation("C17:unexpected-stop", f"next() number {k} raised StopIteration although the dataset ({n} records) repeats / is not exhausted", case, "a record", o)
            return
        if case["mode"] == "linear":
            if o[1] != recs[k % n]:
                rep.violation("C17:iterate-wrong-record",
                              f"next() number {k} over {n} records returned something other than record {k % n}",
                              case, recs[k % n], o[1])
                return
    if case["mode"] == "shuffle" and n > 0:
        vals = [o[1] for o in outs if o[0] == "value"]
        for c in range(0, len(vals), n):
            blk = vals[c : c + n]
            rest = list(recs)
            for v in blk:
                if v in rest:
                    rest.remove(v)
                else:
                    rep.violation("C17:shuffle-cycle-not-permutation",
                                  f"cycle {c // n} of a shuffled dataset of {n} records repeats or invents a record",
                                  case, "each record exactly once per cycle", blk)
                    return


def run_site_case(case, folder):
    ds = case["ds"]
    ref, extra = materialize(ds, folder)
    if case.get("relative") and ds["kind"] == "csv":
        ref = os.path.basename(ref)
    if case.get("context"):
        outer = os.path.join(folder, "outer.csv")
        with open(outer, "w", newline="") as f:
            f.write("k\r\n" + "".join(f"o{i}\r\n" for i in range(case["p"])))
        case = dict(case, _outer=outer)
    text = build_site_recipe(case, ref, extra)
    total = case["reps"] * case["p"] * case["q"]
    with instrument(case["seed"]) as log:
        if case.get("context") == "upd":
            res = run_generate(text, reps=None, row_cap=total * 2 + 30, folder=folder, update_input_file=case["_outer"])
        else:
            res = run_generate(text, reps=case["reps"], row_cap=total * 2 + case["reps"] * case["p"] + 30, folder=folder)
    return {"outcome": res.outcome, "error": res.error, "rows": consumer_rows(res), "passes": passes_by_iterator(log),
            "recipe": text}


def site_expectation(case):
    n = len(case["ds"]["rows"])
    total = case["reps"] * case["p"] * case["q"]
    repeat = True if case["repeat"] is None else case["repeat"]
    if n == 0:
        avail = 0
    elif repeat:
        avail = total
    else:
        avail = min(total, n)
    return n, total, repeat, avail, (avail < total)


def oracle_site(rep, case, real):
    """Generic oracle; inside a for_each template / update recipe a failure that goes together with
    "one new iterator per consuming row" (seen by the instrumentation) gets the specific signature of
    D40 (repaired by a90df5d: a regression is reported under that signature)."""
    if not case.get("context"):
        return oracle_site_generic(rep, case, real)
    tmp = common.Report("C17")
    oracle_site_generic(tmp, case, real)
    if not tmp.violations:
        return
    v = tmp.violations[0]
    evaluations = len(real["rows"]) + (1 if real["outcome"] == "recipe_error" else 0)
    fresh = len(real["passes"])
    if v["signature"] in ("C17:iterate-wrong-record", "C17:exhaustion-not-error", "C17:shuffle-cycle-not-permutation",
                          "C17:consumer-row-count") and fresh >= 2 and fresh >= evaluations:
        rep.violation("C17:site-inside-for-each-restarts",
                      f"a Dataset.{case['fn']} field inside a for_each template / update recipe ({case['context']}) builds a new iterator for every "
                      f"row ({fresh} iterators for {evaluations} rows): " + v["what"], case, v["expected"], v["observed"])
    else:
        rep.violation(v["signature"], v["what"], case, v["expected"], v["observed"])


def oracle_site_generic(rep, case, real):
    n, total, repeat, avail, expect_error = site_expectation(case)
    rows = real["rows"]
    what_ds = f"{case['fn']} over {n} records ({case['ds']['kind']}), {total} consuming rows, repeat={case['repeat']}, placement={case['placement']}"
    if real["outcome"].startswith("does_not_stop"):
        rep.violation("C17:does-not-stop", f"run did not finish: {what_ds}", case, "termination", real["outcome"])
        return
    if expect_error:
        if real["outcome"] != "recipe_error":
            rep.violation("C17:exhaustion-not-error",
                          f"asking for {total} records of a dataset that can give {avail} is not a recipe error: {what_ds}",
                          case, "recipe_error", [real["outcome"], real["error"]])
            return
    elif real["outcome"] != "ok":
        rep.violation("C17:unexpected-error", f"run failed although the dataset suffices: {what_ds}", case, "ok",
                      [real["outcome"], real["error"]])
        return
    if len(rows) != avail:
        rep.violation("C17:consumer-row-count", f"{len(rows)} consuming rows were written, expected {avail}: {what_ds}",
                      case, avail, len(rows))
        return
    for s in range(case.get("sites", 1)):
        prefix = f"s{s}c"
        shuffled = case["fn"] == "shuffle" and s == 0
        if not shuffled:
            for k, row in enumerate(rows):
                bad = row_matches_record(row, prefix, case, k % n)
                if bad:
                    rep.violation("C17:iterate-wrong-record",
                                  f"consuming row {k} (site {s}) does not carry record {k % n} of {n}: column {bad[0][0]!r}",
                                  case, bad[0][1], bad[0][2])
                    return
        else:
            idxs = [row_record_index(r, prefix, case) for r in rows]
            if None in idxs:
                rep.violation("C17:iterate-wrong-record", "a consuming row of a shuffled dataset carries no record of the file", case,
                              None, rows[idxs.index(None)])
                return
            for k, (row, i) in enumerate(zip(rows, idxs)):
                bad = row_matches_record(row, prefix, case, i)
                if bad:
                    rep.violation("C17:iterate-wrong-record", f"consuming row {k}: columns of different records are mixed ({bad[0][0]!r})",
                                  case, bad[0][1], bad[0][2])
                    return
            for c in range(0, len(idxs), max(n, 1)):
                blk = idxs[c : c + n]
                if len(set(blk)) != len(blk):
                    rep.violation("C17:shuffle-cycle-not-permutation",
                                  f"cycle {c // n} of Dataset.shuffle over {n} records hands out a record twice",
                                  case, "each record exactly once per cycle", blk)
                    return


def run_for_each_case(case, folder):
    ds = case["ds"]
    ref, extra = materialize(ds, folder)
    text = build_for_each_recipe(case, ref, extra)
    n = len(ds["rows"])
    execs = case["reps"] * case["p"]
    with instrument(case["seed"]) as log:
        res = run_generate(text, reps=case["reps"], row_cap=execs * n * 2 + execs + 30, folder=folder)
    return {"outcome": res.outcome, "error": res.error, "rows": consumer_rows(res), "passes": passes_by_iterator(log),
            "recipe": text}


def oracle_rows_in_order(rep, case, rows, execs, sig, what):
    """rows must be `execs` chunks, each = the records in order (or a permutation for shuffle), ci = 0..n-1"""
    n = len(case["ds"]["rows"])
    if len(rows) != execs * n:
        rep.violation(sig, f"{what}: {len(rows)} rows for {execs} execution(s) over {n} records, expected {execs * n}",
                      case, execs * n, len(rows))
        return
    for k, row in enumerate(rows):
        j = k % n
        if as_int(row.get("ci")) != j:
            rep.violation(sig, f"{what}: row {k} has child_index {row.get('ci')!r}, expected {j}", case, j, row.get("ci"))
            return
    shuffled = case.get("fn") == "shuffle"
    for e in range(execs):
        chunk = rows[e * n : (e + 1) * n]
        if not shuffled:
            for j, row in enumerate(chunk):
                bad = row_matches_record(row, "c", case, j)
                if bad:
                    rep.violation(sig, f"{what}: row {j} of execution {e} does not carry record {j}: column {bad[0][0]!r}",
                                  case, bad[0][1], bad[0][2])
                    return
        else:
            idxs = [row_record_index(r, "c", case) for r in chunk]
            if None in idxs or len(set(idxs)) != len(idxs):
                rep.violation("C17:shuffle-cycle-not-permutation", f"{what}: execution {e} is not a permutation of the records",
                              case, "each record once", idxs)
                return
            for row, i in zip(chunk, idxs):
                bad = row_matches_record(row, "c", case, i)
                if bad:
                    rep.violation(sig, f"{what}: columns of different records are mixed ({bad[0][0]!r})", case, bad[0][1], bad[0][2])
                    return


def oracle_for_each(rep, case, real):
    execs = case["reps"] * case["p"]
    what = f"for_each over Dataset.{case['fn']} ({case['ds']['kind']}, declared repeat={case['repeat']}, placement={case['placement']})"
    if real["outcome"].startswith("does_not_stop"):
        rep.violation("C17:does-not-stop", f"{what} did not stop after the last record", case, "termination", real["outcome"])
        return
    if real["outcome"] != "ok":
        rep.violation("C17:unexpected-error", f"{what} failed", case, "ok", [real["outcome"], real["error"]])
        return
    oracle_rows_in_order(rep, case, real["rows"], execs, "C17:for-each-rows", what)


def run_update_case(case, folder):
    ds = case["ds"]
    ref, _ = materialize(ds, folder, stem="input")
    text = build_update_recipe(case)
    n = len(ds["rows"])
    iters = case["reps"] or 1
    if case.get("output") == "csv":
        return run_update_csv_output(case, folder, ref, text)
    handle = None
    with instrument(case["seed"]) as log:
        if case.get("as_path", True):
            src = ref
        else:
            src = handle = open(ref, "r", newline="", encoding="utf-8-sig")
        try:
            res = run_generate(text, reps=case["reps"], row_cap=n * 2 * iters + 30, folder=folder,
                               update_input_file=src, passthrough=tuple(case.get("passthrough", ())))
        finally:
            if handle:
                handle.close()
    rows = consumer_rows(res)
    # passthrough fields appear under their own column name: fold them into the c<i> scheme
    return {"outcome": res.outcome, "error": res.error, "rows": rows, "passes": passes_by_iterator(log), "recipe": text}


def run_update_csv_output(case, folder, ref, text):
    """update mode through `generate_data` with the real CSV output stream; rows are read back"""
    from snowfakery import generate_data

    recipe = os.path.join(folder, "update.recipe.yml")
    with open(recipe, "w", encoding="utf-8") as f:
        f.write(text)
    out = os.path.join(folder, "out")
    outcome, error = "ok", None
    from snowfakery.api import SnowfakeryApplication

    app = SnowfakeryApplication(None)
    app.echo = lambda *a, **k: None
    try:
        with time_limit(CASE_TIMEOUT):
            generate_data(recipe, update_input_file=ref, output_format="csv", output_folder=out,
                          update_passthrough_fields=tuple(case.get("passthrough", ())), parent_application=app)
    except BaseException as e:  # noqa
        if isinstance(e, (KeyboardInterrupt, SystemExit)):
            raise
        outcome = "does_not_stop:CaseTimeout" if isinstance(e, CaseTimeout) else common.outcome_of_exception(e)
        error = f"{type(e).__name__}: {str(e)[:300]}"
    rows = []
    p = os.path.join(out, "C.csv")
    if os.path.exists(p):
        with open(p, newline="") as f:
            for r in csv.DictReader(f):
                rows.append({k: ({"t": "str", "v": v}) for k, v in r.items()})
    return {"outcome": outcome, "error": error, "rows": rows, "passes": [], "recipe": text}


def oracle_update(rep, case, real):
    n = len(case["ds"]["rows"])
    what = f"update mode over {n} input records (iterations={case['reps']}, output={case.get('output', 'capture')}, update_key={case.get('update_key')})"
    if real["outcome"].startswith("does_not_stop"):
        rep.violation("C17:does-not-stop", f"{what} did not stop after the last record", case, "termination", real["outcome"])
        return
    if real["outcome"] != "ok":
        if case.get("update_key") and case.get("output") == "csv" and "_sf_update_key" in (real["error"] or ""):
            rep.violation("C17:update-key-csv-output-fails",
                          f"{what}: no row per input record is produced, the CSV output stream rejects the `_sf_update_key` column",
                          case, f"{n} rows", [real["outcome"], real["error"]])
            return
        rep.violation("C17:unexpected-error", f"{what} failed", case, "ok", [real["outcome"], real["error"]])
        return
    rows = real["rows"]
    if case.get("output") == "csv":
        # values were read back from the CSV output: everything is a string
        if len(rows) != n:
            rep.violation("C17:update-rows", f"{what}: {len(rows)} rows in C.csv, expected {n}", case, n, len(rows))
            return
        for j, row in enumerate(rows):
            rec = record_ci(case["ds"], j)
            for ci, col in enumerate(case["cols"]):
                if row.get(f"c{ci}") != {"t": "str", "v": rec[col]}:
                    rep.violation("C17:update-rows", f"{what}: row {j} column {col!r} differs from the input", case,
                                  rec[col], row.get(f"c{ci}"))
                    return
            if as_int(row.get("ci")) != j:
                rep.violation("C17:update-rows", f"{what}: row {j} has child_index {row.get('ci')}", case, j, row.get("ci"))
                return
        return
    oracle_rows_in_order(rep, case, rows, 1, "C17:update-rows", what)
    for j, row in enumerate(rows[:n]):
        rec = record_ci(case["ds"], j)
        for col in case.get("passthrough", ()):
            if not cell_matches(rec[col], row.get(col)):
                rep.violation("C17:update-rows", f"{what}: passthrough column {col!r} of row {j} differs from the input", case,
                              rec[col], row.get(col))
                return


# ----------------------------------------------------------------------------- several consumers of one file


def _site_fields(fn, ref, extra, cols, prefix="s0c", hidden="__row0"):
    fields = [f"{hidden}:"] + _ds_call(fn, ref, extra, None, 2)
    for ci, col in enumerate(cols):
        fields.append(f"{prefix}{ci}: ${{{{{hidden}.{col}}}}}")
    return fields


def _for_each_template(name, indent, fn, ref, extra, cols, var, extra_fields=(), friends=None):
    head = ["for_each:", f"  var: {var}", "  value:"] + _ds_call(fn, ref, extra, None, 4)
    fields = [f"c{ci}: ${{{{{var}.{col}}}}}" for ci, col in enumerate(cols)] + ["ci: ${{child_index}}"] + list(extra_fields)
    return _template(name, indent, head, fields, friends=friends)


def build_multi_recipe(case, ref, extra):
    lines = []
    if case["dialect"] == 3:
        lines.append("- snowfakery_version: 3")
    lines.append("- plugin: snowfakery.standard_plugins.datasets.Dataset")
    cols = case["cols"]
    shape = case["shape"]
    if shape == "parallel":
        for i, c in enumerate(case["consumers"]):
            lines += _template(f"C{i}", 0, [f"count: {c['q']}"], _site_fields(c["fn"], ref, extra, cols))
    elif shape == "site_fe":
        site = _site_fields(case["site_fn"], ref, extra, cols)
        if case["inner_place"] == "nested":
            inner = _for_each_template("F", 6, case["inner_fn"], ref, extra, cols, "rec")
            lines += _template("O", 0, [f"count: {case['p']}"], site + ["child:"] + [ln[4:] for ln in inner])
        else:
            inner = _for_each_template("F", 4, case["inner_fn"], ref, extra, cols, "rec")
            lines += _template("O", 0, [f"count: {case['p']}"], site, friends=inner)
    else:  # fe_fe
        if case["inner_place"] == "nested":
            inner = _for_each_template("F", 6, case["inner_fn"], ref, extra, cols, "rec")
            lines += _for_each_template("O", 0, case["outer_fn"], ref, extra, cols, "orec",
                                        extra_fields=["child:"] + [ln[4:] for ln in inner])
        else:
            inner = _for_each_template("F", 4, case["inner_fn"], ref, extra, cols, "rec")
            lines += _for_each_template("O", 0, case["outer_fn"], ref, extra, cols, "orec", friends=inner)
    return "\n".join(lines) + "\n"


def multi_plan(case):
    """[(table, role, fn, executions or rows, field prefix)] : what each consumer of the file has to emit"""
    n = len(case["ds"]["rows"])
    reps = case["reps"]
    if case["shape"] == "parallel":
        return [(f"C{i}", "site", c["fn"], reps * c["q"], "s0c") for i, c in enumerate(case["consumers"])]
    if case["shape"] == "shared_line":
        if case["variant"] == "flow":
            # two identical flow-style blocks on ONE source line of one template
            return [("C0", "site", case["fn"], reps * case["q"], "s0c"), ("C0", "site", case["fn"], reps * case["q"], "s1c")]
        return [(f"C{i}", "site", case["fn"], reps * c["p"] * c["q"], "s0c") for i, c in enumerate(case["consumers"])]
    if case["shape"] == "site_fe":
        return [("O", "site", case["site_fn"], reps * case["p"], "s0c"),
                ("F", "for_each", case["inner_fn"], reps * case["p"], "c")]
    return [("O", "for_each", case["outer_fn"], reps, "c"), ("F", "for_each", case["inner_fn"], reps * n, "c")]


def build_shared_line_recipe(case, ref, extra):
    """The dataset call sites of all consumers come from ONE source line: a macro included by 2-3
    templates (top-level / nested / friend; macro in the recipe or in an included file), or two
    identical flow-style function blocks written on one line.  Returns (recipe text, extra files)."""
    lines, files = [], {}
    if case["dialect"] == 3:
        lines.append("- snowfakery_version: 3")
    lines.append("- plugin: snowfakery.standard_plugins.datasets.Dataset")
    cols = case["cols"]
    fn = case["fn"]
    if case["variant"] == "flow":
        kw = f"dataset: {ref}" + (f", table: {extra['table']}" if "table" in extra else "")
        block = f"{{Dataset.{fn}: {{{kw}}}}}"
        parts = [f"__row0: {block}", f"__row1: {block}"]
        for s_ in (0, 1):
            for ci, col in enumerate(cols):
                parts.append(f's{s_}c{ci}: "${{{{__row{s_}.{col}}}}}"')
        lines += ["- object: C0", f"  count: {case['q']}", "  fields: {" + ", ".join(parts) + "}"]
        return "\n".join(lines) + "\n", files
    macro = ["- macro: dsm", "  fields:"] + ["    " + ln for ln in _site_fields(fn, ref, extra, cols)]
    if case.get("macro_in_file"):
        files["lib.recipe.yml"] = "\n".join(macro) + "\n"
        lines.append("- include_file: lib.recipe.yml")
    else:
        lines += macro
    for i, c in enumerate(case["consumers"]):
        head = [f"count: {c['q']}", "include: dsm"]
        if c["place"] == "top":
            lines += _template(f"C{i}", 0, head, ["tag: c"])
        elif c["place"] == "nested":
            child = _template(f"C{i}", 6, head, ["tag: c"])
            lines += _template(f"P{i}", 0, [f"count: {c['p']}"], ["tag: p", "child:"] + [ln[4:] for ln in child])
        else:
            friend = _template(f"C{i}", 4, head, ["tag: c"])
            lines += _template(f"P{i}", 0, [f"count: {c['p']}"], ["tag: p"], friends=friend)
    return "\n".join(lines) + "\n", files


def run_multi_case(case, folder):
    ds = case["ds"]
    ref, extra = materialize(ds, folder)
    if case["shape"] == "shared_line":
        text, files = build_shared_line_recipe(case, ref, extra)
        for name, content in files.items():
            with open(os.path.join(folder, name), "w", encoding="utf-8") as f:
                f.write(content)
    else:
        text = build_multi_recipe(case, ref, extra)
    n = len(ds["rows"])
    expected = sum(cnt * (n if role == "for_each" else 1) for _, role, _, cnt, _ in multi_plan(case))
    expected += sum(case["reps"] * c.get("p", 0) for c in case.get("consumers", []) if isinstance(c, dict))
    with instrument(case["seed"]) as log:
        res = run_generate(text, reps=case["reps"], row_cap=expected * 2 + 50, folder=folder)
    tables = {}
    for t, fields in res.rows:
        tables.setdefault(t, []).append(dict(fields))
    return {"outcome": res.outcome, "error": res.error, "tables": tables, "passes": passes_by_iterator(log), "recipe": text}


def oracle_consumer(rep, case, rows, fn, label, prefix="s0c"):
    """ONE site consumer, looked at alone: iterate -> record k mod n; shuffle -> every cycle of n of
    THIS consumer is a permutation of the file (whatever the other consumers of the file do)."""
    n = len(case["ds"]["rows"])
    if fn == "iterate":
        for k, row in enumerate(rows):
            bad = row_matches_record(row, prefix, case, k % n)
            if bad:
                rep.violation("C17:iterate-wrong-record",
                              f"{label}: its consuming row {k} does not carry record {k % n} of {n} (other consumers of the same "
                              f"file must not move its position): column {bad[0][0]!r}", case, bad[0][1], bad[0][2])
                return False
        return True
    idxs = [row_record_index(r, prefix, case) for r in rows]
    if None in idxs:
        rep.violation("C17:iterate-wrong-record", f"{label}: a consuming row carries no record of the file", case, None,
                      rows[idxs.index(None)])
        return False
    for k, (row, i) in enumerate(zip(rows, idxs)):
        bad = row_matches_record(row, prefix, case, i)
        if bad:
            rep.violation("C17:iterate-wrong-record", f"{label}: row {k} mixes columns of different records ({bad[0][0]!r})", case,
                          bad[0][1], bad[0][2])
            return False
    for c in range(0, len(idxs), n):
        blk = idxs[c : c + n]
        if len(set(blk)) != len(blk):
            rep.violation("C17:shuffle-cycle-not-permutation",
                          f"{label}: cycle {c // n} of this consumer's Dataset.shuffle over {n} records hands out a record twice "
                          f"(and skips another) while other consumers of the same file are active", case,
                          "each record exactly once per cycle of n, per consumer", blk)
            return False
    return True


def oracle_multi(rep, case, real):
    what = f"{case['shape']} consumers of one {case['ds']['kind']} file with {len(case['ds']['rows'])} records"
    if case["shape"] == "shared_line":
        what = (f"call sites parsed from one source line ({case['variant']}"
                + (", macro in an included file" if case.get("macro_in_file") else "")
                + f") over one {case['ds']['kind']} file with {len(case['ds']['rows'])} records: every consumer must iterate on its own from record 0")
    if real["outcome"].startswith("does_not_stop"):
        rep.violation("C17:does-not-stop", f"run did not finish: {what}", case, "termination", real["outcome"])
        return
    if real["outcome"] != "ok":
        rep.violation("C17:unexpected-error", f"run failed: {what}", case, "ok", [real["outcome"], real["error"]])
        return
    n = len(case["ds"]["rows"])
    for table, role, fn, cnt, prefix in multi_plan(case):
        rows = real["tables"].get(table, [])
        label = f"{what}: consumer {table}/{prefix[:2]} (Dataset.{fn}, {role})"
        if role == "site":
            if len(rows) != cnt:
                rep.violation("C17:consumer-row-count", f"{label}: {len(rows)} rows, expected {cnt}", case, cnt, len(rows))
                return
            if not oracle_consumer(rep, case, rows, fn, label, prefix):
                return
        else:
            tmp = common.Report("C17")
            oracle_rows_in_order(tmp, dict(case, fn=fn), rows, cnt, "C17:for-each-rows", label)
            if tmp.violations:
                v = tmp.violations[0]
                rep.violation(v["signature"], v["what"], case, v["expected"], v["observed"])
                return


def multi_model_requests(case, real):
    """per consumer: a consume / for_each request with the recorded shuffles of ITS iterators"""
    ds = case["ds"]
    n = len(ds["rows"])
    its = real["passes"]
    plan = multi_plan(case)
    # creation order of the iterator objects
    roles = []
    if case["shape"] in ("parallel", "shared_line"):
        roles = list(range(len(plan)))
    elif case["shape"] == "site_fe":
        roles = [0] + [1] * plan[1][3]
    else:
        for _ in range(case["reps"]):
            roles += [0] + [1] * n
    if len(its) != len(roles):
        return None, None
    reqs, codes = [], []
    for ci, (table, role, fn, cnt, prefix) in enumerate(plan):
        mine = [its[i] for i, r in enumerate(roles) if r == ci]
        rows = real["tables"].get(table, [])
        if role == "site":
            src = model_source(ds, "linear" if fn == "iterate" else "shuffle", mine[0])
            if src is None:
                return None, None
            reqs.append(dict(src, m="c17.consume", repeat=True, count=cnt))
            codes.append({"kind": "site", "rows": [row_record_index(r, prefix, case) for r in rows], "error": False,
                          "passes": len(mine[0])})
        else:
            mode = "linear" if fn == "iterate" else ("shuffle" if ds["kind"] == "csv" else "oracle")
            req = {"m": "c17.for_each", "mode": mode, "n": n, "repeat": True, "execs": cnt}
            if mode == "shuffle":
                req["draws"] = [(p[0].get("draws", []) if p else []) for p in mine]
            elif mode == "oracle":
                first = ds["header"][0]
                req["orders"] = [[index_of(r.get(first), ds) for r in (p[0].get("order", []) if p else [])] for p in mine]
            chunks = [[[row_record_index(r, "c", case), as_int(r.get("ci"))] for r in rows[e : e + n]] for e in range(0, len(rows), n)]
            reqs.append(req)
            codes.append({"kind": "for_each", "rows": chunks, "starts": [len(p) for p in mine]})
    if case["shape"] == "parallel" and len(plan) == 2:
        # the same two consumers as ONE interleaved schedule of the pair machine (`DsIter.runTwo`)
        ops = []
        for _ in range(case["reps"]):
            ops += [[True, "next"]] * case["consumers"][0]["q"] + [[False, "next"]] * case["consumers"][1]["q"]
        a = {k: v for k, v in reqs[0].items() if k in ("mode", "draws", "orders", "repeat")}
        b = {k: v for k, v in reqs[1].items() if k in ("mode", "draws", "orders", "repeat")}
        reqs.append({"m": "c17.interleave", "n": n, "a": a, "b": b, "ops": ops})
        codes.append({"kind": "interleave", "a": [["value", i] for i in codes[0]["rows"]], "b": [["value", i] for i in codes[1]["rows"]]})
    return reqs, codes


def compare_multi(rep, case, codes, answers):
    for (st, val), c in zip(answers, codes):
        if st != "ok":
            rep.disagreement("c17.multi", case, answers, codes)
            return
        if c["kind"] == "site":
            if val["rows"] != c["rows"] or val["error"] != c["error"] or val["passes"] != c["passes"]:
                rep.disagreement("c17.multi:consume", case, val, c)
                return
        elif c["kind"] == "for_each":
            if val["rows"] != c["rows"] or any(s != 1 for s in c["starts"]):
                rep.disagreement("c17.multi:for_each", case, val, c)
                return
        elif val["a"] != c["a"] or val["b"] != c["b"]:
            rep.disagreement("c17.multi:interleave", case, val, c)
            return


def gen_shared_line_case(rng):
    """several consumers whose dataset call sites are parsed from ONE source line"""
    ds = gen_dataset(rng, safe=True, n=rng.choice([2, 3, 3, 4, 4, 5, 6, 7]), kind="csv" if rng.random() < 0.8 else "sql")
    n = len(ds["rows"])
    cols = pick_cols(rng, ds)
    case = {"kind": "multi", "shape": "shared_line", "ds": ds, "dialect": rng.choice([2, 3]), "cols": cols,
            "fn": rng.choice(["iterate", "iterate", "shuffle"]), "reps": rng.choice([1, 2, 3]), "seed": rng.randrange(2**32)}

    def off_multiple():
        # row counts that are not multiples of the record count
        return rng.choice([q for q in (1, 2, n - 1, n + 1, n + 2, 2 * n - 1, 2 * n + 1) if q >= 1 and q % n != 0] or [1])

    if rng.random() < 0.3:
        case.update(variant="flow", q=off_multiple())
    else:
        k = rng.choice([2, 2, 3])
        consumers = []
        for _ in range(k):
            place = rng.choice(["top", "top", "nested", "friend"])
            consumers.append({"place": place, "p": 1 if place == "top" else rng.choice([1, 2, 3]), "q": off_multiple()})
        case.update(variant="macro", consumers=consumers, macro_in_file=rng.random() < 0.35)
    return case


def gen_multi_case(rng):
    ds = gen_dataset(rng, safe=True, n=rng.choice([1, 2, 3, 3, 4, 4, 5, 6, 7]),
                     kind="csv" if rng.random() < 0.8 else "sql")
    n = len(ds["rows"])
    cols = pick_cols(rng, ds)
    shape = rng.choice(["parallel", "parallel", "site_fe", "fe_fe"])
    fn = lambda: rng.choice(["shuffle", "shuffle", "iterate"])  # noqa: E731
    case = {"kind": "multi", "ds": ds, "dialect": rng.choice([2, 3]), "shape": shape, "cols": cols,
            "reps": rng.choice([1, 2, 3, 4]), "seed": rng.randrange(2**32)}
    if shape == "parallel":
        k = rng.choice([2, 2, 3])
        # counts that are not multiples of n, different per consumer: the cycles interleave
        case["consumers"] = [{"fn": fn(), "q": rng.choice([1, 2, max(n - 1, 1), n + 1, n + 2, 2 * n - 1 or 1, rng.randint(1, 9)])}
                             for _ in range(k)]
        case["reps"] = rng.choice([2, 3, 4, 5])
    elif shape == "site_fe":
        case.update(site_fn=fn(), inner_fn=fn(), inner_place=rng.choice(["nested", "friend"]), p=rng.choice([2, 3, n + 1, 2 * n]))
        case["reps"] = rng.choice([1, 2])
    else:
        case.update(outer_fn=fn(), inner_fn=fn(), inner_place=rng.choice(["nested", "friend"]))
        case["reps"] = rng.choice([1, 2])
    return case


# ----------------------------------------------------------------------------- model requests and comparison


def model_request(case, real):
    """(request dict | None, code-side value to compare with the model answer)"""
    ds = case["ds"]
    n = len(ds["rows"])
    kind = case["kind"]
    if kind == "iter":
        passes = real["passes"][0] if real["passes"] else []
        src = model_source(ds, case["mode"], passes)
        if src is None:
            return None, None
        repeat = True if case["repeat"] is None else case["repeat"]
        outs = []
        first = ds["header"][0]
        for o in real["outs"]:
            outs.append(["value", index_of(o[1].get(first), ds)] if o[0] == "value" else ["stop"])
        req = dict(src, m="c17.iter", repeat=repeat, count=case["count"])
        return req, {"outs": outs, "passes": len(passes)}
    if kind == "site":
        if real["outcome"] not in ("ok", "recipe_error"):
            return None, None
        reqs, codes = [], []
        total = case["reps"] * case["p"] * case["q"]
        # iterators are numbered in order of creation: site 0 first, then site 1
        its = real["passes"]
        nsites = case.get("sites", 1)
        if real["outcome"] == "recipe_error":
            nsites = 1  # the run ends inside site 0; the second site is then one value behind (not modelled)
        for s in range(nsites):
            passes = its[s] if s < len(its) else []
            mode = "shuffle" if (case["fn"] == "shuffle" and s == 0) else "linear"
            src = model_source(ds, mode, passes)
            if src is None:
                return None, None
            repeat = True if (case["repeat"] is None or s > 0) else case["repeat"]
            reqs.append(dict(src, m="c17.consume", repeat=repeat, count=total))
            idxs = [row_record_index(r, f"s{s}c", case) for r in real["rows"]]
            codes.append({"rows": idxs, "error": real["outcome"] == "recipe_error", "passes": len(passes)})
        return reqs, codes
    if kind == "for_each":
        if real["outcome"] != "ok":
            return None, None
        execs = case["reps"] * case["p"]
        mode = "linear" if case["fn"] == "iterate" else ("shuffle" if ds["kind"] == "csv" else "oracle")
        req = {"m": "c17.for_each", "mode": mode, "n": n, "repeat": True if case["repeat"] is None else case["repeat"],
               "execs": execs}
        its = real["passes"]
        if mode == "shuffle":
            req["draws"] = [(p[0].get("draws", []) if p else []) for p in its]
        elif mode == "oracle":
            first = ds["header"][0]
            req["orders"] = [[index_of(r.get(first), ds) for r in (p[0].get("order", []) if p else [])] for p in its]
        rows = real["rows"]
        chunks = []
        if n:
            for e in range(0, len(rows), n):
                chunks.append([[row_record_index(r, "c", case), as_int(r.get("ci"))] for r in rows[e : e + n]])
        else:
            chunks = [[] for _ in range(execs)] if not rows else [[["?", "?"]]]
        code = {"rows": chunks, "iterators": len(its), "starts": [len(p) for p in its]}
        return req, code
    if kind == "update":
        if real["outcome"] != "ok" or case.get("output") == "csv":
            return None, None
        iters = case["reps"] or 1
        req = {"m": "c17.update", "n": n, "iters": iters}
        rows = [[row_record_index(r, "c", case), as_int(r.get("ci"))] for r in real["rows"]]
        return req, {"rows": rows, "iterators": len(real["passes"]), "starts": [len(p) for p in real["passes"]]}
    return None, None


def compare_with_model(rep, case, req, code, answers):
    kind = case["kind"]
    for st, _ in answers:
        if st != "ok":
            rep.disagreement("c17." + kind, case, answers, code)
            return
    if kind == "iter":
        val = answers[0][1]
        ds = case["ds"]
        if ds.get("blank_records"):
            # all-empty records are indistinguishable: both sides name such a record by the first one
            # (the code side is already mapped through index_of of the first cell)
            val = dict(val, outs=[["value", index_of(ds["rows"][o[1]][0], ds)]
                                  if o[0] == "value" and isinstance(o[1], int) and 0 <= o[1] < len(ds["rows"]) else o
                                  for o in val["outs"]])
        if val["outs"] != code["outs"] or val["passes"] != code["passes"]:
            rep.disagreement("c17.iter", case, val, code)
    elif kind == "site":
        for (st, val), c in zip(answers, code):
            if val["rows"] != c["rows"] or val["error"] != c["error"] or val["passes"] != c["passes"]:
                rep.disagreement("c17.consume", case, val, c)
                return
    elif kind == "for_each":
        val = answers[0][1]
        execs = case["reps"] * case["p"]
        # every execution builds a new iterator that is started exactly once
        if val["rows"] != code["rows"] or code["iterators"] != execs or any(s != 1 for s in code["starts"]):
            rep.disagreement("c17.for_each", case, val, code)
    elif kind == "update":
        val = answers[0][1]
        flat = [r for it in (val["rows"] or []) for r in it]
        # one iterator for the whole run, started once (by its constructor)
        if val["rows"] is None or flat != code["rows"] or code["iterators"] != 1 or code["starts"] != [1]:
            rep.disagreement("c17.update", case, val, code)


RUNNERS = {"multi": (run_multi_case, oracle_multi), "iter": (run_iter_case, oracle_iter), "site": (run_site_case, oracle_site),
           "for_each": (run_for_each_case, oracle_for_each), "update": (run_update_case, oracle_update)}


def check_cases(cases, rep, with_model=True):
    pending = []
    for case in cases:
        kind = case.get("kind")
        if kind not in RUNNERS:
            continue
        runner, oracle = RUNNERS[kind]
        folder = tempfile.mkdtemp(prefix="verif_c17_")
        try:
            try:
                real = runner(case, folder)
            except CaseTimeout:
                rep.violation("C17:does-not-stop", f"{kind} case did not finish within {CASE_TIMEOUT}s", case, "termination", "timeout")
                rep.case(case, nontrivial=False)
                continue
        finally:
            shutil.rmtree(folder, ignore_errors=True)
        nviol = len(rep.violations)
        oracle(rep, case, real)
        n = len(case["ds"]["rows"])
        rep.case(case, nontrivial=n >= 1)
        rep.count(f"kind:{kind}")
        rep.count(f"n:{n if n < 8 else '8+'}")
        rep.count(f"dataset:{case['ds']['kind']}")
        if case["ds"].get("bom"):
            rep.count("csv:bom")
        if case["ds"].get("quote_all"):
            rep.count("csv:quote_all")
        hdr = case["ds"]["header"]
        if any("\n" in h or "\r" in h for h in hdr):
            rep.count("csv:header-with-line-break")
        if any(h in HEADERS_HOSTILE for h in hdr):
            rep.count("csv:hostile-header-cell")
        if case["ds"].get("dup_header"):
            rep.count("csv:duplicate-header-name")
        if "" in hdr:
            rep.count("csv:empty-header-name")
        if case["ds"].get("trailing_blank"):
            rep.count("csv:blank-lines-at-end")
        if case["ds"].get("final_eol") is False:
            rep.count("csv:no-final-newline")
        if case["ds"].get("eol") == "\r\n":
            rep.count("csv:crlf")
        if any(isinstance(c, str) and ("\n" in c or "\r" in c) for r in case["ds"]["rows"] for c in r):
            rep.count("csv/sql:multiline-cell")
        if any(isinstance(c, str) and any(ord(ch) > 127 for ch in c) for r in case["ds"]["rows"] for c in r):
            rep.count("cells:non-ascii")
        if kind == "iter":
            rep.count(f"iter:{case['mode']}:repeat={case['repeat']}")
            if n and case["count"] % n == 0:
                rep.count("count-multiple-of-n")
            for o in real["outs"]:
                rep.count("iter:out:" + o[0])
        elif kind == "site":
            rep.count(f"site:{case['fn']}:{case['placement']}:repeat={case['repeat']}")
            rep.count(f"site:outcome:{real['outcome']}")
            total = case["reps"] * case["p"] * case["q"]
            if n and total % n == 0:
                rep.count("count-multiple-of-n")
            if case.get("sites", 1) > 1:
                rep.count("site:two-sites")
        elif kind == "for_each":
            rep.count(f"for_each:{case['fn']}:{case['placement']}:repeat={case['repeat']}")
        elif kind == "multi":
            if case["shape"] == "shared_line":
                places = "+".join(c["place"] for c in case.get("consumers", [])) or "two-blocks"
                rep.count(f"multi:shared_line:{case['variant']}{':file' if case.get('macro_in_file') else ''}:{case['fn']}:{places}")
            else:
                fns = [c["fn"] for c in case.get("consumers", [])] or [case.get("site_fn") or case.get("outer_fn"), case.get("inner_fn")]
                rep.count(f"multi:{case['shape']}:{'+'.join(sorted(fns))}")
        elif kind == "update":
            rep.count(f"update:output={case.get('output', 'capture')}:reps={case['reps']}")
        if len(rep.violations) > nviol or not with_model:
            continue  # the oracle already explains this case
        if kind == "multi":
            req, code = multi_model_requests(case, real)
        else:
            req, code = model_request(case, real)
        if req is None:
            rep.count("model:not-compared")
            continue
        pending.append((case, req if isinstance(req, list) else [req], code))
    flat = [r for _, reqs, _ in pending for r in reqs]
    answers = common.model_batch(flat)
    pos = 0
    for case, reqs, code in pending:
        ans = answers[pos : pos + len(reqs)]
        pos += len(reqs)
        rep.traces_validated += 1
        if case["kind"] == "multi":
            compare_multi(rep, case, code, ans)
        else:
            compare_with_model(rep, case, reqs, code, ans)


# ----------------------------------------------------------------------------- generation


def pick_cols(rng, ds):
    # only columns a formula can name (`row.<identifier>`); hostile header cells are extra columns of the file
    h = [ds["header"][0]] + [x for x in ds["header"][1:] if x.isascii() and x.isidentifier()]
    k = rng.randint(1, len(h))
    cols = [h[0]] + rng.sample(h[1:], k - 1)
    # recipes may spell a column in another case (CaseInsensitiveDict)
    return cols


def respell(rng, col):
    r = rng.random()
    if r < 0.15:
        return col.upper()
    if r < 0.3:
        return col.lower()
    return col


def gen_count(rng, n):
    """consumer counts biased to 0, 1, n-1, n, n+1, multiples of n"""
    base = max(n, 1)
    return rng.choice([1, 2, base - 1 or 1, base, base + 1, 2 * base, 2 * base + 1, 3 * base, 3 * base + 1, 4 * base + 1,
                       5 * base + 2, rng.randint(1, 25)])


def gen_iter_case(rng):
    ds = gen_dataset(rng, safe=False)
    n = len(ds["rows"])
    if n and rng.random() < 0.2:
        # records whose every column is empty (a line of separators only / a lone `""`): genuine records, not
        # padding; the iterator-object oracle compares by position, so no identifying first cell is needed
        for i in rng.sample(range(n), rng.choice([1, 1, 2, n]) if n > 1 else 1):
            ds["rows"][i] = ["" if isinstance(c, str) else c for c in ds["rows"][i]]
        ds["blank_records"] = True
    return {"kind": "iter", "ds": ds, "mode": rng.choice(["linear", "linear", "shuffle"]),
            "repeat": rng.choice([None, None, True, False]), "count": rng.choice([0, gen_count(rng, n), gen_count(rng, n) + 1, 3 * n + 2]),
            "seed": rng.randrange(2**32)}


def gen_site_case(rng):
    ds = gen_dataset(rng, safe=True)
    n = len(ds["rows"])
    placement = rng.choice(["top", "top", "nested", "friend"])
    total = gen_count(rng, n)
    reps = rng.choice([1, 1, 2, 3])
    p = 1 if placement == "top" else rng.choice([1, 2, 3])
    q = max(1, total // (reps * p)) if rng.random() < 0.7 else rng.choice([1, 2, 3, n or 1])
    cols = pick_cols(rng, ds)
    case = {"kind": "site", "ds": ds, "dialect": rng.choice([2, 3]), "fn": rng.choice(["iterate", "iterate", "shuffle"]),
            "repeat": rng.choice([None, None, None, True, False, False]), "placement": placement, "p": p, "q": q,
            "reps": reps, "cols": cols, "sites": 2 if rng.random() < 0.2 else 1,
            "relative": rng.random() < 0.25, "seed": rng.randrange(2**32)}
    case["cols"] = [cols[0]] + [respell(rng, c) for c in cols[1:]]
    if rng.random() < 0.2:
        # the consuming site inside a for_each template / an update-mode recipe (own field / nested template / friend)
        ctx = rng.choice(["fe_self", "fe_nested", "fe_friend", "upd"])
        case.update(context=ctx, placement=ctx, sites=1, relative=False, p=rng.choice([1, 2, 3, n or 2, (n or 1) + 1]))
        if ctx == "upd":
            case.update(q=1, reps=1)
        elif ctx == "fe_self":
            case["q"] = 1
        else:
            case["q"] = rng.choice([1, 1, 2, 3])
    return case


def gen_for_each_case(rng):
    ds = gen_dataset(rng, safe=True)
    placement = rng.choice(["top", "top", "nested", "friend"])
    cols = pick_cols(rng, ds)
    return {"kind": "for_each", "ds": ds, "dialect": rng.choice([2, 3]), "fn": rng.choice(["iterate", "iterate", "shuffle"]),
            "repeat": rng.choice([None, None, True, False]), "placement": placement,
            "p": 1 if placement == "top" else rng.choice([1, 2, 3]), "reps": rng.choice([1, 1, 2, 3]),
            "cols": [cols[0]] + [respell(rng, c) for c in cols[1:]], "seed": rng.randrange(2**32)}


def gen_update_case(rng):
    ds = gen_dataset(rng, safe=True, kind="csv")
    cols = pick_cols(rng, ds)
    out = "csv" if rng.random() < 0.25 else "capture"
    if out == "csv":
        # the CSV output stream is C08's subject; keep its encoding out of the way
        for row in ds["rows"]:
            for i, c in enumerate(row):
                row[i] = c.encode("ascii", "replace").decode().replace("\r", " ")
    others = [h for h in ds["header"] if h not in cols and h.isascii() and h.isidentifier()]
    return {"kind": "update", "ds": ds, "dialect": rng.choice([2, 3]), "reps": rng.choice([None, None, 1, 2, 3]) if out == "capture" else None,
            "cols": cols, "passthrough": rng.sample(others, rng.randint(0, len(others))) if out == "capture" else [],
            "as_path": rng.random() < 0.6, "output": out, "update_key": None, "seed": rng.randrange(2**32)}


def fixed_cases():
    """boundary grid: n = 0..4 x counts around multiples x repeat flags (CSV, linear), and small for_each / update"""
    out = []
    for n in range(0, 5):
        ds = {"kind": "csv", "header": ["name", "City"], "rows": [[f"ar{i}~x", f"c{i}, \"q\"\nü"] for i in range(n)],
              "bom": n % 2 == 0, "quote_all": False, "eol": "\r\n", "final_eol": True}
        for repeat in (None, False):
            for count in sorted({0, 1, max(n - 1, 0), n, n + 1, 2 * n, 2 * n + 1, 3 * n}):
                out.append({"kind": "iter", "ds": ds, "mode": "linear", "repeat": repeat, "count": count, "seed": 1})
            for total in sorted({1, n or 1, n + 1, 2 * n or 2}):
                out.append({"kind": "site", "ds": ds, "dialect": 2 + n % 2, "fn": "iterate", "repeat": repeat, "placement": "top",
                            "p": 1, "q": total, "reps": 1, "cols": ["name", "city"], "sites": 1, "relative": False, "seed": 1})
        if n >= 2:
            # all-empty records in the middle and at the end of the file are records like any other
            dsb = dict(ds, rows=[r if i % 2 == 0 else ["", ""] for i, r in enumerate(ds["rows"])], blank_records=True)
            for mode in ("linear", "shuffle"):
                out.append({"kind": "iter", "ds": dsb, "mode": mode, "repeat": None, "count": 2 * n + 1, "seed": 1})
            out.append({"kind": "iter", "ds": dsb, "mode": "linear", "repeat": False, "count": n + 1, "seed": 1})
        out.append({"kind": "for_each", "ds": ds, "dialect": 3, "fn": "iterate", "repeat": None, "placement": "top", "p": 1,
                    "reps": 2, "cols": ["name", "City"], "seed": 1})
        out.append({"kind": "for_each", "ds": ds, "dialect": 2, "fn": "shuffle", "repeat": True, "placement": "nested", "p": 2,
                    "reps": 1, "cols": ["name"], "seed": 2})
        out.append({"kind": "update", "ds": ds, "dialect": 3, "reps": 2, "cols": ["name"], "passthrough": ["City"],
                    "as_path": n % 2 == 0, "output": "capture", "update_key": None, "seed": 1})
    return out


def run(ctx, rep, findings):
    rep.rule = (
        "Generated datasets: CSV (n in 0..9, 1-6 columns, minimal/full quoting, BOM, CRLF/LF, multi-line and non-ASCII cells, "
        "missing final newline, records whose every column is empty) and sqlite tables (text + integer columns, optional decoy table). Kinds: iter (iterator object, "
        "count calls, arbitrary cells incl. literals that the formula layer would reinterpret), site (recipe: Dataset.iterate/"
        "shuffle field in a top-level / nested / friend template, one or two sites, 1-3 iterations, counts biased to n-1, n, n+1, "
        "multiples of n), for_each (top / nested / friend, declared repeat any), update (1-3 iterations, passthrough fields, path "
        "or open file, raw capture or real CSV output). Non-trivial: dataset with >= 1 record. Distinct = distinct case hash."
    )
    cases = [f["input"] for f in findings if f.get("input")]
    known = {f["signature"] for f in findings if f.get("status") == "finding"}
    cases += ctx.corpus()
    cases += fixed_cases()
    rng = ctx.rng
    first = cases
    cases = []
    for _ in range(ctx.scale(1000, 12000)):
        cases.append(gen_iter_case(rng))
    for _ in range(ctx.scale(900, 9000)):
        cases.append(gen_site_case(rng))
    for _ in range(ctx.scale(500, 5000)):
        cases.append(gen_for_each_case(rng))
    for _ in range(ctx.scale(300, 3000)):
        cases.append(gen_update_case(rng))
    for _ in range(ctx.scale(260, 2600)):
        cases.append(gen_multi_case(rng))
    for _ in range(ctx.scale(160, 1600)):
        cases.append(gen_shared_line_case(rng))
    # D16 family (repaired by bc0f717): update_key + CSV output stays generated as a regression stream
    for _ in range(ctx.scale(3, 20)):
        c = gen_update_case(rng)
        for row in c["ds"]["rows"]:
            for i, cell in enumerate(row):
                row[i] = cell.encode("ascii", "replace").decode().replace("\r", " ")
        c.update(output="csv", reps=None, passthrough=[], update_key=c["cols"][0])
        cases.append(c)
    rng.shuffle(cases)  # all kinds from the start (an early stop then still saw every kind)
    cases = first + cases
    for i in range(0, len(cases), 200):
        check_cases(cases[i : i + 200], rep)
        unlisted = [v for v in rep.violations if v["signature"] not in known]
        if len(unlisted) + len(rep.disagreements) > 150:
            rep.notes.append(f"stopped early after {i + 200} cases: more than 150 failing cases collected")
            break
        if ctx.time_left() < 60:
            rep.notes.append(f"stopped early after {i + 200} cases: time budget")
            break


# ----------------------------------------------------------------------------- shrink / replay


def _still_fails(case, signature):
    r = common.Report("C17")
    try:
        check_cases([case], r, with_model=False)
    except Exception:  # noqa
        return False
    return any(v["signature"] == signature for v in r.violations)


def shrink(case, signature):
    """Greedy: fewer records, fewer columns, smaller counts, plainer file options."""
    import copy

    best = case
    for _ in range(40):
        cands = []
        ds = best["ds"]
        for i in range(len(ds["rows"])):
            c = copy.deepcopy(best)
            del c["ds"]["rows"][i]
            cands.append(c)
        for key, lo in (("count", 0), ("q", 1), ("p", 1), ("reps", 1)):
            if isinstance(best.get(key), int) and best[key] > lo:
                for v in (lo, best[key] // 2, best[key] - 1):
                    if lo <= v < best[key]:
                        c = copy.deepcopy(best)
                        c[key] = v
                        cands.append(c)
        for key, plain in (("bom", False), ("quote_all", False), ("final_eol", True), ("second_table", False)):
            if key in ds and ds[key] != plain:
                c = copy.deepcopy(best)
                c["ds"][key] = plain
                cands.append(c)
        if best.get("sites", 1) > 1:
            c = copy.deepcopy(best)
            c["sites"] = 1
            cands.append(c)
        for i, cons in enumerate(best.get("consumers", [])):
            if len(best["consumers"]) > 2:
                c = copy.deepcopy(best)
                del c["consumers"][i]
                cands.append(c)
            if cons["q"] > 1:
                c = copy.deepcopy(best)
                c["consumers"][i]["q"] = cons["q"] - 1
                cands.append(c)
        if len(best.get("cols", [])) > 1:
            c = copy.deepcopy(best)
            c["cols"] = c["cols"][:1]
            cands.append(c)
        if best.get("passthrough"):
            c = copy.deepcopy(best)
            c["passthrough"] = []
            cands.append(c)
        for c in cands:
            if _still_fails(c, signature):
                best = c
                break
        else:
            break
    return best


def replay(case, rep):
    check_cases([case], rep)
