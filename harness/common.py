"""Shared machinery of the correspondence harness (runs under /venv/bin/python, imports /repo)."""
import hashlib
import io
import json
import os
import random
import subprocess
import sys
import time
import warnings
from contextlib import contextmanager

ROOT = os.path.dirname(os.path.dirname(os.path.abspath(__file__)))
LEAN_DIR = os.path.join(ROOT, "lean")
DRIVER = os.environ.get("VERIF_DRIVER") or os.path.join(LEAN_DIR, ".lake", "build", "bin", "snowdriver")
REPO = os.environ.get("VERIF_REPO", "/repo")

warnings.filterwarnings("ignore")


# ----------------------------------------------------------------------------- model driver


class DriverError(Exception):
    pass


def model_batch(requests, timeout=600):
    """Send a list of request dicts to the Lean driver; return list of ('ok', value) / ('err', msg)."""
    if not requests:
        return []
    if not os.path.exists(DRIVER):
        raise DriverError(f"model driver not built: {DRIVER}")
    data = "\n".join(json.dumps(r, separators=(",", ":")) for r in requests) + "\n"
    p = subprocess.run(
        [DRIVER], input=data.encode(), stdout=subprocess.PIPE, stderr=subprocess.PIPE, timeout=timeout
    )
    if p.returncode != 0:
        raise DriverError(f"driver exit {p.returncode}: {p.stderr.decode()[-2000:]}")
    lines = p.stdout.decode().splitlines()
    if len(lines) != len(requests):
        raise DriverError(f"driver answered {len(lines)} lines for {len(requests)} requests")
    out = []
    for line in lines:
        j = json.loads(line)
        if "ok" in j:
            out.append(("ok", j["ok"]))
        else:
            out.append(("err", j.get("err")))
    return out


# ----------------------------------------------------------------------------- reports


class Report:
    """What one property's harness run found."""

    def __init__(self, prop):
        self.prop = prop
        self.violations = []  # [{signature, what, case, expected, observed}]  oracle failures on the code
        self.disagreements = []  # [{what, case, model, code}]  model != code, oracle passes
        self.evaluations = 0
        self.nontrivial = set()  # hashes of distinct non-trivial cases
        self.samples = []
        self.histogram = {}
        self.traces_validated = 0
        self.notes = []
        self.rule = ""
        self.extra = {}

    def count(self, key, n=1):
        self.histogram[key] = self.histogram.get(key, 0) + n

    def case(self, case, nontrivial=True):
        self.evaluations += 1
        if nontrivial:
            self.nontrivial.add(case_hash(case))
        if len(self.samples) < 5 and nontrivial:
            self.samples.append(case)

    def violation(self, signature, what, case, expected=None, observed=None):
        self.violations.append(
            {"signature": signature, "what": what, "case": case, "expected": expected, "observed": observed}
        )

    def disagreement(self, what, case, model, code):
        self.disagreements.append({"what": what, "case": case, "model": model, "code": code})


def case_hash(case):
    return hashlib.sha1(json.dumps(case, sort_keys=True, default=str).encode()).hexdigest()[:16]


class Ctx:
    """Run context handed to a property harness."""

    def __init__(self, prop, tier, seed, search=False, deadline=None):
        self.prop = prop
        self.tier = tier
        self.seed = seed
        self.search = search  # a proof / pin / correspondence broke: spend more on the direct oracle
        self.rng = random.Random(f"{prop}:{seed}")
        self.deadline = deadline
        self.corpus_dir = os.path.join(ROOT, "corpus", prop)

    def scale(self, quick, thorough, search_factor=4):
        n = thorough if self.tier == "thorough" else quick
        if self.search:
            n *= search_factor
        return n

    def time_left(self):
        return (self.deadline - time.time()) if self.deadline else 1e9

    def corpus(self):
        """Minimised past failures / hand-picked cases that always run first."""
        out = []
        if os.path.isdir(self.corpus_dir):
            for fn in sorted(os.listdir(self.corpus_dir)):
                if fn.endswith(".json"):
                    with open(os.path.join(self.corpus_dir, fn)) as f:
                        out.append(json.load(f))
        return out


# ----------------------------------------------------------------------------- controlled randomness


@contextmanager
def patched_randint(module, values):
    """Make `<module>.randint` / `<module>.random.randint` return the given values in order."""
    it = iter(values)

    def fake(a, b):
        v = next(it)
        return v

    import random as _r

    targets = []
    if hasattr(module, "randint"):
        targets.append((module, "randint"))
    if hasattr(module, "random") and module.random is _r:
        targets.append((_r, "randint"))
    saved = [(o, n, getattr(o, n)) for o, n in targets]
    try:
        for o, n in targets:
            setattr(o, n, fake)
        yield
    finally:
        for o, n, v in saved:
            setattr(o, n, v)


# ----------------------------------------------------------------------------- running Snowfakery


def outcome_of_exception(e):
    """Map an exception to the canonical outcome class."""
    from snowfakery import data_gen_exceptions as exc

    if isinstance(e, exc.DataGenError):
        return "recipe_error"
    import yaml

    if isinstance(e, yaml.YAMLError):
        return "recipe_error"
    return "internal:" + type(e).__name__


def canon_value(v):
    """Canonical, JSON-able, typed representation of a captured field value."""
    import datetime
    import decimal
    from snowfakery.object_rows import ObjectRow, ObjectReference, NicknameSlot

    if v is None:
        return None
    if isinstance(v, bool):
        return {"t": "bool", "v": v}
    if isinstance(v, int):
        return v  # Python ints are exact through JSON in both directions
    if isinstance(v, float):
        return {"t": "float", "v": repr(v)}
    if isinstance(v, str):
        return {"t": "str", "v": v}
    if isinstance(v, decimal.Decimal):
        return {"t": "decimal", "v": str(v)}
    if isinstance(v, datetime.datetime):
        return {"t": "datetime", "v": v.isoformat()}
    if isinstance(v, datetime.date):
        return {"t": "date", "v": v.isoformat()}
    if isinstance(v, NicknameSlot):
        rid = v.id  # what every real output stream does (OutputStream.flatten reads `.id`)
        return {"t": "ref", "table": v._tablename, "id": rid if isinstance(rid, int) else repr(rid), "slot": True}
    if isinstance(v, (ObjectRow, ObjectReference)):
        rid = v.id
        return {"t": "ref", "table": v._tablename, "id": rid if isinstance(rid, int) else repr(rid)}
    return {"t": "other:" + type(v).__name__, "v": repr(v)}


def make_capture_stream():
    """An OutputStream that records raw rows: (table, [(field, canonical value)…])."""
    from snowfakery.output_streams import OutputStream

    class CaptureStream(OutputStream):
        def __init__(self):
            super().__init__(None)
            self.rows = []
            self.tables = None
            self.closed = False

        def create_or_validate_tables(self, tables):
            self.tables = {k: list(v.fields.keys()) for k, v in tables.items()}

        def write_row(self, tablename, row_with_references):
            self.rows.append((tablename, [(k, canon_value(v)) for k, v in row_with_references.items()]))

        def write_single_row(self, tablename, row):  # pragma: no cover
            pass

        def close(self, **kw):
            self.closed = True

    return CaptureStream()


class RunResult:
    def __init__(self):
        self.outcome = None
        self.error = None
        self.rows = []
        self.continuation = None
        self.summary = None
        self.exc = None

    def to_json(self):
        return {"outcome": self.outcome, "rows": self.rows, "error": self.error}


def run_recipe(
    recipe_text,
    *,
    reps=None,
    target=None,
    options=None,
    continuation=None,
    want_continuation=False,
    plugin_options=None,
    files=None,
    update_input_file=None,
    update_passthrough_fields=(),
):
    """Run one recipe through `snowfakery.data_generator.generate`, capturing raw rows.

    reps: number of iterations (StoppingCriteria __REPS__), target: (table, n).
    files: {relative name: text} written next to the recipe (for include_file).
    Hidden (`__`) tables are captured too (the capture stream overrides write_row).
    """
    import tempfile
    from snowfakery.data_generator import generate
    from snowfakery.api import SnowfakeryApplication, COUNT_REPS
    from snowfakery.data_generator_runtime import StoppingCriteria

    res = RunResult()
    stream = make_capture_stream()
    if target:
        sc = StoppingCriteria(target[0], target[1])
    elif reps is not None:
        sc = StoppingCriteria(COUNT_REPS, reps)
    else:
        sc = None
    app = SnowfakeryApplication(sc)
    app.echo = lambda *a, **k: None
    cont_out = io.StringIO() if want_continuation else None
    cont_in = io.StringIO(continuation) if continuation is not None else None
    tmpdir = None
    try:
        if files:
            tmpdir = tempfile.mkdtemp(prefix="verif_")
            for name, text in files.items():
                with open(os.path.join(tmpdir, name), "w") as f:
                    f.write(text)
            path = os.path.join(tmpdir, "main.recipe.yml")
            with open(path, "w") as f:
                f.write(recipe_text)
            src = open(path)
        else:
            src = io.StringIO(recipe_text)
        try:
            res.summary = generate(
                src,
                options or {},
                stream,
                parent_application=app,
                continuation_file=cont_in,
                generate_continuation_file=cont_out,
                plugin_options=plugin_options or {},
                update_input_file=update_input_file,
                update_passthrough_fields=update_passthrough_fields,
            )
            res.outcome = "ok"
        finally:
            if hasattr(src, "close"):
                src.close()
    except BaseException as e:  # noqa
        if isinstance(e, (KeyboardInterrupt, SystemExit)):
            raise
        res.outcome = outcome_of_exception(e)
        res.error = f"{type(e).__name__}: {str(e)[:300]}"
        res.exc = e
    finally:
        if tmpdir:
            import shutil

            shutil.rmtree(tmpdir, ignore_errors=True)
    res.rows = stream.rows
    res.tables = stream.tables
    if cont_out is not None and res.outcome == "ok":
        res.continuation = cont_out.getvalue()
    return res


def ids_by_table(rows):
    out = {}
    for table, fields in rows:
        d = dict(fields)
        out.setdefault(table, []).append(d.get("id"))
    return out


def refs_in_rows(rows):
    """[(row index, from table, field, target table, target id, is_slot)]"""
    out = []
    for i, (table, fields) in enumerate(rows):
        for k, v in fields:
            if isinstance(v, dict) and v.get("t") == "ref":
                out.append((i, table, k, v["table"], v["id"], bool(v.get("slot"))))
    return out


# ----------------------------------------------------------------------------- misc


def shrink_list(items, still_fails, max_rounds=200):
    """Greedy delta-debugging on a list."""
    items = list(items)
    n = 2
    rounds = 0
    while len(items) >= 2 and rounds < max_rounds:
        rounds += 1
        chunk = max(1, len(items) // n)
        reduced = False
        for i in range(0, len(items), chunk):
            cand = items[:i] + items[i + chunk :]
            if cand and still_fails(cand):
                items = cand
                n = max(n - 1, 2)
                reduced = True
                break
        if not reduced:
            if chunk == 1:
                break
            n = min(len(items), n * 2)
    return items
