"""C08 — every configured output receives every row, faithfully.

Four kinds of case (all randomness from ctx.rng):

  enc     OutputStream.cleanup of every stream class on a value universe   vs  model `c08.cleanup`
  db      a real SqlDbOutputStream / SqlTextOutputStream (sqlite) driven with a write sequence
          (tables inside and outside the schema, rows sqlite cannot bind, pinned and small
          thresholds, lengths around the thresholds); every `session.execute` is logged       vs  model `c08.db`
  schema  recipes built from generated template sets (nested, friends, hidden fields, update keys):
          TableInfo, DB columns, CSV header, keys of the written rows                          vs  model `c08.schema`
  e2e     `snowfakery.generate_data(output_files=…, output_folder=…, dburls=…)` on generated
          recipes (all value types, row counts around the thresholds, several outputs at once);
          raw rows are captured at `write_row` by a tee around the stream handed to `generate`,
          every artefact is re-read by an independent decoder (text re-rendering, json.loads,
          csv.reader, sqlite3 on the database and on the executed SQL script) and compared cell by
          cell with (a) the model `c08.cell` and (b) the direct oracle `expected_cell` below.

Direct oracle (model-independent): a run that returns normally must leave, in every artefact, per
table the same number of rows, the same ids, and for every key of every captured row the cell that
the format's encoding prescribes (DESIGN §5 C08).
"""
import csv
import datetime
import decimal
import io
import json
import os
import shutil
import sqlite3
import tempfile

from . import common

SPEC = {
    "lean": ["SnowModel.Props.C08", "SnowModel.Props.C08Bridge"],
    "pins": ["OutputStreams", "OutputApi", "OutputSchema", "OutputGenerate"],
    "harness": "harness.c08",
    "budget": {"quick": 600, "thorough": 1500},
    "technique": "Lean 4 theorems over a DB buffer machine (conservation invariant for every write sequence, thresholds, table set and unbindable-row predicate), total encoder tables, schema inference and multiplexing + pins regenerated from the AST (thresholds, modulo tests, encoder dict per class resolved through the hierarchy, flatten, close handler, statement text of the mirrored methods) + differential runs (cleanup, DB op traces, schema, end-to-end decode of every artefact)",
    "level_text": "Machine-checked proof that the buffer/flush/commit bookkeeping of the database stream commits exactly the written rows of every table of the schema, in order, for every write sequence, every pair of thresholds and every initial counter; that a failing close loses exactly the buffered rows; that every stream class has an applicable encoder and an accepting sink for every value of the universe; that the inferred schema covers every key of every row; that multiplexing is pointwise writing. The model is tied to the source by bridging lemmas over pins regenerated on every run and by differential runs against the real classes and the public entry point.",
    "level_note": "Trusted: Lean kernel; py2lean; the harness and its decoders; csv/json/sqlite3/SQLAlchemy and the Python renderings str()/isoformat()/repr() (carried as strings in the model). Control flow of the mirrored methods is pinned as text and tied by correspondence. Floats are compared only on short dyadic values. D15 (final batch written only by close(), whose errors are swallowed) was repaired by 043066e (generate commits before success; Multiplex closes every stream): close_reports and mux_close_reaches_all are proved at full strength, the old behaviour is kept as an explicit model parameter. D15b (residual: the SQL dump is still written by close(); an encoding error of the text file is swallowed) is a finding. D56 (the SQL script cut strings at a NUL) was repaired by e8cf4d3 (the str encoder of the SQL script raises): cell_str is proved at full strength with the refusal as an explicit error outcome. D16 (CSV header lacked _sf_update_key) was repaired by bc0f717: csv_header_covers_rows is proved at full strength and its input runs as a regression case.",
    "assumptions": [
        "csv.DictWriter/csv.reader, json.dumps/json.loads and sqlite3/SQLAlchemy round-trip text, integers within 64 bits and NULL exactly",
        "a flush is one transaction: a row sqlite cannot bind fails the whole flush (observed; modelled as all-or-nothing)",
        "str(), isoformat(), repr() of date/datetime/Decimal/float are the Python library's (carried as strings in the model)",
    ],
}

FMT_CLS = {"txt": "debug", "json": "json", "csv": "csv", "db": "sqlDb", "sql": "sqlText"}
CLS_PY = {
    "base": "OutputStream", "debug": "DebugOutputStream", "csv": "CSVOutputStream",
    "json": "JSONOutputStream", "sqlDb": "SqlDbOutputStream", "sqlText": "SqlTextOutputStream",
}
INT64 = (-(2 ** 63), 2 ** 63 - 1)


def model_batch(requests, timeout=600):
    """Like common.model_batch, but answers are split on "\\n" only: the driver prints U+0085 / U+2028 /
    U+2029 unescaped inside JSON strings and str.splitlines() would cut the answer there."""
    import subprocess

    if not requests:
        return []
    if not os.path.exists(common.DRIVER):
        raise common.DriverError(f"model driver not built: {common.DRIVER}")
    data = "\n".join(json.dumps(r, separators=(",", ":")) for r in requests) + "\n"
    p = subprocess.run([common.DRIVER], input=data.encode(), stdout=subprocess.PIPE, stderr=subprocess.PIPE, timeout=timeout)
    if p.returncode != 0:
        raise common.DriverError(f"driver exit {p.returncode}: {p.stderr.decode()[-2000:]}")
    lines = p.stdout.decode().split("\n")
    if lines and lines[-1] == "":
        lines.pop()
    if len(lines) != len(requests):
        raise common.DriverError(f"driver answered {len(lines)} lines for {len(requests)} requests")
    out = []
    for line in lines:
        j = json.loads(line)
        out.append(("ok", j["ok"]) if "ok" in j else ("err", j.get("err")))
    return out


def _os():
    import snowfakery.output_streams as os_

    return os_


# ------------------------------------------------------------------ values


def raw_to_val(v):
    """Captured Python value -> the model's `Val` (JSON)."""
    from snowfakery.object_rows import ObjectRow, ObjectReference

    if v is None:
        return {"t": "none"}
    if isinstance(v, (ObjectRow, ObjectReference)):
        return {"t": "ref", "table": v._tablename, "id": v.id}
    ty = type(v)
    if ty is bool:
        return {"t": "bool", "v": v}
    if ty is int:
        return {"t": "int", "v": v}
    if ty is float:
        return {"t": "float", "v": repr(v)}
    if ty is str:
        return {"t": "str", "v": v}
    if ty is datetime.datetime:
        return {"t": "datetime", "tsec": v.isoformat(timespec="seconds"), "sp": str(v)}
    if ty is datetime.date:
        return {"t": "date", "v": v.isoformat()}
    if ty is decimal.Decimal:
        return {"t": "decimal", "v": str(v)}
    if hasattr(v, "simplify"):
        return {"t": "other", "simplified": str(v.simplify())}
    return {"t": "other", "simplified": None, "type": ty.__name__}


def val_key(val):
    return json.dumps(val, sort_keys=True, default=str)


def expected_cell(fmt, v, is_id=False):
    """DIRECT ORACLE: the cell an independent decoder must read back for raw value `v` (DESIGN §5 C08).
    Returns a list like the model's cells, or None when the format cannot hold the value."""
    from snowfakery.object_rows import ObjectRow, ObjectReference

    if isinstance(v, (ObjectRow, ObjectReference)):
        if fmt == "txt":
            return ["text", f"{v._tablename}({v.id})"]
        v = v.id
    ty = type(v)
    if fmt == "txt":
        if ty is bool:
            return ["text", "1" if v else "0"]
        if v is None:
            return ["text", "None"]
        if ty is datetime.datetime:
            return ["text", v.isoformat(timespec="seconds")]
        if ty is float:
            return ["text", repr(v)]
        return ["text", str(v)]
    if fmt == "json":
        if ty is bool:
            return ["bool", v]
        if v is None:
            return ["null"]
        if ty is int:
            return ["int", v]
        if ty is float:
            return ["float", repr(v)]
        if ty is datetime.datetime:
            return ["text", str(v)]
        if ty is datetime.date:
            return ["text", v.isoformat()]
        return ["text", str(v)]
    if fmt == "csv":
        if ty is bool:
            return ["text", "1" if v else "0"]
        if v is None:
            return ["text", ""]
        if ty is datetime.datetime:
            return ["text", v.isoformat(timespec="seconds")]
        if ty is float:
            return ["text", repr(v)]
        return ["text", str(v)]
    if fmt in ("db", "sql"):
        if v is None:
            return ["null"]
        if ty is bool:
            return ["text", "1" if v else "0"]
        if ty is int:
            if not (INT64[0] <= v <= INT64[1]):
                return None
            return ["int", v] if is_id else ["text", str(v)]
        if ty is datetime.datetime:
            return ["text", v.isoformat(timespec="seconds") if fmt == "db" else str(v)]
        if ty is float:
            return ["text", repr(v)]
        return ["text", str(v)]
    raise AssertionError(fmt)


class ModelCells:
    """Batches / caches `c08.cell` calls."""

    def __init__(self):
        self.cache = {}
        self.pending = {}

    def want(self, cls, is_id, val):
        k = (cls, is_id, val_key(val))
        if k not in self.cache and k not in self.pending:
            v = {kk: vv for kk, vv in val.items() if kk != "type"}
            self.pending[k] = {"m": "c08.cell", "cls": cls, "isId": is_id, "val": v}
        return k

    def flush(self):
        if not self.pending:
            return
        keys = list(self.pending)
        res = model_batch([self.pending[k] for k in keys])
        for k, (st, val) in zip(keys, res):
            self.cache[k] = val if st == "ok" else ["driver-error", val]
        self.pending = {}

    def get(self, k):
        return self.cache[k]


# ------------------------------------------------------------------ enc cases


def sample_values(rng, n):
    from snowfakery.object_rows import ObjectRow, ObjectReference

    pool = [
        "", "x", "a,b", 'say "hi"', "it's", "line1\nline2", "cr\r\nlf", "tab\there", "é ☃ 😀", " lead", "trail ",
        "None", "NULL", "true", "007", "1e3", "a, b=c)", "x" * 300, "\\", "';--", "=1+1",
        0, 1, -1, 2 ** 31, 2 ** 40, -(2 ** 40), 2 ** 63 - 1, -(2 ** 63), 2 ** 63, 2 ** 70, -(2 ** 70),
        0.0, 1.5, -2.25, 1024.125,
        True, False, None,
        datetime.date(2024, 2, 29), datetime.date(1, 1, 1), datetime.date(9999, 12, 31),
        datetime.datetime(2024, 2, 29, 1, 2, 3, tzinfo=datetime.timezone.utc),
        datetime.datetime(2024, 2, 29, 1, 2, 3, 456789, tzinfo=datetime.timezone.utc),
        datetime.datetime(2024, 2, 29, 1, 2, 3),
        datetime.datetime(1999, 12, 31, 23, 59, 59, 999999, tzinfo=datetime.timezone(datetime.timedelta(hours=5, minutes=30))),
        decimal.Decimal("12.50"), decimal.Decimal("-0.001"), decimal.Decimal("1E+3"),
        ObjectRow("P", {"id": 7}), ObjectReference("Q q", 12), ObjectReference("P", 2 ** 70),
        (1, 2), [1], {"a": 1}, 1 + 2j, b"bytes", datetime.timedelta(days=1),
    ]
    out = list(pool) + list(CONTROL) + list(LONG_STRINGS)
    for _ in range(n):
        k = rng.randint(0, 5)
        if k == 0:
            out.append("".join(rng.choice(ALPHABET) for _ in range(rng.randint(0, 12))))
        elif k == 1:
            out.append(rng.choice([1, -1]) * rng.getrandbits(rng.choice([8, 31, 62, 63, 64, 65, 90])))
        elif k == 2:
            out.append(rng.randint(-4000, 4000) / 8)
        elif k == 3:
            out.append(datetime.datetime(rng.randint(1, 9999), rng.randint(1, 12), rng.randint(1, 28), rng.randint(0, 23),
                                         rng.randint(0, 59), rng.randint(0, 59), rng.choice([0, 0, rng.randint(0, 999999)]),
                                         tzinfo=rng.choice([None, datetime.timezone.utc,
                                                            datetime.timezone(datetime.timedelta(minutes=rng.randint(-720, 720)))])))
        elif k == 4:
            out.append(datetime.date(rng.randint(1, 9999), rng.randint(1, 12), rng.randint(1, 28)))
        else:
            out.append(decimal.Decimal(rng.randint(-10 ** 6, 10 ** 6)) / (10 ** rng.randint(0, 4)))
    return out


def canon_encoded(x):
    """Canonical form of what `cleanup` returned (same shape as the model's valToJson)."""
    v = raw_to_val(x)
    v.pop("type", None)
    if v["t"] == "other":
        return {"t": "other"}
    return v


def run_enc(ctx, rep):
    os_ = _os()
    vals = sample_values(ctx.rng, ctx.scale(150, 3000))
    reqs, meta = [], []
    for cls, pyname in CLS_PY.items():
        klass = getattr(os_, pyname)
        if getattr(klass, "__abstractmethods__", None):
            klass = type(pyname, (klass,), {m: (lambda self, *a, **k: None) for m in klass.__abstractmethods__})
        inst = object.__new__(klass)
        for v in vals:
            val = raw_to_val(v)
            try:
                code = canon_encoded(inst.cleanup("f", v, "T", {"id": 1, "f": v}))
            except TypeError as e:
                code = ["error", "noEncoder"] if "No encoder found" in str(e) else ["error", "TypeError"]
            except ValueError as e:
                # the SQL script's `_reject_nul` (fix e8cf4d3): an encoder that raises
                code = ["error", "encoderRaises"] if "NUL character" in str(e) else ["error", "ValueError"]
            except Exception as e:  # noqa
                code = ["error", type(e).__name__]
            reqs.append({"m": "c08.cleanup", "cls": cls, "val": {k: x for k, x in val.items() if k != "type"}})
            meta.append((cls, val, code))
    res = model_batch(reqs)
    for (cls, val, code), (st, model) in zip(meta, res):
        case = {"kind": "enc", "cls": cls, "val": val}
        rep.case(case, nontrivial=True)
        rep.traces_validated += 1
        rep.count(f"enc:{cls}:{val['t']}")
        if st != "ok" or model != code:
            rep.disagreement("c08.cleanup", case, model, code)
        # oracle: every value of the universe has an encoder in every class
        sanctioned = cls == "sqlText" and val["t"] == "str" and "\x00" in val["v"] and code == ["error", "encoderRaises"]
        if sanctioned:
            rep.count("enc:sqlText:nul-rejected")
        if val["t"] != "other" and isinstance(code, list) and not sanctioned:
            rep.violation(f"C08:no-encoder:{cls}:{val['t']}", f"{CLS_PY[cls]}.cleanup has no applicable encoder for a {val['t']} value",
                          case, "an encoded value", code)


# ------------------------------------------------------------------ db cases


def real_db(case):
    """Drive a real SqlDbOutputStream / SqlTextOutputStream with a write sequence; log every execute."""
    from sqlalchemy import create_engine
    from snowfakery.parse_recipe_yaml import TableInfo

    os_ = _os()
    tmp = tempfile.mkdtemp(prefix="verif_c08_")
    try:
        known = case["known"]
        tables = {}
        for t in known:
            ti = TableInfo(t)
            ti.fields = {"v": None}
            tables[t] = ti
        text = None
        if case["stream"] == "sqlDb":
            path = os.path.join(tmp, "x.db")
            outer = os_.SqlDbOutputStream(create_engine(f"sqlite:///{path}"))
            inner = outer
        else:
            text = io.StringIO()
            outer = os_.SqlTextOutputStream(text)
            inner = outer.sql_db
        count0 = outer.count
        if case.get("fl") is not None:
            outer.flush_limit = case["fl"]
            outer.commit_limit = case["cl"]
        fl, cl = outer.flush_limit, outer.commit_limit
        outer.create_or_validate_tables(tables)
        log = []
        orig_execute = inner.session.execute

        def execute(stmt, values=None, *a, **k):
            name = getattr(getattr(stmt, "table", None), "name", None)
            if name is not None and values is not None:
                log.append([outer.count, name, len(values)])
            return orig_execute(stmt, values, *a, **k)

        inner.session.execute = execute
        outcome = None
        for i, (t, bad) in enumerate(case["ws"]):
            try:
                outer.write_row(t, {"id": i, "v": (2 ** 70 + i) if bad else i})
            except Exception as e:  # noqa
                outcome = "writeFailed"
                err = f"{type(e).__name__}: {str(e)[:120]}"
                break
        committed = {}
        if outcome is None and case.get("pre", True):
            # what generate() does once the interpreter is done (fix 043066e)
            try:
                outer.commit()
            except Exception as e:  # noqa
                outcome = "commitFailed"
        if outcome is None:
            try:
                outer.close()
                outcome = "closed"
            except Exception as e:  # noqa
                outcome = "closeFailed"
                # the failed flush's executes were rolled back
                try:
                    inner.session.close()
                    inner.engine.dispose()
                except Exception:  # noqa
                    pass
        failed_at = outer.count
        if case["stream"] == "sqlDb":
            con = sqlite3.connect(path)
        else:
            con = sqlite3.connect(":memory:")
            if outcome == "closed":
                con.executescript(text.getvalue())
        if outcome not in ("writeFailed", "commitFailed"):
            for t in known:
                try:
                    committed[t] = [r[0] for r in con.execute(f'select id from "{t}" order by rowid').fetchall()]
                except sqlite3.OperationalError:
                    committed[t] = None
        con.close()
        if outcome == "closeFailed":
            # executes of the failing (rolled back) close-time transaction do not count; write-time
            # flushes are logged before `count += 1`, so no successful flush carries the final count
            log = [e for e in log if e[0] != failed_at]
            if case["stream"] == "sqlText":
                committed = None  # the script is never dumped; the inner database is not an artefact
        return {"outcome": outcome, "count0": count0, "fl": fl, "cl": cl, "committed": committed, "log": log,
                "count": outer.count}
    finally:
        shutil.rmtree(tmp, ignore_errors=True)


def gen_db_case(rng, limits, tier):
    stream = rng.choice(["sqlDb", "sqlDb", "sqlText"])
    tables = ["A", "B", "C", "Long Name", "D"][: rng.randint(1, 4)]
    known = list(tables)
    unknown = []
    if rng.random() < 0.25:
        unknown = ["U"]
    mode = rng.random()
    if mode < 0.35:
        fl, cl = None, None  # pinned limits
        base = rng.choice([limits[0], limits[0], 2 * limits[0]] + ([limits[1], 2 * limits[1]] if tier == "thorough" else []))
        n = max(0, base + rng.choice([-1, 0, 1, 1, 2]))
    else:
        fl = rng.choice([1, 2, 3, 4, 5, 7, 10])
        cl = rng.choice([fl, 2 * fl, 3 * fl, fl + 1, 7, 10, 1])
        n = rng.choice([0, 1, fl - 1, fl, fl + 1, cl - 1, cl, cl + 1, 2 * cl + 1, rng.randint(0, 60)])
        n = max(0, n)
    pbad = rng.choice([0, 0, 0, 0.002 if n > 100 else 0.1, 0.5 if n < 8 else 0.0])
    ws = []
    for i in range(n):
        t = rng.choice(tables + unknown)
        ws.append([t, rng.random() < pbad])
    if rng.random() < 0.15 and ws:
        ws[-1][1] = True  # unbindable row in the final batch: the D15 shape
    if rng.random() < 0.1 and ws:
        ws[rng.randrange(len(ws))][1] = True
    # pre: drive the stream as generate() does now (commit, then close) or as before the fix (close only)
    return {"kind": "db", "stream": stream, "known": known, "fl": fl, "cl": cl, "ws": ws, "pre": rng.random() < 0.7}


def check_db(cases, rep):
    reals, reqs = [], []
    for case in cases:
        r = real_db(case)
        reals.append(r)
        reqs.append({"m": "c08.db", "count0": r["count0"], "fl": r["fl"],
                     "cl": r["cl"],  # SqlTextOutputStream.commit delegates to the inner stream (fix 043066e)
                     "pre": bool(case.get("pre", True)), "known": case["known"], "ws": case["ws"]})
    res = model_batch(reqs)
    for case, r, (st, m) in zip(cases, reals, res):
        n = len(case["ws"])
        nbad = sum(1 for w in case["ws"] if w[1])
        rep.case(case, nontrivial=n >= 2)
        rep.traces_validated += 1
        rep.count(f"db:{case['stream']}:{r['outcome']}")
        rep.count("db:pinned-limits" if case["fl"] is None else "db:small-limits")
        rep.count("db:n>=fl" if n >= r["fl"] else "db:n<fl")
        if n >= r["cl"]:
            rep.count("db:n>=cl")
        if nbad:
            rep.count("db:with-unbindable-rows")
        if any(w[0] not in case["known"] for w in case["ws"]):
            rep.count("db:with-unknown-table")
        code = {"outcome": r["outcome"]}
        model = {"outcome": m.get("outcome")} if st == "ok" else {"err": m}
        if case.get("pre", True):
            rep.count("db:commit-before-close")
            if r["outcome"] == "closeFailed":
                rep.violation(f"C08:close-fails-after-commit:{case['stream']}",
                              f"{CLS_PY[case['stream']]}.close() raised although commit() had just succeeded", _small(case), "closed", "closeFailed")
        if r["outcome"] not in ("writeFailed", "commitFailed"):
            code["committed"] = r["committed"] if r["committed"] is not None else (m.get("committed") and {t: m["committed"].get(t) for t in case["known"]})
            code["log"] = r["log"]
            code["count"] = r["count"]
            if st == "ok" and m.get("outcome") not in ("writeFailed", "commitFailed"):
                model["committed"] = {t: m["committed"].get(t) for t in case["known"]}
                model["log"] = m["log"]
                model["count"] = m["count"]
        if model != code:
            rep.disagreement("c08.db", _small(case), _small_res(model), _small_res(code))
        # direct oracle on the real stream: closed => committed == written for schema tables
        if r["outcome"] == "closed":
            for t in case["known"]:
                want = [i for i, w in enumerate(case["ws"]) if w[0] == t]
                if r["committed"].get(t) != want:
                    rep.violation(
                        f"C08:db-stream-lost-rows:{case['stream']}",
                        f"{CLS_PY[case['stream']]} closed without error but table {t} holds {len(r['committed'].get(t) or [])} of {len(want)} rows "
                        f"(n={n}, flush_limit={r['fl']}, commit_limit={r['cl']})",
                        _small(case), want[:50], (r["committed"].get(t) or [])[:50])
                    break


def _small(case):
    if len(case.get("ws", [])) <= 60:
        return case
    c = dict(case)
    # run-length encode long write sequences for the replay file (expanded again by replay)
    rle = []
    for t, b in case["ws"]:
        if rle and rle[-1][0] == t and rle[-1][1] == b:
            rle[-1][2] += 1
        else:
            rle.append([t, b, 1])
    c["ws_rle"] = rle
    del c["ws"]
    return c


def _expand(case):
    if "ws_rle" in case:
        c = dict(case)
        c["ws"] = [[t, b] for t, b, k in case["ws_rle"] for _ in range(k)]
        del c["ws_rle"]
        return c
    return case


def _small_res(r):
    r = dict(r)
    if isinstance(r.get("committed"), dict):
        r["committed"] = {t: (v if v is None or len(v) <= 30 else {"len": len(v), "head": v[:5], "tail": v[-5:]}) for t, v in r["committed"].items()}
    if isinstance(r.get("log"), list) and len(r["log"]) > 40:
        r["log"] = r["log"][:20] + ["…"] + r["log"][-20:]
    return r


# ------------------------------------------------------------------ mux cases


def real_mux_close(oks):
    """A real MultiplexOutputStream over stub streams whose close() succeeds / raises."""
    os_ = _os()
    closed = []

    def mk(i, ok):
        class Stub(os_.OutputStream):
            def write_single_row(self, tablename, row):
                pass

            def close(self, **kw):
                closed.append(i)
                if not ok:
                    raise RuntimeError(f"close of stream {i} failed")

        return Stub(None)

    mux = os_.MultiplexOutputStream([mk(i, ok) for i, ok in enumerate(oks)])
    try:
        mux.close()
        raised = False
    except RuntimeError:
        raised = True
    return {"closed": [(oks[i] if i in closed else None) for i in range(len(oks))], "raises": raised}


def check_mux(cases, rep):
    res = model_batch([{"m": "c08.muxclose", "oks": c["oks"], "goOn": True} for c in cases])
    for case, (st, m) in zip(cases, res):
        code = real_mux_close(case["oks"])
        rep.case(case, nontrivial=len(case["oks"]) >= 2)
        rep.traces_validated += 1
        rep.count("mux:close:" + ("all-ok" if all(case["oks"]) else "some-raise"))
        if st != "ok" or m != code:
            rep.disagreement("c08.muxclose", case, m, code)
        # direct oracle: every stream is closed; the error is not lost
        if None in code["closed"]:
            rep.violation("C08:mux-close-skips-streams",
                          f"MultiplexOutputStream.close() left stream(s) {[i for i, c in enumerate(code['closed']) if c is None]} unclosed after the close of an earlier stream raised",
                          case, [bool(x) for x in case["oks"]], code["closed"])
        if code["raises"] != (not all(case["oks"])):
            rep.violation("C08:mux-close-loses-error", "MultiplexOutputStream.close() raised iff-no-stream-failed is violated", case, not all(case["oks"]), code["raises"])


# ------------------------------------------------------------------ recipes (schema + e2e)

FIELD_KINDS = [
    "str", "hostile", "int", "bigint40", "float", "bool", "none", "date", "datetime", "datetime_us", "now", "decimal",
    "idformula", "literal_int", "literal_bool", "literal_date", "empty", "long", "ref", "nested", "randref",
]
# control and separator characters (everything str.splitlines() splits on, NUL, DEL, SUB, BOM), quote
# and escape characters alone, strings that look like numbers / booleans / NULL / formulas
CONTROL = [
    "first line\rsecond line", "a\nb", "a\r\nb", "a\tb", "a\x0bb", "a\x0cb", "a\x1cb", "a\x1db", "a\x1eb", "a\x85b",
    "a\u2028b", "a\u2029b", "a\x00b", "\x00", "a\x1ab", "a\x7fb", "\ufeffbom", "\r", "\n", "\r\n", "\t", " ", "  ",
    "\rlead", "trail\r", "trail\n", "x\r\ry", '"', '""', '"""', "'", "''", "\\", "\\\\", '\\"', ";", "|", ",", ",,", '","',
    "=1+1", "+1", "-0", "0x10", "1_000", "1e3", "007", "NaN", "inf", "True", "false", "null", "NULL", "None", "~", "@x", "\x01",
]
LONG_STRINGS = ["x" * 100000, ("ab,\"\r\n" * 20000)]
ALPHABET = 'ab ,"\'\n\r\t\x0b\x0c\x1c\x1d\x1e\x85\u2028\u2029=()é☃\\;|😀'

HOSTILE = CONTROL + [
    "a,b", 'say "hi"', "it's", "line1\nline2", "cr\r\nlf", "tab\there", "é ☃ 😀", " lead", "trail ", "None", "NULL",
    "true", "007", "1e3", "a, b=c)", "\\", "';--", "=1+1", "x, y", "A(id=1, b=2)", "[1, 2]", "{}", "#", "- x", ": y", "%", "`", "|",
]


def yq(s):
    """A YAML double-quoted scalar; everything outside printable ASCII is escaped (`\\uXXXX`,
    `\\UXXXXXXXX`) so that control characters, NEL/LS/PS and NUL reach the interpreter unchanged."""
    out = ['"']
    for c in s:
        o = ord(c)
        if c in '"\\':
            out.append("\\" + c)
        elif 0x20 <= o < 0x7F:
            out.append(c)
        elif o <= 0xFFFF:
            out.append("\\u%04x" % o)
        else:
            out.append("\\U%08x" % o)
    return "".join(out) + '"'


def render_field(name, f, indent):
    pad = " " * indent
    k = f["kind"]
    if k in ("str", "hostile", "long", "empty"):
        return f"{pad}{name}: {yq(f['v'])}\n"
    if k == "int":
        return f"{pad}{name}: ${{{{ {f['v']} }}}}\n"
    if k == "bigint40":
        return f"{pad}{name}: ${{{{ 2 ** 40 + id }}}}\n"
    if k == "bigint70":
        return f"{pad}{name}: ${{{{ 2 ** 70 if id == {f['at']} else id }}}}\n"
    if k == "float":
        return f"{pad}{name}: ${{{{ {f['v']} }}}}\n"
    if k == "bool":
        return f"{pad}{name}: ${{{{ id % 2 == 0 }}}}\n"
    if k == "none":
        return f"{pad}{name}: ${{{{ None }}}}\n"
    if k == "date":
        return f"{pad}{name}: ${{{{ date(year={f['y']}, month={f['m']}, day={f['d']}) }}}}\n"
    if k == "datetime":
        return f"{pad}{name}: ${{{{ datetime(year={f['y']}, month={f['m']}, day={f['d']}, hour=1, minute=2, second=id % 60) }}}}\n"
    if k == "datetime_us":
        return f"{pad}{name}: ${{{{ datetime(year={f['y']}, month={f['m']}, day={f['d']}, hour=23, minute=59, second=58, microsecond=123456) }}}}\n"
    if k == "now":
        return f"{pad}{name}: ${{{{ now }}}}\n"
    if k == "decimal":
        return f"{pad}{name}:\n{pad}  fake.pydecimal:\n{pad}    left_digits: 3\n{pad}    right_digits: 2\n"
    if k == "idformula":
        return f"{pad}{name}: ${{{{ 'r' * (id % 4) ~ id }}}}\n"
    if k == "literal_int":
        return f"{pad}{name}: {f['v']}\n"
    if k == "literal_bool":
        return f"{pad}{name}: {'true' if f['v'] else 'false'}\n"
    if k == "literal_date":
        return f"{pad}{name}: 2024-02-29\n"
    if k == "ref":
        return f"{pad}{name}:\n{pad}  reference: {f['to']}\n"
    if k == "randref":
        return f"{pad}{name}:\n{pad}  random_reference: {f['to']}\n"
    if k == "nested":
        return f"{pad}{name}:\n{pad}  - object: {f['table']}\n{pad}    fields:\n{pad}      {f['fname']}: {yq(f['v'])}\n"
    raise AssertionError(k)


def render_template(t, indent=0):
    pad = " " * indent
    s = f"{pad}- object: {t['table']}\n"
    if t.get("nickname"):
        s += f"{pad}  nickname: {t['nickname']}\n"
    if t.get("count") is not None:
        s += f"{pad}  count: {t['count']}\n"
    if t.get("update_key"):
        s += f"{pad}  update_key: {t['update_key']}\n"
    if t["fields"]:
        s += f"{pad}  fields:\n"
        for name, f in t["fields"]:
            s += render_field(name, f, indent + 4)
    if t.get("friends"):
        s += f"{pad}  friends:\n"
        for fr in t["friends"]:
            s += render_template(fr, indent + 4)
    return s


def render_recipe(spec):
    return "- snowfakery_version: 3\n" + "".join(render_template(t) for t in spec["templates"])


def flat_templates(spec):
    """Templates in the order TableInfo.register sees them (post-order), as the model's Template records."""
    out = []

    def walk(t):
        # parse_object_template registers post-order: nested field objects, friends, then the template
        for n, f in t["fields"]:
            if f["kind"] == "nested":
                out.append({"table": f["table"], "fields": [f["fname"]], "updateKey": False})
        for fr in t.get("friends", []):
            walk(fr)
        out.append({"table": t["table"], "fields": [n for n, _ in t["fields"]], "updateKey": bool(t.get("update_key"))})

    for t in spec["templates"]:
        walk(t)
    return out


def gen_field(rng, tables_before, allow):
    k = rng.choice(allow)
    f = {"kind": k}
    if k == "str":
        f["v"] = rng.choice(["x", "hello world", "Zoë", "a b c", "v" + str(rng.randint(0, 99))])
    elif k == "hostile" and rng.random() < 0.4:
        f["v"] = "".join(rng.choice(ALPHABET) for _ in range(rng.randint(1, 12)))
    elif k == "hostile":
        f["v"] = rng.choice(HOSTILE)
    elif k == "long":
        f["v"] = "L" * rng.choice([255, 256, 300, 1000])
    elif k == "empty":
        f["v"] = ""
    elif k == "int":
        f["v"] = rng.choice([0, 1, -1, 7, 2 ** 31, -(2 ** 31) - 1, 2 ** 53 + 1, 2 ** 63 - 1, -(2 ** 63)])
    elif k == "float":
        f["v"] = rng.choice([0.5, 1.5, -2.25, 1024.125, 0.0])
    elif k in ("date", "datetime", "datetime_us"):
        f.update(y=rng.choice([1, 1970, 1999, 2024, 9999]), m=rng.randint(1, 12), d=rng.randint(1, 28))
    elif k == "literal_int":
        f["v"] = rng.choice([0, 5, -3, 12345678901234567890 % (2 ** 62)])
    elif k == "literal_bool":
        f["v"] = rng.random() < 0.5
    elif k in ("ref", "randref"):
        if not tables_before:
            return gen_field(rng, tables_before, [a for a in allow if a not in ("ref", "randref")] or ["str"])
        f["to"] = rng.choice(tables_before)
    elif k == "nested":
        f["table"] = rng.choice(["N1", "N2"])
        f["fname"] = rng.choice(["nn", "name", "__hid"])
        f["v"] = rng.choice(["n", "a,b", ""])
    return f


NAMES = ["name", "x", "y", "Amount", "Is_Active__c", "note", "when", "__hidden", "__h2", "ref", "n", "desc", "Field With Space", "ünï"]


def gen_spec(rng, total, allow=None, update_keys=False, hidden=True):
    """A recipe spec whose total row count (over all tables) is exactly `total` per iteration
    (nested objects add one row per parent row and are counted)."""
    allow = allow or FIELD_KINDS
    ntab = rng.randint(1, 3) if total >= 3 else 1
    names = ["A", "B", "C"][:ntab]
    templates = []
    remaining = total
    declared = []
    for i, tn in enumerate(names):
        fields = []
        used = set()
        for _ in range(rng.randint(0, 6)):
            nm = rng.choice(NAMES if hidden else [n for n in NAMES if not n.startswith("__")])
            if nm in used:
                continue
            used.add(nm)
            fields.append([nm, gen_field(rng, declared, allow)])
        nested = sum(1 for _, f in fields if f["kind"] == "nested")
        per = 1 + nested
        if i == len(names) - 1:
            cnt = remaining // per
            # drop nested fields if they make the exact total unreachable
            if cnt * per != remaining:
                fields = [[n, f] for n, f in fields if f["kind"] != "nested"]
                per, cnt = 1, remaining
        else:
            cnt = rng.randint(0, max(0, remaining // per // 2))
        remaining -= cnt * per
        t = {"table": tn, "count": cnt, "fields": fields}
        if rng.random() < 0.4:
            t["nickname"] = "nick" + tn
        if update_keys and rng.random() < 0.5 and fields:
            t["update_key"] = fields[0][0] if not fields[0][0].startswith("__") else "name"
        templates.append(t)
        declared.append(tn)
    return {"templates": templates}


def gen_schema_spec(rng):
    """Template sets for the schema correspondence: same table from several templates, friends,
    nested objects, hidden fields, duplicate names, update keys."""
    def tpl(depth):
        fields = []
        used = set()
        for _ in range(rng.randint(0, 5)):
            nm = rng.choice(NAMES)
            if nm in used:
                continue
            used.add(nm)
            allow = ["str", "int", "none", "literal_int"] + (["nested"] if depth < 2 else [])
            fields.append([nm, gen_field(rng, [], allow)])
        t = {"table": rng.choice(["A", "B", "A", "C"]), "count": rng.randint(0, 2), "fields": fields}
        if rng.random() < 0.35:
            t["update_key"] = rng.choice(["name", "x", "Amount"])
        if depth < 2 and rng.random() < 0.4:
            t["friends"] = [tpl(depth + 1) for _ in range(rng.randint(1, 2))]
        return t

    return {"templates": [tpl(0) for _ in range(rng.randint(1, 4))]}


# ------------------------------------------------------------------ schema cases


def real_schema(spec):
    from sqlalchemy import create_engine
    from snowfakery.parse_recipe_yaml import parse_recipe

    os_ = _os()
    text = render_recipe(spec)
    pr = parse_recipe(io.StringIO(text))
    tables = {t: {"fields": list(ti.fields.keys()), "hasUpdateKeys": bool(ti.has_update_keys)} for t, ti in pr.tables.items()}
    tmp = tempfile.mkdtemp(prefix="verif_c08_")
    try:
        db = os_.SqlDbOutputStream(create_engine(f"sqlite:///{tmp}/s.db"))
        db.create_or_validate_tables(pr.tables)
        for t in tables:
            tables[t]["dbColumns"] = list(db.table_info[t].fallback_dict.keys()) if t in db.table_info else None
        db.close()
        cs = os_.CSVOutputStream(os.path.join(tmp, "csv"))
        cs.create_or_validate_tables(pr.tables)
        for t in tables:
            tables[t]["csvHeader"] = list(cs.writers[t].dictwriter.fieldnames)
        for w in cs.writers.values():
            w.file.close()
    finally:
        shutil.rmtree(tmp, ignore_errors=True)
    return text, tables


def check_schema(specs, rep):
    reqs, reals = [], []
    for spec in specs:
        try:
            text, tables = real_schema(spec)
        except Exception as e:  # noqa
            reals.append(None)
            rep.count("schema:parse-failed:" + type(e).__name__)
            continue
        res = common.run_recipe(text, reps=1)
        keys = None
        if res.outcome == "ok":
            keys = {}
            for t, fields in res.rows:
                keys.setdefault(t, set()).add(tuple(k for k, _ in fields))
        reals.append((text, tables, keys, res))
        reqs.append({"m": "c08.schema", "templates": flat_templates(spec)})
    it = iter(model_batch(reqs))
    for spec, real in zip(specs, reals):
        if real is None:
            continue
        text, tables, keys, res = real
        st, m = next(it)
        case = {"kind": "schema", "spec": spec}
        ft = flat_templates(spec)
        rep.case(case, nontrivial=len(ft) >= 2)
        rep.traces_validated += 1
        rep.count("schema:templates", len(ft))
        if any(t["updateKey"] for t in ft):
            rep.count("schema:with-update-key")
        if st != "ok":
            rep.disagreement("c08.schema", case, m, tables)
            continue
        mt = {t: v for t, v in m["tables"].items() if not t.startswith("__")}
        rt = {t: v for t, v in tables.items() if not t.startswith("__")}
        if mt != rt:
            rep.disagreement("c08.schema", case, mt, rt)
        if keys is not None:
            # model: every template's written keys; code: key tuples observed at write_row
            mk = {}
            for t, ks in zip(ft, m["writtenKeys"]):
                mk.setdefault(t["table"], set()).add(tuple(ks))
            for t, seen in keys.items():
                if not seen <= mk.get(t, set()):
                    rep.disagreement("c08.schema.writtenKeys", case, sorted(mk.get(t, set())), sorted(seen))
            # direct oracle: every key of every written row is a DB column
            for t, seen in keys.items():
                cols = (tables.get(t) or {}).get("dbColumns")
                for ks in seen:
                    missing = [k for k in ks if cols is None or k not in cols]
                    if missing:
                        rep.violation("C08:db-columns-miss-row-key", f"row of {t} has keys {missing} that are not columns of the database table",
                                      case, cols, list(ks))


# ------------------------------------------------------------------ e2e cases


class Tee:
    """Stands in for the stream handed to `generate`: records the raw arguments of every
    `write_row`, then delegates to the real stream (which `configure_output_stream` still closes)."""

    def __init__(self, inner):
        self._inner = inner
        self.rows = []
        self.tables = None

    def create_or_validate_tables(self, tables):
        self.tables = {k: list(v.fields.keys()) for k, v in tables.items()}
        return self._inner.create_or_validate_tables(tables)

    def write_row(self, tablename, row):
        self.rows.append((tablename, list(row.items())))
        return self._inner.write_row(tablename, row)

    def __getattr__(self, name):
        return getattr(self._inner, name)


def run_e2e(case):
    """-> dict(outcome, error, echo, rows (raw), artefacts {name: (fmt, payload)})"""
    import snowfakery.api as api
    from snowfakery.api import SnowfakeryApplication

    cfg = case["cfg"]
    recipe = case.get("recipe") or render_recipe(case["spec"])
    tmp = tempfile.mkdtemp(prefix="verif_c08_")
    tees = []
    orig_generate = api.generate

    def generate_with_tee(*a, **k):
        tee = Tee(k["output_stream"])
        tees.append(tee)
        k["output_stream"] = tee
        return orig_generate(*a, **k)

    echo = []

    class App(SnowfakeryApplication):
        def echo(self, message=None, *a, **k):
            echo.append(str(message))

    kw = {}
    arte = []
    dburls = []
    for i in range(cfg.get("db", 0)):
        p = os.path.join(tmp, f"d{i}.db")
        dburls.append(f"sqlite:///{p}")
        arte.append((f"db{i}", "db", p))
    if dburls:
        kw["dburls"] = dburls
    files = []
    handles = {}
    for i, fmt in enumerate(cfg.get("files", [])):
        if cfg.get("ascii_handle"):
            # a text file that cannot encode every character (what a non-UTF-8 locale gives to path outputs)
            p = os.path.join(tmp, f"o{i}.{fmt}")
            h = open(p, "w", encoding="ascii")
            handles[i] = h
            files.append(h)
            arte.append((f"{fmt}{i}", fmt, p))
        elif cfg.get("as_handles"):
            h = io.StringIO()
            handles[i] = h
            files.append(h)
            arte.append((f"{fmt}{i}", fmt, h))
        else:
            p = os.path.join(tmp, f"o{i}.{fmt}")
            files.append(p)
            arte.append((f"{fmt}{i}", fmt, p))
    if files:
        kw["output_files"] = files
        if cfg.get("as_handles") or cfg.get("ascii_handle"):
            kw["output_format"] = cfg["files"][0]
    if cfg.get("csv"):
        kw["output_format"] = "csv"
        kw["output_folder"] = os.path.join(tmp, "csvout")
        arte.append(("csv", "csv", kw["output_folder"]))
    if cfg.get("reps"):
        kw["target_number"] = (cfg["reps"][1], cfg["reps"][0])
    out = {"recipe": recipe}
    api.generate = generate_with_tee
    try:
        try:
            api.generate_data(io.StringIO(recipe), parent_application=App(
                api.stopping_criteria_from_target_number(kw.get("target_number"))), **kw)
            out["outcome"] = "ok"
            out["error"] = None
        except BaseException as e:  # noqa
            if isinstance(e, (KeyboardInterrupt, SystemExit)):
                raise
            out["outcome"] = common.outcome_of_exception(e)
            out["error"] = f"{type(e).__name__}: {str(e)[:300]}"
    finally:
        api.generate = orig_generate
    for h in handles.values():
        if not isinstance(h, io.StringIO):
            try:
                h.close()
            except Exception:  # noqa
                pass
    out["echo"] = echo
    out["rows"] = tees[0].rows if tees else []
    out["tables"] = tees[0].tables if tees else None
    payload = {}
    for name, fmt, loc in arte:
        try:
            payload[name] = (fmt, decode_artefact(fmt, loc))
        except Exception as e:  # noqa
            payload[name] = (fmt, {"undecodable": f"{type(e).__name__}: {str(e)[:200]}"})
    out["artefacts"] = payload
    shutil.rmtree(tmp, ignore_errors=True)
    return out


def decode_artefact(fmt, loc):
    """Independent decoders. Result: for txt the raw text; otherwise {table: [ [(col, cell)…] … ]}
    in artefact order (json keeps one global order under the key None as well)."""
    if fmt == "txt":
        return loc.getvalue() if hasattr(loc, "getvalue") else open(loc, encoding="utf-8", newline="").read()
    if fmt == "json":
        text = loc.getvalue() if hasattr(loc, "getvalue") else open(loc, encoding="utf-8", newline="").read()
        if text == "":
            return {"order": [], "tables": {}}
        data = json.loads(text)
        tables, order = {}, []
        for obj in data:
            t = obj["_table"]
            cells = [(k, json_cell(v)) for k, v in obj.items() if k != "_table"]
            tables.setdefault(t, []).append(cells)
            order.append(t)
        return {"order": order, "tables": tables}
    if fmt == "csv":
        tables = {}
        meta = json.load(open(os.path.join(loc, "csvw_metadata.json")))
        listed = [m["url"] for m in meta["tables"]]
        for fn in sorted(os.listdir(loc)):
            if fn.endswith(".csv"):
                with open(os.path.join(loc, fn), newline="", encoding="utf-8") as f:
                    rd = list(csv.reader(f))
                header = rd[0] if rd else []
                tables[fn[:-4]] = [[(h, ["text", c]) for h, c in zip(header, row)] + ([("<extra>", ["text", "?"])] if len(row) != len(header) else []) for row in rd[1:]]
        return {"tables": tables, "listed": listed, "headers": {}}
    if fmt in ("db", "sql"):
        if fmt == "db":
            con = sqlite3.connect(loc)
        else:
            text = loc.getvalue() if hasattr(loc, "getvalue") else open(loc, encoding="utf-8", newline="").read()
            con = sqlite3.connect(":memory:")
            con.executescript(text)
        tables = {}
        for (t,) in con.execute("select name from sqlite_master where type='table' order by name").fetchall():
            cur = con.execute(f'select * from "{t}" order by rowid')
            cols = [d[0] for d in cur.description]
            tables[t] = [[(c, sql_cell(v)) for c, v in zip(cols, row)] for row in cur.fetchall()]
        con.close()
        return {"tables": tables}
    raise AssertionError(fmt)


def json_cell(v):
    if v is None:
        return ["null"]
    if isinstance(v, bool):
        return ["bool", v]
    if isinstance(v, int):
        return ["int", v]
    if isinstance(v, float):
        return ["float", repr(v)]
    if isinstance(v, str):
        return ["text", v]
    return ["other", repr(v)]


def sql_cell(v):
    if v is None:
        return ["null"]
    if isinstance(v, int):
        return ["int", v]
    if isinstance(v, float):
        return ["float", repr(v)]
    if isinstance(v, str):
        return ["text", v]
    return ["other", repr(v)]


def render_txt(rows):
    """What the debug text must be for the captured rows (oracle side)."""
    out = []
    for t, fields in rows:
        vals = ", ".join(f"{k}={expected_cell('txt', v)[1]}" for k, v in fields)
        out.append(f"{t}({vals})\n")
    return "".join(out)


def typename(v):
    return raw_to_val(v)["t"]


def check_e2e(case, rep, mc, res=None):
    """Run one end-to-end case and evaluate oracle + model on every artefact."""
    res = res or run_e2e(case)
    rows = res["rows"]
    cfg = case["cfg"]
    n = len(rows)
    closed_badly = any("Could not close" in m for m in res["echo"])
    small = _e2e_small(case)
    rep.count("e2e:outcome:" + res["outcome"].split(":")[0])
    rep.count("e2e:rows", n)
    for name, (fmt, _) in res["artefacts"].items():
        rep.count("e2e:fmt:" + fmt)
    if len(res["artefacts"]) > 1:
        rep.count("e2e:multiplexed")
    for lim in (999, 1000, 1001, 9999, 10000, 10001, 20001):
        if n == lim:
            rep.count(f"e2e:n={lim}")
    types = sorted({typename(v) for _, f in rows for _, v in f})
    for t in types:
        rep.count("e2e:type:" + t)
    rep.case(small, nontrivial=n >= 2 and len(types) >= 2)

    if res["outcome"] != "ok":
        err = res["error"] or ""
        if "fields not in fieldnames" in err:
            rep.violation("C08:csv-header-misses-row-key",
                          "the CSV folder output rejects a row because its header (fields + id) lacks a key the row carries: " + err[:160],
                          small, "row written", err)
        elif res["outcome"].startswith("internal"):
            rep.violation("C08:output-crashed:" + res["outcome"], "an output stream crashed with a non-recipe error: " + err[:160], small, "rows written", err)
        else:
            bind = "too large to convert to SQLite" in err
            if bind:
                rep.count("e2e:reported-bind-error")
            elif ("NUL character" in err and "sql" in cfg.get("files", [])
                  and any(isinstance(v, str) and "\x00" in v for _, f in rows for _, v in f)):
                # the SQL script refuses a string holding a NUL (fix e8cf4d3): reported, nothing shortened
                rep.count("e2e:reported-nul-error")
            elif "codec can't encode" in err:
                rep.count("e2e:reported-encoding-error")  # the configured text file cannot hold the character; reported
            else:
                # is it the recipe (fails with a capture-only stream too) or the output?
                base = common.run_recipe(res["recipe"], reps=1)
                if base.outcome == "ok":
                    rep.violation("C08:output-rejects-rows", "the run failed with this output configuration although the recipe runs with a capturing stream: " + err[:200],
                                  small, "rows written", err)
                else:
                    rep.count("e2e:recipe-error")
        return res

    # success: nothing may be lost, in any artefact
    per_table = {}
    for t, fields in rows:
        per_table.setdefault(t, []).append(fields)
    sig_loss = None
    if closed_badly:
        # cause class of the swallowed close error: writing the SQL dump into a text file that cannot
        # encode a character (D15b) is a different defect from a failing final flush (D15)
        enc = any("Could not close" in m and "codec can't encode" in m for m in res["echo"])
        sig_loss = "C08:close-error-swallowed:text-encoding" if enc else "C08:close-error-swallowed"
    pending = []  # (name, fmt, table, row index, key, observed cell, raw value, model key)
    for name, (fmt, art) in res["artefacts"].items():
        def lost(what, expected=None, observed=None, kind="rows-lost"):
            rep.violation(sig_loss or f"C08:{kind}:{fmt}",
                          (f"run reported success (close error echoed and swallowed: {[m for m in res['echo'] if 'Could not close' in m][:1]}) but " if closed_badly else "run reported success but ")
                          + f"artefact {name}: {what}", small, expected, observed)

        if isinstance(art, dict) and "undecodable" in art:
            lost(f"cannot be decoded ({art['undecodable']})", "a well-formed artefact", art["undecodable"], kind="artefact-malformed")
            continue
        if fmt == "txt":
            want = render_txt(rows)
            if art != want:
                wl, al = want.split("\n"), art.split("\n")
                i = next((i for i, (a, b) in enumerate(zip(wl, al)) if a != b), min(len(wl), len(al)))
                kind = "rows-lost" if len(al) < len(wl) and al[:-1] == wl[: len(al) - 1] else "value-mismatch"
                lost(f"debug text differs from the captured rows at line {i + 1} ({len(al) - 1} lines for {n} rows)",
                     wl[i: i + 2], al[i: i + 2], kind=kind)
            # model: cell of every value (text of each field) — checked through the per-value cache
            for t, fields in rows:
                for k, v in fields:
                    val = raw_to_val(v)
                    mk = mc.want("debug", False, val)
                    pending.append((name, fmt, t, None, k, expected_cell("txt", v), v, mk, True))
            continue
        tables = art["tables"]
        if fmt == "json" and art["order"] != [t for t, _ in rows]:
            lost(f"{len(art['order'])} rows / table order differs from the {n} rows produced", [t for t, _ in rows][:20], art["order"][:20])
            continue
        for t in per_table:
            if t not in tables:
                lost(f"table {t} is missing ({len(per_table[t])} rows produced)", t, sorted(tables))
        if fmt == "csv":
            for t in (res["tables"] or {}):
                if not t.startswith("__") and (t + ".csv") not in art["listed"]:
                    lost(f"csvw_metadata.json does not list {t}.csv", t, art["listed"], kind="artefact-malformed")
        for t, got_rows in tables.items():
            exp_rows = per_table.get(t, [])
            if fmt in ("db", "sql"):
                # the database returns rows in rowid (= id) order
                exp_rows = sorted(exp_rows, key=lambda f: dict(f).get("id") if isinstance(dict(f).get("id"), int) else 0)
            if len(got_rows) != len(exp_rows):
                lost(f"table {t} holds {len(got_rows)} rows, {len(exp_rows)} were produced", len(exp_rows), len(got_rows))
                continue
            for ri, (got, exp) in enumerate(zip(got_rows, exp_rows)):
                gd = dict(got)
                if len(gd) != len(got):
                    lost(f"table {t}: duplicate column", None, [c for c, _ in got], kind="artefact-malformed")
                    break
                ed = dict(exp)
                bad = False
                for k, v in exp:
                    is_id = k == "id"
                    if k not in gd:
                        lost(f"table {t} row {ri}: field {k} is missing", k, sorted(gd), kind="field-lost")
                        bad = True
                        break
                    mk = mc.want(FMT_CLS[fmt], is_id, raw_to_val(v))
                    pending.append((name, fmt, t, ri, k, expected_cell(fmt, v, is_id), v, mk, gd[k]))
                if bad:
                    break
                # columns of the artefact that the row does not have must be empty
                for c, cell in got:
                    if c not in ed:
                        empty = ["text", ""] if fmt == "csv" else ["null"]
                        if fmt == "json" or cell != empty:
                            lost(f"table {t} row {ri}: column {c} holds {cell} but the row has no such field", empty, cell, kind="value-mismatch")
                            bad = True
                            break
                if bad:
                    break
    mc.flush()
    seen_sig = set()
    for name, fmt, t, ri, k, want, v, mk, got in pending:
        model = mc.get(mk)
        if got is True:  # txt: compared as a whole above; here only model vs oracle on the value
            if model != want and ("model", fmt, typename(v)) not in seen_sig:
                seen_sig.add(("model", fmt, typename(v)))
                rep.disagreement("c08.cell", {"fmt": fmt, "val": raw_to_val(v)}, model, want)
            continue
        if got != want:
            sig = sig_loss or f"C08:value-mismatch:{fmt}:{typename(v)}"
            if (not sig_loss and fmt == "sql" and isinstance(v, str) and "\x00" in v
                    and got == ["text", v.split("\x00")[0]]):
                sig = "C08:sql-script-truncates-at-nul"  # D56
            if sig not in seen_sig:
                seen_sig.add(sig)
                rep.violation(sig, f"run reported success but artefact {name}, table {t}, row {ri}, field {k}: a {typename(v)} value reads back as {got}, "
                              f"the format's encoding prescribes {want}", small, want, got)
        if model != got and ("model", fmt, typename(v), k == "id") not in seen_sig:
            seen_sig.add(("model", fmt, typename(v), k == "id"))
            rep.disagreement("c08.cell", {"fmt": fmt, "isId": k == "id", "val": raw_to_val(v)}, model, got)
    rep.traces_validated += 1
    return res


def _e2e_small(case):
    return {k: v for k, v in case.items() if k != "_res"}


def gen_cfg(rng, allow_db=True):
    r = rng.random()
    cfg = {}
    if r < 0.12:
        cfg = {"files": ["txt"]}
    elif r < 0.24:
        cfg = {"files": ["json"]}
    elif r < 0.36:
        cfg = {"files": ["sql"]}
    elif r < 0.48:
        cfg = {"csv": True}
    elif r < 0.60:
        cfg = {"db": 1}
    elif r < 0.70:
        cfg = {"db": 1, "csv": True}
    elif r < 0.80:
        cfg = {"db": rng.choice([0, 1, 2]), "files": rng.sample(["txt", "json", "sql", "json", "txt"], rng.randint(2, 4))}
    elif r < 0.9:
        cfg = {"db": 1, "files": [rng.choice(["txt", "json", "sql"])]}
    else:
        cfg = {"files": [rng.choice(["txt", "json", "sql"])] * rng.randint(1, 2), "as_handles": True}
    if not allow_db:
        cfg.pop("db", None)
        if not cfg.get("files") and not cfg.get("csv"):
            cfg = {"files": ["json"]}
    return cfg


def uses_sqlite(cfg):
    return bool(cfg.get("db")) or "sql" in cfg.get("files", [])


def gen_e2e_case(rng, total):
    cfg = gen_cfg(rng)
    allow = list(FIELD_KINDS)
    # update keys in every format, the CSV folder included (D16 was repaired by bc0f717)
    spec = gen_spec(rng, total, allow, update_keys=rng.random() < 0.3)
    if uses_sqlite(cfg) and rng.random() < 0.08:
        # an integer sqlite cannot bind, somewhere: before a flush point the error is reported,
        # in the final batch it is the D15 shape
        live = [t for t in spec["templates"] if t["count"]]
        if live:
            t = rng.choice(live)
            t["fields"].append(["big", {"kind": "bigint70", "at": rng.choice([1, t["count"], rng.randint(1, t["count"])])}])
    return {"kind": "e2e", "spec": spec, "cfg": cfg}


D15_RECIPE = """- snowfakery_version: 3
- object: A
  count: 3
  fields:
    big: ${{ 2 ** 70 if id == 2 else id }}
    name: x
"""
D16_RECIPE = """- object: A
  update_key: name
  fields:
    name: x
"""

UNICODE_RECIPE = """- snowfakery_version: 3
- object: A
  count: 3
  fields:
    name: "snow \\u2603 man"
"""

def hostile_sheet(strings, per=12):
    """One table, two rows, every string of `strings` as its own field (`per` fields per recipe chunk)."""
    out = []
    for i in range(0, len(strings), per):
        chunk = strings[i: i + per]
        fields = [[f"h{i + j:02d}", {"kind": "hostile", "v": v}] for j, v in enumerate(chunk)] + [["tail", {"kind": "str", "v": "end"}]]
        out.append({"templates": [{"table": "A", "count": 2, "fields": fields}]})
    return out


# strings holding a NUL get their own sheet: the SQL script refuses them (the run fails, reported), so
# they must not keep the other strings of a sheet from being checked in that configuration
NUL_STRINGS = [x for x in CONTROL if "\x00" in x] + ["\x00\x00", "tail\x00", "\x00head", "a,\"\x00\r"]
HOSTILE_SHEETS = hostile_sheet([x for x in CONTROL if "\x00" not in x]) + hostile_sheet(LONG_STRINGS)
NUL_SHEETS = hostile_sheet(NUL_STRINGS)

FIXED_E2E = [
    {"kind": "e2e", "spec": sp, "cfg": cfg}
    for sp in HOSTILE_SHEETS
    for cfg in ({"csv": True}, {"db": 1, "files": ["txt", "json", "sql"]})
] + [
    # NUL: round-trips in csv / dburl / txt / json, refused (run fails) by the SQL script — never shortened
    {"kind": "e2e", "spec": sp, "cfg": cfg}
    for sp in NUL_SHEETS
    for cfg in ({"csv": True}, {"db": 1, "files": ["txt", "json"]}, {"files": ["sql"]}, {"db": 1, "files": ["json", "sql"]})
] + [
    # D15 shapes: unbindable value in the final batch
    {"kind": "e2e", "recipe": D15_RECIPE, "cfg": {"db": 1}},
    {"kind": "e2e", "recipe": D15_RECIPE, "cfg": {"db": 1, "files": ["json"]}},
    {"kind": "e2e", "recipe": D15_RECIPE, "cfg": {"files": ["sql"]}},
    {"kind": "e2e", "recipe": D15_RECIPE, "cfg": {"db": 1, "csv": True}},
    # the same value is fine in the formats without an integer limit
    {"kind": "e2e", "recipe": D15_RECIPE, "cfg": {"files": ["json", "txt"]}},
    {"kind": "e2e", "recipe": D15_RECIPE, "cfg": {"csv": True}},
    # D16 (repaired by bc0f717): regression shapes
    {"kind": "e2e", "recipe": D16_RECIPE, "cfg": {"csv": True}},
    {"kind": "e2e", "recipe": D16_RECIPE, "cfg": {"db": 1, "csv": True}},
    {"kind": "e2e", "recipe": D16_RECIPE, "cfg": {"db": 1, "files": ["json", "sql", "txt"]}},
    # D15b (residual): the SQL dump is written by close(); a text file that cannot encode a character
    {"kind": "e2e", "recipe": UNICODE_RECIPE, "cfg": {"files": ["sql"], "ascii_handle": True}},
    # the same file for the formats that write while the run can still fail / escape non-ASCII
    {"kind": "e2e", "recipe": UNICODE_RECIPE, "cfg": {"files": ["txt"], "ascii_handle": True}},
    {"kind": "e2e", "recipe": UNICODE_RECIPE, "cfg": {"files": ["json"], "ascii_handle": True}},
    # no rows at all
    {"kind": "e2e", "recipe": "- snowfakery_version: 3\n- object: A\n  count: 0\n  fields:\n    a: 1\n", "cfg": {"db": 1, "files": ["json", "sql", "txt"]}},
    {"kind": "e2e", "recipe": "- snowfakery_version: 3\n- object: A\n  count: 0\n  fields:\n    a: 1\n", "cfg": {"csv": True}},
]


# ------------------------------------------------------------------ entry points


def pinned_limits():
    os_ = _os()
    return int(os_.OutputStream.flush_limit), int(os_.OutputStream.commit_limit)


def run(ctx, rep, findings):
    rep.rule = (
        "enc: every stream class x value universe (strings incl. quoting-hostile/unicode/300 chars, ints around 2**63 and 2**70, "
        "dyadic floats, bools, None, dates, datetimes with/without tz and microseconds, Decimals, rows/references, foreign types). "
        "db: write sequences over 1-4 schema tables (+ an unknown table), with rows sqlite cannot bind, pinned thresholds with lengths "
        "flush_limit-1..+2 (thorough: commit_limit, 2*commit_limit+1) and small thresholds with lengths around them, for SqlDbOutputStream and "
        "SqlTextOutputStream. schema: 1-4 top-level templates with friends / nested objects / hidden fields / update keys. "
        "e2e: generated v3 recipes (1-3 tables, 0-6 typed fields each, references, nested objects), total rows in {0..40} and around the "
        "pinned thresholds, outputs txt/json/sql/csv-folder/dburl and combinations through snowfakery.generate_data. "
        "Non-trivial: db sequences with >= 2 writes; schema sets with >= 2 templates; e2e runs with >= 2 rows and >= 2 value types."
    )
    fl, cl = pinned_limits()
    mc = ModelCells()
    t_start = ctx.time_left()

    # 1. known-finding inputs, corpus, fixed shapes
    first = [f["input"] for f in findings if f.get("input")] + ctx.corpus() + FIXED_E2E
    for case in first:
        _dispatch(case, rep, mc)

    # 2. encoders
    run_enc(ctx, rep)

    # 3. schema
    specs = [gen_schema_spec(ctx.rng) for _ in range(ctx.scale(120, 1500))]
    check_schema(specs, rep)

    # 4. DB machine
    dbcases = []
    for stream in ("sqlDb", "sqlText"):
        for n in (fl - 1, fl, fl + 1, 2 * fl + 1):
            dbcases.append({"kind": "db", "stream": stream, "known": ["A", "B"], "fl": None, "cl": None,
                            "ws": [["A" if i % 3 else "B", False] for i in range(n)]})
        # D15 shape on the stream itself, driven as generate() does now (pre) and as before the fix
        for pre in (True, False):
            dbcases.append({"kind": "db", "stream": stream, "known": ["A"], "fl": None, "cl": None, "pre": pre,
                            "ws": [["A", False], ["A", True], ["A", False]]})
            dbcases.append({"kind": "db", "stream": stream, "known": ["A", "B"], "fl": None, "cl": None, "pre": pre,
                            "ws": [["A", False]] * (fl + 5) + [["B", True]] + [["A", False]] * 3})
        dbcases.append({"kind": "db", "stream": stream, "known": ["A"], "fl": None, "cl": None,
                        "ws": [["A", False]] * (fl + 5) + [["A", True]] + [["A", False]] * 3})
        dbcases.append({"kind": "db", "stream": stream, "known": ["A"], "fl": None, "cl": None,
                        "ws": [["A", False]] * (fl - 1) + [["A", True]] + [["A", False]] * 3})
    if ctx.tier == "thorough":
        for stream in ("sqlDb", "sqlText"):
            for n in (cl - 1, cl, cl + 1, 2 * cl + 1):
                dbcases.append({"kind": "db", "stream": stream, "known": ["A", "B"], "fl": None, "cl": None,
                                "ws": [["A" if i % 3 else "B", False] for i in range(n)]})
    for _ in range(ctx.scale(220, 2500)):
        dbcases.append(gen_db_case(ctx.rng, (fl, cl), ctx.tier))
    for i in range(0, len(dbcases), 100):
        check_db(dbcases[i: i + 100], rep)
        if ctx.time_left() < 60:
            rep.notes.append("db cases stopped early: time budget")
            break

    # 4b. MultiplexOutputStream.close over stub streams
    muxcases = [{"kind": "mux", "oks": oks} for oks in ([], [True], [False], [False, True], [True, False, True], [False, False, True])]
    for _ in range(ctx.scale(60, 600)):
        muxcases.append({"kind": "mux", "oks": [ctx.rng.random() < 0.6 for _ in range(ctx.rng.randint(1, 6))]})
    check_mux(muxcases, rep)

    # 5. end to end
    totals = [0, 1, 2, 3, 5, 8, 13, 21, 40]
    n_small = ctx.scale(110, 1200)
    for i in range(n_small):
        _dispatch(gen_e2e_case(ctx.rng, ctx.rng.choice(totals)), rep, mc)
        if ctx.time_left() < 45:
            rep.notes.append("e2e small cases stopped early: time budget")
            break
    around = [fl - 1, fl, fl + 1, fl + 3, 2 * fl, 2 * fl + 1]
    if ctx.tier == "thorough":
        around += [cl - 1, cl, cl + 1, 2 * cl + 1]
    reps_per = ctx.scale(4, 8)
    for total in around:
        for _ in range(reps_per if total < cl - 1 else 3):
            if ctx.time_left() < 30:
                rep.notes.append("e2e threshold cases stopped early: time budget")
                break
            _dispatch(gen_e2e_case(ctx.rng, total), rep, mc)
    rep.extra["pinned_limits_seen_by_harness"] = [fl, cl]
    rep.extra["model_cell_cache"] = len(mc.cache)


def _dispatch(case, rep, mc):
    k = case.get("kind")
    if k == "e2e":
        check_e2e(case, rep, mc)
    elif k == "db":
        check_db([_expand(case)], rep)
    elif k == "schema":
        check_schema([case["spec"]], rep)
    elif k == "mux":
        check_mux([case], rep)
    elif k == "enc":
        pass  # enc cases are regenerated wholesale (values are not JSON-serialisable as such)


def replay(case, rep):
    _dispatch(case, rep, ModelCells())


def shrink(case, signature):
    """Greedy minimisation of an end-to-end case (fewer outputs, fewer rows, fewer fields/tables)."""
    if case.get("kind") != "e2e" or "spec" not in case:
        return case
    import copy

    def fails(c):
        r = common.Report("C08")
        try:
            check_e2e(c, r, ModelCells())
        except Exception:  # noqa
            return False
        return any(v["signature"] == signature for v in r.violations)

    best = copy.deepcopy(case)
    budget = 60
    changed = True
    while changed and budget > 0:
        changed = False
        cands = []
        cfg = best["cfg"]
        if cfg.get("db", 0) > 0:
            cands.append(("cfg", dict(cfg, db=cfg["db"] - 1)))
        for i in range(len(cfg.get("files", []))):
            cands.append(("cfg", dict(cfg, files=cfg["files"][:i] + cfg["files"][i + 1:])))
        if cfg.get("csv"):
            cands.append(("cfg", {k: v for k, v in cfg.items() if k != "csv"}))
        tpls = best["spec"]["templates"]
        for i in range(len(tpls)):
            if len(tpls) > 1:
                cands.append(("spec", {"templates": tpls[:i] + tpls[i + 1:]}))
            for j in range(len(tpls[i]["fields"])):
                t2 = copy.deepcopy(tpls)
                del t2[i]["fields"][j]
                cands.append(("spec", {"templates": t2}))
            c = tpls[i].get("count")
            if isinstance(c, int) and c > 1:
                for c2 in (1, c // 2, c - 1):
                    t2 = copy.deepcopy(tpls)
                    t2[i]["count"] = c2
                    cands.append(("spec", {"templates": t2}))
        for key, val in cands:
            budget -= 1
            if budget <= 0:
                break
            c = dict(best)
            c[key] = val
            if key == "cfg" and not (val.get("db") or val.get("files") or val.get("csv")):
                continue
            if fails(c):
                best = c
                changed = True
                break
    best["recipe_text"] = render_recipe(best["spec"])
    return best
