"""Shared case loop of the L1 properties (C01, C02, C06): generate a recipe, run it as a chain of
runs with the id/slot/registry calls traced, replay the trace on the Lean machine, evaluate the
direct oracles."""
import yaml

from . import common, l1, recipes


def names_universe(recipe):
    names = set(recipes.TABLES) | set(recipes.NICKS) | {"nosuch"}
    return sorted(names)


def make_case(rng, gen_kwargs, max_iter=4):
    g = recipes.RefGen(rng, **gen_kwargs)
    rec = g.recipe()
    k = rng.randint(1, max_iter)
    parts = recipes.compositions(k, rng) if rng.random() < 0.6 else [k]
    return {"recipe": recipes.dump(rec), "parts": parts, "features": sorted(g.features)}


def run_case(case, rep, prop, oracles, pending):
    univ = names_universe(None)
    chain = l1.run_chain(case["recipe"], case["parts"], univ=univ)
    l1.split_iterations(chain)
    feats = set(case.get("features", []))
    nontrivial = chain.outcome == "ok" and len(chain.rows) >= 3 and bool(feats & {"reference", "nested", "friends"})
    rep.case({"recipe": case["recipe"], "parts": case["parts"]}, nontrivial=nontrivial)
    rep.count("outcome:" + chain.outcome.split(":")[0])
    if chain.outcome.startswith("internal"):
        rep.count("outcome-detail:" + chain.outcome)
    for f in feats:
        rep.count("feature:" + f)
    rep.count("runs:%d" % len(case["parts"]))
    kinds = {}
    for op in chain.trace.ops:
        k = op["op"][0] + (":" + op["obs"][0] if "obs" in op else ":error")
        kinds[k] = kinds.get(k, 0) + 1
    for k, n in kinds.items():
        rep.count("op:" + k, n)
    for o in oracles:
        o(rep, prop, case, chain)
    pending.append((case, chain))


def flush(pending, rep):
    reqs = [l1.model_requests(chain) for _, chain in pending]
    res = common.model_batch(reqs)
    for (case, chain), r in zip(pending, res):
        n, dis = l1.compare_trace(chain, r)
        rep.traces_validated += 1
        rep.count("ops-validated", n)
        if dis:
            rep.disagreement("l1.trace:" + dis["what"], {"recipe": case["recipe"], "parts": case["parts"]}, dis.get("model"), dis)
    pending.clear()


def run_l1(ctx, rep, prop, gen_kwargs, oracles, findings, n_quick, n_thorough, fixed_cases=()):
    pending = []
    cases = [f["input"] for f in findings if f.get("input")] + list(ctx.corpus()) + list(fixed_cases)
    for c in cases:
        run_case(c, rep, prop, oracles, pending)
    for i in range(ctx.scale(n_quick, n_thorough)):
        run_case(make_case(ctx.rng, gen_kwargs), rep, prop, oracles, pending)
        if len(pending) >= 200:
            flush(pending, rep)
        if ctx.time_left() < 30:
            rep.notes.append("stopped early: time budget")
            break
    flush(pending, rep)


def replay_l1(case, rep, prop, oracles):
    pending = []
    run_case(case, rep, prop, oracles, pending)
    flush(pending, rep)


def shrink_recipe(case, signature, prop, oracles):
    """Drop top-level templates / reduce the chain while the oracle still fails the same way."""
    rec = yaml.safe_load(case["recipe"])

    def fails(cand_rec, parts):
        c = {"recipe": recipes.dump(cand_rec), "parts": parts, "features": case.get("features", [])}
        r = common.Report(prop)
        chain = l1.run_chain(c["recipe"], c["parts"], univ=names_universe(None))
        l1.split_iterations(chain)
        for o in oracles:
            o(r, prop, c, chain)
        return any(v["signature"] == signature for v in r.violations)

    parts = case["parts"]
    if len(parts) > 1 and fails(rec, [sum(parts)]):
        parts = [sum(parts)]
    rec2 = common.shrink_list(rec, lambda cand: fails(cand, parts))
    return {"recipe": recipes.dump(rec2), "parts": parts, "features": case.get("features", [])}
