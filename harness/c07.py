"""C07 — generation stops at the first iteration boundary that meets the target.

Correspondence (model = `SnowModel.Stop`, through the driver methods `c07.run` / `c07.boundary`):

* function level ("fn"): the real `SnowfakeryApplication.ensure_progress_was_made` /
  `check_if_finished` are driven, boundary by boundary, with a real `IdManager` (fresh, or restored
  through `__setstate__` for a continued run) whose counter for the target table is advanced by a
  generated row-count sequence; every boundary is compared with `Stop.boundary` and the whole run
  with `Stop.run`.
* end to end ("e2e"): generated recipes with a begin marker `M` (its id is the global iteration
  number, which the count formulas index), an end marker `E`, and several templates feeding the
  target table `T` (top level, nested in a field, friend, just_once, literal / formula / absent
  counts, both dialects), run through `common.run_recipe(target=("T", N))`, fresh and continued.
* "reps": repetition targets and "no target"; "reject": targets no template creates.

Direct oracle (model-independent, evaluated on the real outputs only): the number of iterations is
the least prefix whose cumulative T rows (since this run started) reach N; every executed iteration
is whole (end marker last, T rows = what the recipe prescribes for that iteration); an iteration
without a T row ends the run with an exception at its own boundary (any exception type: the
property says "ends the run with an error"; that the type is `RuntimeError`, not a recipe error, is
recorded in the histogram only); no error otherwise; reps k => exactly k iterations, no target =>
exactly one; an uncreatable target => an exception and not a single row.  A row-limit guard turns a
run that does not end into the outcome "runaway".
"""
import json

from . import common

SPEC = {
    "lean": ["SnowModel.Props.C07", "SnowModel.Props.C07Bridge"],
    "pins": ["StopApi", "StopRuntime", "StopTables"],
    "harness": "harness.c07",
    "technique": "Lean 4 theorems about the stopping loop over an arbitrary rows-per-iteration function "
    "(induction on the loop with a progress invariant) + pins of the stopping arithmetic, defaults, call order "
    "and loop skeleton regenerated from the AST + boundary-by-boundary and end-to-end differential runs",
    "level_text": "Machine-checked proof, for every rows-per-iteration function, every target N, every "
    "continuation offset, that the model of the generation loop stops at the least iteration boundary whose "
    "cumulative row count reaches N, executes whole iterations only, counts relative to the continuation, runs "
    "exactly k iterations for a repetition target, always terminates for a named target, and raises the progress "
    "error at the very boundary of an empty iteration, fresh or continued, and rejects every target no template "
    "creates, the empty name included (the former defects D20 / D28 are repaired and kept as regression inputs); tied to api.py / data_generator_runtime.py by bridging lemmas over "
    "regenerated pins and by differential runs of the real methods and of whole recipes.",
    "level_note": "Trusted: Lean kernel; py2lean; the harness; CPython ints. An iteration is abstracted to its "
    "row count for the target table: that the interpreter creates exactly the rows the recipe prescribes is "
    "checked by the end-to-end oracle (planned vs observed counts), not proved here. Negative counts are "
    "outside the model.",
    "assumptions": [
        "an iteration either raises or runs to completion and changes the target table's id counter only by "
        "creating rows (ids are allocated through IdManager.generate_id, pinned increment 1)",
        "check_slots_filled succeeded at the boundaries the theorems speak about",
        "the stopping count is a non-negative int",
    ],
    "budget": {"quick": 600, "thorough": 1500},
}

SIG_D20 = "C07:zero-progress-not-error:first-iteration-of-continued-run"
SIG_ZERO = "C07:zero-progress-not-error"
SIG_D28 = "C07:unknown-target-not-rejected:empty-name"
SIG_NOTREJ = "C07:unknown-target-not-rejected"

T = "T"


# ------------------------------------------------------------------ guarded real runs


class _Guard:
    tripped = False


def guarded_run(recipe, max_rows, **kw):
    """common.run_recipe with a row limit: a run that does not end is cut and reported as 'runaway'."""
    orig = common.make_capture_stream
    _Guard.tripped = False

    def make():
        s = orig()
        w = s.write_row

        def write_row(t, r):
            if len(s.rows) >= max_rows:
                _Guard.tripped = True
                raise RuntimeError("verif: row limit reached (run does not end)")
            return w(t, r)

        s.write_row = write_row
        return s

    common.make_capture_stream = make
    try:
        res = common.run_recipe(recipe, **kw)
    finally:
        common.make_capture_stream = orig
    if _Guard.tripped:
        res.outcome = "runaway"
    return res


def split_iterations(rows):
    """[(table…)] per iteration, delimited by the begin marker M; rows before the first M separately."""
    pre, its = [], []
    for t, _ in rows:
        if t == "M":
            its.append([])
        elif its:
            its[-1].append(t)
        else:
            pre.append(t)
    return pre, its


# ------------------------------------------------------------------ the direct oracle


def oracle_rows(rep, case, t, n_target, l0, continued, kind, what):
    """t: T rows of each executed iteration (observed on the real code); kind: ok | error | runaway."""
    if kind == "runaway":
        rep.violation("C07:runaway", f"{what}: the run did not end (row limit reached after {len(t)} iterations)",
                      case, "end within N+1 iterations", {"t": t[:40]})
        return
    undetected = [i for i, x in enumerate(t) if x == 0 and not (kind == "error" and i == len(t) - 1)]
    for i in undetected:
        sig = SIG_D20 if (i == 0 and continued and l0 > 0) else SIG_ZERO
        rep.violation(
            sig,
            f"{what}: iteration {i + 1} created no row of the target table and the run went on"
            + (" (continued run, first iteration)" if sig == SIG_D20 else ""),
            case, f"an error at the boundary after iteration {i + 1}", {"kind": kind, "t": t})
    if kind == "ok":
        cum, first = 0, None
        for i, x in enumerate(t):
            cum += x
            if cum >= n_target:
                first = i + 1
                break
        if first is None:
            rep.violation("C07:stopped-early", f"{what}: ended normally with {cum} < {n_target} rows since the start",
                          case, f">= {n_target} rows", {"t": t})
        elif first < len(t):
            rep.violation("C07:not-minimal",
                          f"{what}: {len(t)} iterations executed, the target {n_target} was met after {first}",
                          case, first, {"iterations": len(t), "t": t})
    else:  # error
        if not t:
            rep.violation("C07:known-target-rejected",
                          f"{what}: the run failed before its first iteration although the recipe creates the target table",
                          case, "iterations until the target is met", {"t": t})
            return
        if t[-1] != 0:
            rep.violation("C07:spurious-error",
                          f"{what}: the run ended with an error although its last iteration created {t[-1]} rows",
                          case, "no error", {"t": t})
        if sum(t[:-1]) >= n_target:
            rep.violation("C07:not-minimal", f"{what}: target met before the iteration that raised", case, None, {"t": t})


# ------------------------------------------------------------------ function level


def real_fn(case):
    """Drive the real application object + a real IdManager. Returns (outcome, boundary log)."""
    from snowfakery.api import SnowfakeryApplication
    from snowfakery.data_generator_runtime import StoppingCriteria, IdManager

    tname, count, cont, r, rdef = case["tname"], case["count"], case["cont"], case["r"], case["rdef"]
    crit = None if tname is None else StoppingCriteria(tname, count)
    app = SnowfakeryApplication(crit)
    idm = IdManager()
    if case.get("continued"):
        state = {"Other": 5}
        if cont is not None:
            state[case["rows_table"]] = cont
        idm.__setstate__({"last_used_ids": state})
    rows_table = case["rows_table"]  # the table the iterations create rows of
    maxit = (count if tname is not None else 1) + 4
    log = []
    for i in range(maxit):
        for _ in range(r[i] if i < len(r) else rdef):
            idm.generate_id(rows_table)
        idm.generate_id("Other")
        before = [app.starting_id, app.rep_count, idm[rows_table] if rows_table == tname else idm[tname or "__none__"]]
        try:
            app.ensure_progress_was_made(idm)
            fin = app.check_if_finished(idm)
        except RuntimeError:
            log.append([before, ["error"]])
            return ["noProgress", i + 1, before[2]], log
        log.append([before, ["fin" if fin else "cont", app.starting_id, app.rep_count]])
        if fin:
            return ["finished", i + 1, before[2], app.starting_id, app.rep_count], log
    return ["outOfFuel", maxit], log


def fn_requests(case, log):
    # (the function level has no target validation: the target is always among the tables)
    reqs = [{"m": "c07.run", "tables": [case["rows_table"], "Other", case["tname"] if case["tname"] is not None else "T"],
             "tname": case["tname"], "count": case["count"],
             "cont": case["cont"] if case["rows_table"] == case["tname"] else None,
             "r": case["r"] if case["rows_table"] == case["tname"] else [], "rdef": case["rdef"] if case["rows_table"] == case["tname"] else 0,
             "fuel": (case["count"] if case["tname"] is not None else 1) + 4}]
    for before, _ in log:
        reqs.append({"m": "c07.boundary", "tname": case["tname"], "count": case["count"],
                     "cont": case["cont"] if case["rows_table"] == case["tname"] else None,
                     "sid": before[0], "rc": before[1], "last": before[2]})
    return reqs


def gen_fn_case(rng):
    mode = rng.choice(["rows"] * 6 + ["reps", "reps", "none", "empty", "other"])
    n = rng.choice([0, 1, 1, 2, 3, 4, 5, 7, 10])
    continued = rng.random() < 0.5
    cont = rng.choice([0, 1, 2, 5, 9, 100]) if continued and rng.random() < 0.85 else None
    style = rng.choice(["ones", "const", "mixed", "zeros-first", "zero-somewhere", "big"])
    ln = rng.randint(0, 8)
    if style == "ones":
        r = [1] * ln
    elif style == "const":
        r = [rng.randint(1, 4)] * ln
    elif style == "mixed":
        r = [rng.randint(1, 5) for _ in range(ln)]
    elif style == "zeros-first":
        r = [0] * rng.randint(1, 2) + [rng.randint(0, 3) for _ in range(ln)]
    elif style == "zero-somewhere":
        r = [rng.randint(1, 3) for _ in range(ln + 1)]
        r[rng.randrange(len(r))] = 0
    else:
        r = [rng.randint(n, 2 * n + 1) for _ in range(ln)]
    rdef = rng.choice([0, 1, 1, 2])
    case = {"kind": "fn", "tname": T, "count": n, "continued": continued, "cont": cont, "r": r, "rdef": rdef, "rows_table": T}
    if mode == "reps":
        case["tname"] = "__REPS__"
    elif mode == "none":
        case["tname"] = None
        case["count"] = 1
    elif mode == "empty":
        case["tname"] = ""
        case["count"] = rng.choice([0, 1, 2])
    elif mode == "other":
        case["rows_table"] = "U"  # rows are created for another table: the target's counter never moves
    return case


def check_fn(cases, rep):
    reqs, meta = [], []
    for case in cases:
        out, log = real_fn(case)
        rq = fn_requests(case, log)
        meta.append((case, out, log, len(rq)))
        reqs += rq
        tname = case["tname"]
        rows_mode = tname not in (None, "__REPS__", "")
        rep.case(case, nontrivial=len(log) >= 2 or out[0] == "noProgress")
        rep.count("fn:out:" + out[0])
        rep.count("fn:mode:" + ("rows" if rows_mode else repr(tname)))
        rep.count("fn:continued" if case.get("continued") else "fn:fresh")
        # direct oracle on the real methods
        seq = [(case["r"][i] if i < len(case["r"]) else case["rdef"]) for i in range(len(log))]
        if case["rows_table"] != tname:
            seq = [0] * len(log)
        if rows_mode and case["count"] >= 1:
            kind = {"finished": "ok", "noProgress": "error", "outOfFuel": "runaway"}[out[0]]
            l0 = case["cont"] or 0 if case["rows_table"] == tname else 0
            oracle_rows(rep, case, seq, case["count"], l0, bool(case.get("continued")), kind, "real application methods")
        elif tname in (None, "__REPS__"):
            k = 1 if tname is None else case["count"]
            if k >= 1 and (out[0] != "finished" or out[1] != k):
                rep.violation("C07:reps-count", f"repetition target {k}: outcome {out}", case, k, out)
    res = common.model_batch(reqs)
    pos = 0
    for case, out, log, n in meta:
        chunk = res[pos : pos + n]
        pos += n
        rep.traces_validated += 1
        st, val = chunk[0]
        if st != "ok" or val != out:
            rep.disagreement("c07.run (function level)", case, val, out)
        for (before, after), (st, val) in zip(log, chunk[1:]):
            if st != "ok" or val != after:
                rep.disagreement("c07.boundary", dict(case, boundary=before), val, after)
                break


# ------------------------------------------------------------------ end to end: recipes


def spec_value(spec, g):
    """Value of a count spec in global iteration g (0-based)."""
    if spec is None:
        return 1
    if "lit" in spec:
        return spec["lit"]
    return spec["seq"][g % len(spec["seq"])]


def spec_text(spec):
    if spec is None:
        return None
    if "lit" in spec:
        return str(spec["lit"])
    s = spec["seq"]
    return "${{ %s[(M.id - 1) %% %d] }}" % (json.dumps(s).replace(" ", ""), len(s))


def planned_r(plan, g, fresh_run):
    tot = 0
    for c in plan["feeds"]:
        if c.get("once") and not (fresh_run and g == 0):
            continue
        mult = spec_value(c["parent"], g) if c["where"] != "top" else 1
        tot += mult * spec_value(c["count"], g)
    return tot


def render(plan):
    out = []
    if plan["dialect"] == 3:
        out.append("- snowfakery_version: 3")
    out.append("- object: M")

    def obj(ind, name, spec, extra=()):
        lines = [f"{ind}- object: {name}"]
        t = spec_text(spec)
        if t is not None:
            lines.append(f"{ind}  count: {t}")
        lines += [f"{ind}  {e}" for e in extra]
        return lines

    if plan.get("fwd"):
        out += ["- object: R", "  fields:", "    t:", "      reference: tn"]
    if plan.get("fwd2"):
        # the target table is forward-referenced both by nickname and by table name before its
        # nicknamed template runs (both reserved ids must be used by rows of T, none may be lost)
        out += ["- object: R", "  fields:", "    t:", "      reference: tn", "    t2:", f"      reference: {T}"]
    if plan.get("noise"):
        out += obj("", "X", plan["noise"])
    for c in plan["feeds"]:
        if c["where"] == "top":
            extra = []
            if c.get("nick"):
                extra.append("nickname: tn")
            if c.get("once"):
                extra.append("just_once: true")
            out += obj("", T, c["count"], extra)
            if c.get("fields"):
                out += ["  fields:", "    n: ${{id}}"]
    parents = {}
    for c in plan["feeds"]:
        if c["where"] != "top":
            parents.setdefault(json.dumps(c["parent"], sort_keys=True), []).append(c)
    for k, (key, cs) in enumerate(parents.items()):
        out += obj("", f"P{k}" if k else "P", cs[0]["parent"])
        nested = [c for c in cs if c["where"] == "nested"]
        friends = [c for c in cs if c["where"] == "friend"]
        if nested:
            out.append("  fields:")
            for j, c in enumerate(nested):
                out.append(f"    kid{j}:")
                out += obj("      ", T, c["count"])
        if friends:
            out.append("  friends:")
            for c in friends:
                out += obj("    ", T, c["count"])
    if plan.get("hidden"):
        out.append("- object: __H")
    out.append("- object: E")
    return "\n".join(out) + "\n"


def tables_of(plan):
    ts = ["M", "E"]
    if plan.get("fwd"):
        ts.append("R")
    if plan.get("noise"):
        ts.append("X")
    ts.append(T)
    n_par = len({json.dumps(c["parent"], sort_keys=True) for c in plan["feeds"] if c["where"] != "top"})
    for k in range(n_par):
        ts.append(f"P{k}" if k else "P")
    return ts


def gen_spec(rng, allow_zero, style):
    lo = 0 if allow_zero else 1
    if style == "lit":
        return {"lit": rng.randint(lo, 3)}
    if style == "absent":
        return None
    ln = rng.randint(1, 4)
    seq = [rng.randint(lo, 3) for _ in range(ln)]
    if allow_zero and rng.random() < 0.35:
        seq[rng.randrange(ln)] = 0
    return {"seq": seq}


def gen_plan(rng, zeros):
    """zeros: whether zero counts (hence possibly empty iterations) are allowed."""
    plan = {"dialect": rng.choice([2, 2, 3]), "feeds": []}
    shape = rng.choice(["top", "top", "top2", "nested", "friend", "nested+friend", "all", "once", "once+top"])
    st = lambda: rng.choice(["lit", "seq", "seq", "seq", "absent"])  # noqa
    if shape in ("top", "top2", "all", "once+top"):
        plan["feeds"].append({"where": "top", "count": gen_spec(rng, zeros, st()), "fields": rng.random() < 0.3})
    if shape in ("top2", "all"):
        plan["feeds"].append({"where": "top", "count": gen_spec(rng, zeros, st())})
    if shape in ("nested", "nested+friend", "all"):
        par = gen_spec(rng, zeros, st())
        plan["feeds"].append({"where": "nested", "parent": par, "count": gen_spec(rng, zeros, st())})
        if shape != "nested":
            plan["feeds"].append({"where": "friend", "parent": par, "count": gen_spec(rng, zeros, st())})
    if shape == "friend":
        plan["feeds"].append({"where": "friend", "parent": gen_spec(rng, zeros, st()), "count": gen_spec(rng, zeros, st())})
    if shape in ("once", "once+top"):
        c = {"where": "top", "count": {"lit": rng.randint(1, 3)}, "once": True}
        if rng.random() < 0.5:
            c["nick"] = True
            c["count"] = {"lit": 1} if rng.random() < 0.5 else None
            plan["fwd"] = rng.random() < 0.6
        plan["feeds"].append(c)
    if (shape in ("top", "top2", "all") and not plan.get("fwd") and rng.random() < 0.35
            and not any(c.get("nick") for c in plan["feeds"])):
        plan["feeds"][0]["nick"] = True
        plan["feeds"][0]["count"] = {"lit": rng.randint(2, 3)}
        plan["fwd2"] = True
    if rng.random() < 0.4:
        plan["noise"] = gen_spec(rng, True, "seq")
    plan["hidden"] = rng.random() < 0.2
    return plan


def gen_e2e_case(rng):
    zeros = rng.random() < 0.45
    plan = gen_plan(rng, zeros)
    per = max(1, max(planned_r(plan, g, True) for g in range(6)))
    n = rng.choice([1, 1, 2, 3, per, per + 1, 2 * per, 2 * per + 1, 3 * per, 3 * per + 1, rng.randint(1, 12)])
    first = None
    if rng.random() < 0.5:
        first = {"reps": rng.randint(1, 3)} if rng.random() < 0.7 else {"target": [rng.choice([T, "M"]), rng.randint(1, 4)]}
    return {"kind": "e2e", "plan": plan, "recipe": render(plan), "n": n, "first": first}


MAX_ROWS_PER_ITER = 80


def run_first(case):
    """First run of a continued case. Returns (ok?, g0, continuation text, l0 | None)."""
    import yaml

    f = case["first"]
    kw = {"reps": f["reps"]} if "reps" in f else {"target": tuple(f["target"])}
    res = guarded_run(case["recipe"], 40 * MAX_ROWS_PER_ITER, want_continuation=True, **kw)
    if res.outcome != "ok":
        return False, 0, None, None
    _, its = split_iterations(res.rows)
    cont = res.continuation
    ids = yaml.safe_load(cont)["id_manager"]["last_used_ids"]
    return True, len(its), cont, ids.get(case.get("target_table", T))


def check_e2e(cases, rep):
    reqs, meta = [], []
    for case in cases:
        plan, n = case["plan"], case["n"]
        recipe = case["recipe"]
        g0, cont_text, l0 = 0, None, None
        continued = case["first"] is not None
        if continued:
            ok, g0, cont_text, l0 = run_first(case)
            if not ok:
                rep.count("e2e:first-run-failed (case skipped)")
                continue
        res = guarded_run(recipe, (n + 8) * MAX_ROWS_PER_ITER, target=(T, n), continuation=cont_text)
        pre, its = split_iterations(res.rows)
        t = [it.count(T) for it in its]
        kind = "ok" if res.outcome == "ok" else "runaway" if res.outcome == "runaway" else "error"
        what = "continued run" if continued else "fresh run"
        rep.case(case, nontrivial=len(its) >= 2 or kind == "error")
        rep.count("e2e:outcome:" + res.outcome)
        rep.count("e2e:" + ("continued" if continued else "fresh"))
        rep.count("e2e:dialect:%d" % plan["dialect"])
        rep.count("e2e:iterations:%s" % (len(its) if len(its) < 6 else "6+"))
        for c in plan["feeds"]:
            rep.count("e2e:feed:" + c["where"] + (":once" if c.get("once") else ""))
        # oracle 1: whole iterations
        planned = [planned_r(plan, g0 + i, not continued) for i in range(len(its))]
        if kind != "runaway":
            if pre:
                rep.violation("C07:partial-iteration", f"{what}: rows before the first iteration marker", case, [], pre[:10])
            for i, it in enumerate(its):
                if not it or it[-1] != "E":
                    rep.violation("C07:partial-iteration",
                                  f"{what}: iteration {i + 1} of {len(its)} is incomplete (end marker missing)",
                                  case, "every executed iteration is whole", it[-10:])
                    break
                if t[i] != planned[i]:
                    rep.violation("C07:partial-iteration",
                                  f"{what}: iteration {i + 1} created {t[i]} rows of T, the recipe prescribes {planned[i]}",
                                  case, planned, t)
                    break
        # oracle 2: minimal prefix, relative counting, progress error
        oracle_rows(rep, case, t, n, l0 or 0, continued, kind, what)
        if kind == "error":
            rep.count("e2e:error-type:" + res.outcome)
        # model
        horizon = n + 6
        reqs.append({"m": "c07.run", "tables": tables_of(plan), "tname": T, "count": n, "cont": l0,
                     "r": [planned_r(plan, g0 + i, not continued) for i in range(horizon)], "rdef": 1})
        meta.append((case, kind, len(its), sum(t), l0 or 0))
    res = common.model_batch(reqs)
    for (case, kind, nit, tot, l0), (st, val) in zip(meta, res):
        rep.traces_validated += 1
        code = {"ok": ["finished", nit, l0 + tot], "error": ["noProgress", nit, l0 + tot], "runaway": ["outOfFuel"]}[kind]
        model = val[:3] if st == "ok" and val[0] in ("finished", "noProgress") else val[:1] if st == "ok" else ["err", val]
        if model != code:
            rep.disagreement("c07.run (end to end)", case, val, code)


# ------------------------------------------------------------------ reps / no target / rejection

BASE = """- object: M
- object: T
  nickname: nick
  count: %s
- var: v
  value: 3
- macro: mac
  fields:
    a: b
- object: __H
- object: E
"""


def check_misc(cases, rep):
    reqs, meta = [], []
    for case in cases:
        recipe = BASE % case.get("tcount", "1")
        cont_text, l0 = None, None
        continued = bool(case.get("continued"))
        if continued:
            r0 = guarded_run(recipe, 400, reps=2, want_continuation=True)
            if r0.outcome != "ok":
                rep.count("misc:first-run-failed")
                continue
            cont_text = r0.continuation
        if case["kind"] == "reps":
            k = case["k"]
            res = guarded_run(recipe, (max(k or 1, 1) + 6) * 10, reps=k, continuation=cont_text)
            _, its = split_iterations(res.rows)
            rep.case(case, nontrivial=(k or 1) >= 2)
            rep.count("reps:k=%s" % k)
            want = 1 if k is None else k
            if want >= 1 and (res.outcome != "ok" or len(its) != want or any((not it or it[-1] != "E") for it in its)):
                rep.violation("C07:reps-count" if k is not None else "C07:no-target-count",
                              f"repetition target {k}: {len(its)} iterations, outcome {res.outcome}", case, want,
                              {"iterations": len(its), "outcome": res.outcome, "error": res.error})
            reqs.append({"m": "c07.run", "tables": ["M", T, "E"], "tname": None if k is None else "__REPS__",
                         "count": k or 0, "cont": None, "r": [], "rdef": 0})
            meta.append((case, ["finished", len(its)] if res.outcome == "ok" else [res.outcome]))
        else:  # reject
            name = case["target"]
            res = guarded_run(recipe, 300, target=(name, case["n"]), continuation=cont_text)
            rep.case(case, nontrivial=True)
            rep.count("reject:" + (repr(name) if name in ("", "__H") else "name"))
            creatable = name in ("M", T, "E")
            hidden = name == "__H"
            if not creatable and not hidden:
                if res.outcome == "ok" or res.outcome == "runaway" or res.rows:
                    sig = SIG_D28 if name == "" else SIG_NOTREJ
                    rep.violation(sig,
                                  f"target table {name!r} is created by no template but was not rejected before the "
                                  f"first row: outcome {res.outcome}, {len(res.rows)} rows written",
                                  case, "an error before any row is written",
                                  {"outcome": res.outcome, "rows": len(res.rows), "error": res.error})
            if creatable and res.outcome != "ok":
                rep.violation("C07:known-target-rejected", f"target {name!r} is created by the recipe: {res.error}", case)
            rep.count("reject:outcome:" + res.outcome)
            reqs.append({"m": "c07.run", "tables": ["M", T, "E"], "tname": name, "count": case["n"], "cont": None,
                         "r": [], "rdef": 1 if creatable else 0, "fuel": 60})
            code = ["rejected"] if (res.outcome not in ("ok", "runaway") and not res.rows) else \
                ["outOfFuel"] if res.outcome == "runaway" else ["finished"] if res.outcome == "ok" else ["noProgress"]
            meta.append((case, code))
    res = common.model_batch(reqs)
    for (case, code), (st, val) in zip(meta, res):
        rep.traces_validated += 1
        model = val[: len(code)] if st == "ok" else ["err", val]
        if model != code:
            rep.disagreement("c07.run (%s)" % case["kind"], case, val, code)


# ------------------------------------------------------------------ which tables can the recipe create? (macros, includes)
#
# Case "reach": {"macros": [macro…], "lib": None | {"macros": [macro…], "statements": [tmpl…]},
#                "statements": [tmpl…], "target": name, "n": N}
#   tmpl  = {"t": table, "inc": [macro names], "nested": [tmpl…], "friends": [tmpl…], "nick": name | None}
#   macro = {"name": name, "inc": [macro names], "nested": [tmpl…], "friends": [tmpl…]}
# "The recipe can create table X" = some template reachable from the top-level statements (of the main file
# and of include_file'd files) through nested fields, friends and *included* macros has table X.  It is
# computed here directly from the case (`reachable_tables`), independently of the Lean model.


def _render_tmpl(t, ind, counter):
    lines = [f"{ind}- object: {t['t']}"]
    if t.get("nick"):
        lines.append(f"{ind}  nickname: {t['nick']}")
    lines += _render_body(t, ind + "  ", counter)
    return lines


def _render_body(t, ind, counter):
    lines = []
    if t.get("inc"):
        lines.append(f"{ind}include: {', '.join(t['inc'])}")
    if t.get("nested"):
        lines.append(f"{ind}fields:")
        for k in t["nested"]:
            counter[0] += 1
            lines.append(f"{ind}  f{counter[0]}:")
            lines += _render_tmpl(k, ind + "    ", counter)
    if t.get("friends"):
        lines.append(f"{ind}friends:")
        for k in t["friends"]:
            lines += _render_tmpl(k, ind + "  ", counter)
    return lines


def _render_file(macros, statements, counter, include=None):
    out = []
    if include:
        out.append(f"- include_file: {include}")
    for m in macros:
        out.append(f"- macro: {m['name']}")
        body = _render_body(m, "  ", counter)
        out += body if body else ["  fields:", f"    z{counter[0]}: 1"]
    for t in statements:
        out += _render_tmpl(t, "", counter)
    return "\n".join(out) + "\n"


def render_reach(case):
    counter = [0]
    files = None
    if case.get("lib"):
        files = {"lib.yml": _render_file(case["lib"]["macros"], case["lib"]["statements"], counter)}
    return _render_file(case["macros"], case["statements"], counter, include="lib.yml" if files else None), files


def reachable_tables(case):
    """Tables of the templates reachable from the statements (declaration order of first reach)."""
    macros = {}
    for m in (case["lib"]["macros"] if case.get("lib") else []) + case["macros"]:
        macros[m["name"]] = m
    seen, expanding = [], []

    def body(x):
        for name in x.get("inc", []):
            m = macros[name]
            if name in expanding:
                raise ValueError("macro cycle")
            expanding.append(name)
            body(m)
            expanding.pop()
        for k in x.get("nested", []) + x.get("friends", []):
            tmpl(k)

    def tmpl(t):
        body(t)
        if t["t"] not in seen:
            seen.append(t["t"])

    for t in (case["lib"]["statements"] if case.get("lib") else []) + case["statements"]:
        tmpl(t)
    return seen


def _flat_tmpl(t):
    return {"t": t["t"], "inc": t.get("inc", []), "kids": [_flat_tmpl(k) for k in t.get("nested", []) + t.get("friends", [])]}


def reach_request(case):
    lib = case.get("lib") or {"macros": [], "statements": []}
    return {"m": "c07.tables", "fuel": 200,
            "macros": [{"name": m["name"], "inc": m.get("inc", []),
                        "kids": [_flat_tmpl(k) for k in m.get("nested", []) + m.get("friends", [])]}
                       for m in lib["macros"] + case["macros"]],
            "statements": [_flat_tmpl(t) for t in lib["statements"] + case["statements"]]}


def _all_names(case):
    """(tables occurring anywhere incl. unused macros, nicknames, macro names)"""
    tabs, nicks, mnames = [], [], []

    def walk(t):
        tabs.append(t["t"])
        if t.get("nick"):
            nicks.append(t["nick"])
        for k in t.get("nested", []) + t.get("friends", []):
            walk(k)

    lib = case.get("lib") or {"macros": [], "statements": []}
    for m in lib["macros"] + case["macros"]:
        mnames.append(m["name"])
        for k in m.get("nested", []) + m.get("friends", []):
            walk(k)
    for t in lib["statements"] + case["statements"]:
        walk(t)
    return tabs, nicks, mnames


def gen_reach_case(rng):
    fresh = iter(["A", "B", "C", "D", "F", "K"])
    ghosts = iter(["Ghost", "Ghost2", "Deep", "Ghost3"])

    def leaf(name, depth=0, ghost=False):
        t = {"t": name, "inc": [], "nested": [], "friends": []}
        if depth < 1 and rng.random() < 0.35:
            nm = next(ghosts if ghost else fresh, None)
            if nm:
                (t["nested"] if rng.random() < 0.5 else t["friends"]).append(leaf(nm, depth + 1, ghost))
        return t

    # macros that some reachable template includes
    used = []
    for i in range(rng.choice([0, 1, 1, 2])):
        m = {"name": f"used{i}", "inc": [], "nested": [], "friends": []}
        for _ in range(rng.choice([0, 1, 1, 2])):
            nm = next(fresh, None)
            if nm:
                (m["nested"] if rng.random() < 0.5 else m["friends"]).append(leaf(nm, 0))
        if i > 0 and rng.random() < 0.5:
            m["inc"].append("used0")
        used.append(m)
    # macros nobody includes (possibly including each other / a used macro)
    unused = []
    for i in range(rng.choice([0, 1, 1, 2])):
        m = {"name": f"spare{i}", "inc": [], "nested": [], "friends": []}
        for _ in range(rng.choice([1, 1, 2])):
            nm = next(ghosts, None)
            if nm:
                (m["nested"] if rng.random() < 0.5 else m["friends"]).append(leaf(nm, 0, ghost=True))
        if rng.random() < 0.3:
            m["friends"].append(leaf(T, 1))  # a table that also exists elsewhere
        if i > 0 and rng.random() < 0.6:
            m["inc"].append("spare0")
        if used and rng.random() < 0.4:
            m["inc"].append(rng.choice(used)["name"])
        unused.append(m)
    statements = [{"t": "M", "inc": [], "nested": [], "friends": []}]
    main = leaf(T, 0)
    main["nick"] = "nick"
    statements.append(main)
    hidden_used = rng.random() < 0.4
    if hidden_used:
        h = {"t": "__H", "inc": [], "nested": [], "friends": []}
        if rng.random() < 0.5:
            h["friends"].append(leaf("V", 1))
        statements.append(h)
    for _ in range(rng.choice([0, 1])):
        nm = next(fresh, None)
        if nm:
            statements.append(leaf(nm, 0))
    # every used macro is included by a reachable template (or by used1 -> used0)
    holders = [s for s in statements if s["t"] != "M"]
    for i, m in enumerate(used):
        if i == 0 and len(used) > 1 and "used0" in used[1]["inc"] and rng.random() < 0.5:
            continue
        rng.choice(holders)["inc"].append(m["name"])
    if len(used) > 1 and "used0" in used[1]["inc"] and not any("used1" in s["inc"] for s in holders):
        holders[0]["inc"].append("used1")
    statements.append({"t": "E", "inc": [], "nested": [], "friends": []})
    lib = None
    macros = used + unused
    if rng.random() < 0.35:
        # move some macros (and one statement) into an include_file'd library
        lm = [m for m in macros if rng.random() < 0.5]
        lib = {"macros": lm, "statements": [leaf("L", 1)] if rng.random() < 0.6 else []}
        macros = [m for m in macros if m not in lm]
        if not lib["macros"] and not lib["statements"]:
            lib = None
    if rng.random() < 0.15 and unused:
        # a hidden table that exists only in an unused macro
        unused[0]["friends"].append({"t": "__G", "inc": [], "nested": [], "friends": []})
    rng.shuffle(macros)
    case = {"kind": "reach", "macros": macros, "lib": lib, "statements": statements, "n": rng.choice([1, 2, 3])}
    reach = reachable_tables(case)
    tabs, nicks, mnames = _all_names(case)
    pools = {
        "created": [x for x in reach if not x.startswith("__")],
        "unused-macro-only": [x for x in tabs if x not in reach and not x.startswith("__")],
        "hidden": [x for x in tabs if x.startswith("__")],
        "nickname": nicks,
        "macro-name": mnames,
        "nowhere": ["Nowhere", "t", "ghost"],
    }
    cats = [c for c, v in pools.items() if v]
    cat = rng.choice(cats + (["unused-macro-only"] * 3 if pools["unused-macro-only"] else []))
    case["target"] = rng.choice(pools[cat])
    case["category"] = cat
    return case


def check_reach(cases, rep):
    reqs, meta = [], []
    for case in cases:
        recipe, files = render_reach(case)
        name, n = case["target"], case["n"]
        res = guarded_run(recipe, 600, target=(name, n), files=files)
        reach = reachable_tables(case)
        can_create = name in reach
        vis = not name.startswith("__")
        rep.case(case, nontrivial=bool(case["macros"] or case.get("lib")))
        rep.count("reach:target:" + case.get("category", "?"))
        rep.count("reach:outcome:" + res.outcome)
        if case.get("lib"):
            rep.count("reach:include_file")
        n_unused = sum(1 for m in case["macros"] + (case["lib"]["macros"] if case.get("lib") else [])
                       if m["name"].startswith("spare"))
        rep.count("reach:unused-macros:%d" % n_unused)
        what = f"target table {name!r} ({case.get('category')})"
        if not can_create:
            if res.outcome in ("ok", "runaway") or res.rows:
                rep.violation(SIG_NOTREJ,
                              f"{what}: no template reachable from the recipe's statements creates it, but the run "
                              f"was not rejected before the first row: outcome {res.outcome}, {len(res.rows)} rows written",
                              dict(case, recipe=recipe), "a recipe error before any row is written",
                              {"outcome": res.outcome, "rows": len(res.rows), "error": res.error})
            elif res.outcome != "recipe_error":
                rep.violation("C07:unknown-target-wrong-error",
                              f"{what}: rejected, but not with a recipe error: {res.error}",
                              dict(case, recipe=recipe), "recipe_error", res.outcome)
        elif vis:
            got = sum(1 for t, _ in res.rows if t == name)
            if res.outcome != "ok":
                rep.violation("C07:known-target-rejected",
                              f"{what}: the recipe creates this table, yet the run failed: {res.error}",
                              dict(case, recipe=recipe), "ok", {"outcome": res.outcome, "rows": len(res.rows)})
            elif got < n:
                rep.violation("C07:stopped-early", f"{what}: ended normally with {got} < {n} rows",
                              dict(case, recipe=recipe), n, got)
        else:
            rep.count("reach:hidden-creatable-target (no claim)")
        real_tables = list(res.tables.keys()) if getattr(res, "tables", None) is not None else None
        reqs.append(reach_request(case))
        meta.append((case, res, real_tables))
    out = common.model_batch(reqs)
    reqs2, meta2 = [], []
    for (case, res, real_tables), (st, val) in zip(meta, out):
        rep.traces_validated += 1
        if st != "ok" or val[0] != "ok":
            rep.disagreement("c07.tables", case, val, real_tables)
            continue
        if real_tables is not None and val[1] != real_tables:
            rep.disagreement("c07.tables", case, val[1], real_tables)
        reqs2.append({"m": "c07.run", "tables": val[1], "tname": case["target"], "count": case["n"], "cont": None,
                      "r": [], "rdef": 1})
        code = ["rejected"] if (res.outcome not in ("ok", "runaway") and not res.rows) else \
            ["finished"] if res.outcome == "ok" else [res.outcome]
        meta2.append((case, code))
    for (case, code), (st, val) in zip(meta2, common.model_batch(reqs2)):
        model = val[:1] if st == "ok" else ["err", val]
        if model != code:
            rep.disagreement("c07.run (reach)", case, val, code)


# ------------------------------------------------------------------ entry points


def check_cases(cases, rep):
    fn = [c for c in cases if c["kind"] == "fn"]
    e2e = [c for c in cases if c["kind"] == "e2e"]
    misc = [c for c in cases if c["kind"] in ("reps", "reject")]
    if fn:
        check_fn(fn, rep)
    if e2e:
        check_e2e(e2e, rep)
    if misc:
        check_misc(misc, rep)
    reach = [c for c in cases if c["kind"] == "reach"]
    if reach:
        check_reach(reach, rep)


def fixed_cases():
    cases = []
    # function level: every (N, start offset, constant r) combination around the boundaries
    for n in range(1, 8):
        for cont in (None, 0, 1, 4):
            for rr in (1, 2, 3):
                cases.append({"kind": "fn", "tname": T, "count": n, "continued": cont is not None, "cont": cont,
                              "r": [], "rdef": rr, "rows_table": T})
    for cont in (None, 0, 3):
        for r in ([0], [1, 0], [0, 0], [0, 1], [2, 0, 1], [0, 1, 0]):
            cases.append({"kind": "fn", "tname": T, "count": 5, "continued": cont is not None, "cont": cont,
                          "r": r, "rdef": 1, "rows_table": T})
    for k in (0, 1, 2, 5):
        cases.append({"kind": "fn", "tname": "__REPS__", "count": k, "continued": False, "cont": None, "r": [0, 2], "rdef": 0, "rows_table": T})
    # end to end: constant r, targets 1 .. 3r+1, fresh and continued
    for rr in (1, 2, 3):
        plan = {"dialect": 2, "feeds": [{"where": "top", "count": {"lit": rr}}]}
        for n in range(1, 3 * rr + 2):
            for first in (None, {"reps": 1}, {"reps": 2}):
                cases.append({"kind": "e2e", "plan": plan, "recipe": render(plan), "n": n, "first": first})
    # reps / no target
    for k in (None, 1, 2, 3, 5):
        for tc in ("1", "0"):
            for continued in (False, True):
                cases.append({"kind": "reps", "k": k, "tcount": tc, "continued": continued})
    # rejection
    for name in ("Q", "t", "nick", "v", "mac", "__H", "T ", "", "M", T):
        for continued in (False, True):
            cases.append({"kind": "reject", "target": name, "n": 2, "continued": continued})
    # tables that exist only inside a macro nobody includes (friend / nested), in the main file or in a library
    def tm(t, **kw):
        return dict({"t": t, "inc": [], "nested": [], "friends": []}, **kw)

    spare = {"name": "spare0", "inc": [], "nested": [tm("Deep")], "friends": [tm("Ghost")]}
    used = {"name": "used0", "inc": [], "nested": [], "friends": [tm("F")]}
    stm = [tm("M"), tm(T, inc=["used0"], nick="nick"), tm("__H", friends=[tm("V")]), tm("E")]
    for lib in (None, {"macros": [spare], "statements": [tm("L")]}):
        for target, cat in (("Ghost", "unused-macro-only"), ("Deep", "unused-macro-only"), ("F", "created"),
                            ("V", "created"), (T, "created"), ("__H", "hidden"), ("nick", "nickname"),
                            ("spare0", "macro-name"), ("Nowhere", "nowhere")):
            cases.append({"kind": "reach", "macros": [used] if lib else [used, spare], "lib": lib,
                          "statements": stm, "target": target, "n": 3, "category": cat})
    return cases


def run(ctx, rep, findings):
    rep.rule = (
        "fn: (target name, N, continuation offset, row-count sequence) driven through the real application "
        "methods with a real IdManager; e2e: generated recipes (marker M/E, 1-4 templates feeding T: top-level, "
        "nested, friend, just_once, literal/formula/absent counts, dialect 2/3), target N in 1..3r+1, fresh or "
        "continued after a first run (reps or target); reps/no-target; targets no template creates; reach: recipes "
        "with included and never-included macros (friends / nested templates of tables occurring nowhere else), "
        "include_file'd macro libraries, hidden templates; targets drawn from created tables, tables only in unused "
        "macros, hidden tables, nicknames, macro names, names occurring nowhere. "
        "Non-trivial: >= 2 boundaries or an error outcome. Distinct = distinct case hash."
    )
    cases = [f["input"] for f in findings if f.get("input")]
    cases += ctx.corpus()
    cases += fixed_cases()
    for _ in range(ctx.scale(1500, 30000)):
        cases.append(gen_fn_case(ctx.rng))
    check_cases(cases, rep)
    n_e2e = ctx.scale(1000, 20000)
    done = 0
    while done < n_e2e:
        if ctx.time_left() < 60:
            rep.notes.append(f"stopped early after {done} generated end-to-end cases: time budget")
            break
        batch = [gen_e2e_case(ctx.rng) for _ in range(min(150, n_e2e - done))]
        check_cases(batch, rep)
        done += len(batch)
    n_reach = ctx.scale(450, 5000)
    done = 0
    while done < n_reach:
        if ctx.time_left() < 40:
            rep.notes.append(f"stopped early after {done} generated reach cases: time budget")
            break
        batch = [gen_reach_case(ctx.rng) for _ in range(min(150, n_reach - done))]
        check_cases(batch, rep)
        done += len(batch)
    rep.extra["error_type_note"] = (
        "the progress error is a RuntimeError (outcome class internal:RuntimeError), not a recipe error; the "
        "C07 oracle accepts any exception type, see REPORT_C07.md"
    )


def shrink(case, signature):
    """Shrink the target / the row sequence of a failing case, keeping the oracle signature."""

    def fails(c):
        r = common.Report("C07")
        try:
            check_cases([c], r)
        except Exception:  # noqa
            return False
        return any(v["signature"] == signature for v in r.violations)

    if case.get("kind") == "fn":
        best = case
        for n in range(0, case["count"]):
            c = dict(best, count=n)
            if fails(c):
                best = c
                break
        if len(best["r"]) >= 2:
            r = common.shrink_list(best["r"], lambda rr: fails(dict(best, r=rr)))
            best = dict(best, r=r)
        return best
    if case.get("kind") == "e2e":
        best = case
        for n in range(1, case["n"]):
            c = dict(best, n=n)
            if fails(c):
                best = c
                break
        if best["first"] is not None and fails(dict(best, first=None)):
            best = dict(best, first=None)
        return best
    return case


def replay(case, rep):
    check_cases([case], rep)
