"""C15 — Schedule.Event emits exactly the occurrences of the recurrence it describes.

Three evaluations of every generated schedule (a `Schedule.Event` keyword set with nested
include / exclude entries):

  real    the plugin: `CalendarRule(**kwargs)` (both the `next()` path of a field and the
          iteration path of `for_each`) or an end-to-end recipe through `data_generator.generate`;
  model   the Lean model `SnowModel.Rrule` through the driver (`c15.eval`, plugin mode: the
          model of what the plugin does, quirks included);
  direct  an independent construction: `dateutil.rrule/rruleset` built straight from the recipe
          keywords (each keyword to the same-named argument, date-valued until/include/exclude
          read in the start's zone).  This is the *direct oracle* of the property.

real != direct           -> property violation (signature names the reproduced defect if the
                            difference is explained exactly by a known one, else generic)
real != model(plugin)    -> model/code disagreement
direct != model(intended)-> model/dateutil disagreement (the model of the RFC subset is wrong)
"""
import datetime as _dt
import itertools
import json
import os
import signal

from . import common

SPEC = {
    "lean": ["SnowModel.Props.C15", "SnowModel.Props.C15Bridge"],
    "pins": ["Schedule", "Memorable", "MemoState", "DateParse", "CallSite", "MacroParse"],
    "harness": "harness.c15",
    "technique": "Lean 4 theorems over a declarative RFC 5545 subset (calendar round trips, sorted/sound/complete occurrence enumeration, rruleset algebra, keyword wiring) + pins of the keyword wiring regenerated from the AST + three-way differential (plugin / Lean model / dateutil built directly from the keywords)",
    "level_text": "Machine-checked proofs about the model of the recurrence (proleptic Gregorian calendar round trips; occurrences strictly increasing, sound and complete w.r.t. the declarative `occursDay`/time-set predicate for every rule and bound; count = prefix; include/exclude = sorted de-duplicated set algebra; every keyword reaches the same-named rrule argument, normalised from the same-named parameter), tied to Schedule.py by a pinned wiring table with bridging lemmas and by differential runs of CalendarRule and end-to-end recipes against the model and against an independent dateutil construction.",
    "level_note": "Trusted: Lean kernel; py2lean; the harness; dateutil as the recurrence engine (its contract is exercised, not verified); PyYAML/dateutil.parser for reading dates. bysetpos/byeaster/cache: only gate and wiring. DST-bearing zones are outside the model (fixed offsets).",
    "assumptions": [
        "dateutil.rrule implements the RFC 5545 subset as modelled (exercised on every run: model(intended) vs direct construction)",
        "fixed-offset zones only; no DST-bearing tzinfo",
        "bysetpos, byeaster, cache are not modelled beyond the opt-in gate and the wiring pin",
    ],
    "budget": {"quick": 600, "thorough": 2400},
}

WD = ["MO", "TU", "WE", "TH", "FR", "SA", "SU"]
FREQS = ["YEARLY", "MONTHLY", "WEEKLY", "DAILY", "HOURLY", "MINUTELY", "SECONDLY"]
INT_KEYS = ["bymonth", "bymonthday", "byyearday", "byweekno", "byhour", "byminute", "bysecond"]
SPAN_DAYS = {"YEARLY": 366 * 12, "MONTHLY": 366 * 3, "WEEKLY": 400, "DAILY": 150}
SPAN_SECS = {"HOURLY": 86400 * 6, "MINUTELY": 3600 * 9, "SECONDLY": 60 * 25}
CAP = 400  # never pull more values than this from one schedule


# ------------------------------------------------------------------ time helpers


def tz_of(off):
    return _dt.timezone.utc if off in (None, 0) else _dt.timezone(_dt.timedelta(minutes=off))


def abs_of(dt):
    """aware datetime -> absolute seconds on the model's scale (ordinal*86400 + sod - utcoffset)"""
    off = dt.utcoffset()
    offs = int(off.total_seconds()) if off is not None else 0
    return dt.toordinal() * 86400 + dt.hour * 3600 + dt.minute * 60 + dt.second - offs, offs


def canon_val(v):
    if isinstance(v, _dt.datetime):
        a, o = abs_of(v)
        return ["dt", a, o, v.microsecond]
    if isinstance(v, _dt.date):
        return ["d", v.toordinal()]
    return ["other", repr(v)]


def canon_row_value(cv):
    """value captured by common.canon_value -> model output form"""
    if isinstance(cv, dict) and cv.get("t") == "datetime":
        return canon_val(_dt.datetime.fromisoformat(cv["v"]))
    if isinstance(cv, dict) and cv.get("t") == "date":
        return canon_val(_dt.date.fromisoformat(cv["v"]))
    return ["other", json.dumps(cv, default=str)]


def arg_date(a):
    y, m, d = a["ymd"]
    return _dt.date(y, m, d)


def arg_naive(a):
    y, m, d = a["ymd"]
    h, mi, s = a.get("hms") or [0, 0, 0]
    return _dt.datetime(y, m, d, h, mi, s, a.get("us") or 0)


def iso_of(a, sep="T"):
    y, m, d = a["ymd"]
    if a["k"] in ("date", "datestr"):
        return f"{y:04d}-{m:02d}-{d:02d}"
    h, mi, s = a.get("hms") or [0, 0, 0]
    out = f"{y:04d}-{m:02d}-{d:02d}{sep}{h:02d}:{mi:02d}:{s:02d}"
    if a.get("us"):
        out += f".{a['us']:06d}"
    off = a.get("off")
    if off is not None:
        sign = "+" if off >= 0 else "-"
        out += f"{sign}{abs(off)//60:02d}:{abs(off)%60:02d}"
    return out


def py_arg(a):
    """the Python object the plugin receives for a date-like keyword"""
    k = a["k"]
    if k == "date":
        return arg_date(a)
    if k in ("datestr", "dtstr"):
        return iso_of(a)
    if k == "dtobj":
        n = arg_naive(a)
        return n if a.get("off") is None else n.replace(tzinfo=tz_of(a["off"]))
    raise ValueError(k)


def start_aware(st):
    """the start as the aware datetime the recipe means"""
    if st["k"] in ("date", "datestr"):
        return _dt.datetime.combine(arg_date(st), _dt.time(0, 0, 0), tzinfo=_dt.timezone.utc)
    return arg_naive(st).replace(tzinfo=tz_of(st.get("off")))


def is_date_precision(st):
    return st["k"] in ("date", "datestr")


def wd_string(wds):
    return ",".join(WD[w] + (f"({n:+d})" if n else "") for w, n in wds)


def int_value(vals, lf, for_yaml=False):
    """how a list of ints is written: a single int, a comma string, or (Python API only) a list"""
    if lf == 0 and len(vals) == 1:
        return vals[0]
    if lf == 2 and not for_yaml:
        return list(vals)
    return ", ".join(str(v) for v in vals) if lf == 1 else ",".join(str(v) for v in vals)


# ------------------------------------------------------------------ the three constructions


class Timeout(Exception):
    pass


def _alarm(*_):
    raise Timeout()


def plugin_kwargs(s):
    """kwargs for CalendarRule; nested sets become CalendarRule objects (as the interpreter does)"""
    from snowfakery.standard_plugins.Schedule import CalendarRule

    p = s["p"]
    kw = {"freq": p["freq"] if not p.get("freq_lower") else p["freq"].lower(), "start_date": py_arg(p["start"])}
    for k in ("interval", "count"):
        if p.get(k) is not None:
            kw[k] = p[k]
    if p.get("until") is not None:
        kw["until"] = py_arg(p["until"])
    for k in INT_KEYS:
        if p.get(k) is not None:
            kw[k] = int_value(p[k], p.get("lf", 1))
    if p.get("byweekday") is not None:
        kw["byweekday"] = wd_string(p["byweekday"])
    for key in ("include", "exclude"):
        items = s.get(key) or []
        vals = []
        for it in items:
            if it["k"] == "set":
                vals.append(CalendarRule(**plugin_kwargs(it["set"])))
            else:
                vals.append(py_arg(it))
        if vals:
            kw[key] = vals[0] if len(vals) == 1 else vals
    return kw


def run_plugin(case, horizon):
    """Drive CalendarRule directly: `next()` (field path) or iteration (for_each path)."""
    from snowfakery.standard_plugins.Schedule import CalendarRule

    out = []
    try:
        cr = CalendarRule(**plugin_kwargs(case["set"]))
        if case["mode"] == "next":
            seen = []
            inner = cr.iterator

            def rec():
                for v in inner:
                    seen.append(v)
                    yield v

            cr.iterator = rec()
            while len(out) < CAP:
                try:
                    v = cr.next()
                except StopIteration:
                    return {"outcome": "ok", "out": out, "capped": False}
                if abs_of(seen[-1])[0] > horizon:
                    return {"outcome": "ok", "out": out, "capped": False}
                out.append(canon_val(v))
        else:
            for v in cr:
                if abs_of(v)[0] > horizon:
                    return {"outcome": "ok", "out": out, "capped": False}
                out.append(canon_val(v))
                if len(out) >= CAP:
                    break
            else:
                return {"outcome": "ok", "out": out, "capped": False}
        return {"outcome": "ok", "out": out, "capped": True}
    except Timeout:
        return {"outcome": "timeout", "out": out}
    except Exception as e:  # noqa
        return {"outcome": "error", "out": out, "error": f"{type(e).__name__}: {str(e)[:200]}"}


def yaml_scalar(a):
    if a["k"] in ("date", "dtobj"):
        return iso_of(a)
    return '"' + iso_of(a) + '"'


def yaml_event(s, indent, formula=None):
    p = s["p"]
    pad = " " * indent
    lines = [f"{pad}Schedule.Event:"]
    pad2 = pad + "  "
    lines.append(f"{pad2}freq: {p['freq'].lower() if p.get('freq_lower') else p['freq']}")
    lines.append(f"{pad2}start_date: {yaml_scalar(p['start'])}")
    for k in ("interval", "count"):
        if p.get(k) is not None:
            lines.append(f"{pad2}{k}: {p[k]}")
    if p.get("until") is not None:
        lines.append(f"{pad2}until: {yaml_scalar(p['until'])}")
    for k in INT_KEYS:
        if p.get(k) is not None:
            v = int_value(p[k], p.get("lf", 1), for_yaml=True)
            lines.append(f"{pad2}{k}: {v if isinstance(v, int) else json.dumps(v)}")
    if p.get("byweekday") is not None:
        lines.append(f"{pad2}byweekday: {json.dumps(wd_string(p['byweekday']))}")
    for key in ("include", "exclude"):
        items = s.get(key) or []
        if formula and items:
            # the multi-inclusion idiom of examples/schedule/complex_inclusions.recipe.yml: a formula
            # holding a tuple of dates and `Schedule.Event(...)` calls, inline or through a `var`
            lines.append(f"{pad2}{key}: " + (("${{" + key + "_v}}") if formula == "var" else yaml_quote(formula_tuple(items))))
        elif len(items) == 1:
            it = items[0]
            if it["k"] == "set":
                lines.append(f"{pad2}{key}:")
                lines += yaml_event(it["set"], indent + 4)
            else:
                lines.append(f"{pad2}{key}: {yaml_scalar(it)}")
        elif items:
            raise ValueError("recipes take one include / exclude entry")
    return lines


def yaml_quote(text):
    assert "'" not in text
    return "'" + text + "'"


def formula_call(s):
    """`Schedule.Event(freq="yearly", start_date="2000-01-01", count=2, ...)` — keyword order is the
    insertion order of the case's parameter dict"""
    p = s["p"]
    parts = []
    for k, v in p.items():
        if k in ("lf", "freq_lower") or v is None:
            continue
        if k == "freq":
            parts.append(f'freq="{v.lower() if p.get("freq_lower") else v}"')
        elif k == "start":
            parts.append(f'start_date="{iso_of(v)}"')
        elif k == "until":
            parts.append(f'until="{iso_of(v)}"')
        elif k in ("interval", "count"):
            parts.append(f"{k}={v}")
        elif k == "byweekday":
            parts.append(f'byweekday="{wd_string(v)}"')
        elif k in INT_KEYS:
            w = int_value(v, p.get("lf", 1), for_yaml=True)
            parts.append(f"{k}={w}" if isinstance(w, int) else f'{k}="{w}"')
        else:
            raise ValueError(k)
    if s.get("include") or s.get("exclude"):
        raise ValueError("formula calls are flat")
    return "Schedule.Event(" + ", ".join(parts) + ")"


def formula_tuple(items):
    out = []
    for it in items:
        if it["k"] == "set":
            out.append(formula_call(it["set"]))
        elif it["k"] in ("datestr", "dtstr"):
            out.append('"' + iso_of(it) + '"')
        else:
            raise ValueError("formula items are strings or calls")
    return "${{(" + ", ".join(out) + ("," if len(out) == 1 else "") + ")}}"


def recipe_text(case):
    head = ["- snowfakery_version: 3", "- plugin: snowfakery.standard_plugins.Schedule"]
    formula = case.get("formula")
    if formula == "var":
        for key in ("include", "exclude"):
            if case["set"].get(key):
                head += [f"- var: {key}_v", f"  value: {yaml_quote(formula_tuple(case['set'][key]))}"]
    if case["mode"] == "next":
        body = ["- object: E", f"  count: {case['n']}", "  fields:", "    t:"] + yaml_event(case["set"], 6, formula)
    else:
        body = ["- object: E", "  for_each:", "    var: ev", "    value:"] + yaml_event(case["set"], 6, formula)
        body += ["  fields:", "    t: ${{ev}}"]
    return "\n".join(head + body) + "\n"


def run_recipe_case(case):
    try:
        r = common.run_recipe(recipe_text(case), reps=1)
    except Timeout:
        return {"outcome": "timeout", "out": []}
    out = [canon_row_value(dict(f).get("t")) for t, f in r.rows if t == "E"]
    if r.outcome == "ok":
        return {"outcome": "ok", "out": out, "capped": case["mode"] == "next"}
    e, hops = r.exc, 0
    while e is not None and hops < 10:
        if isinstance(e, Timeout):
            return {"outcome": "timeout", "out": out}
        e, hops = (e.__cause__ or e.__context__), hops + 1
    exhausted = bool(r.error and "Could not generate enough values" in r.error)
    return {"outcome": "exhausted" if exhausted else "error", "out": out, "error": r.error, "kind": r.outcome}


def build_direct(s, variant=frozenset()):
    """dateutil objects straight from the keywords.  `variant` switches on reproductions of known
    repaired defects, kept as regression probes so that a relapse is reported under its recorded
    signature: 'weekno' (byweekno := bysecond; D13), 'utc' (date-valued until/include/exclude at UTC,
    datetime-string until re-labelled UTC; D21), 'untiltime' (datetime-object until keeps only its
    date; D35), 'frac' (date-valued include / exclude keep the microseconds of a fractional start;
    D53)."""
    from dateutil import rrule as R

    p = s["p"]
    if p.get("byweekno"):
        raise GatedError()
    st = start_aware(p["start"])
    kw = {"freq": getattr(R, p["freq"]), "dtstart": st, "wkst": R.SU}
    if p.get("interval") is not None:
        if isinstance(p["interval"], bool) or not isinstance(p["interval"], int) or p["interval"] < 1:
            raise ValueError("an interval below 1 describes no recurrence")
        kw["interval"] = p["interval"]
    if p["freq"] in SPAN_SECS and is_date_precision(p["start"]):
        raise ValueError("a sub-daily frequency needs a datetime start")
    if p.get("count") is not None:
        kw["count"] = p["count"]
    u = p.get("until")
    if u is not None:
        if u["k"] in ("date", "datestr"):
            t = _dt.datetime.combine(arg_date(u), st.timetz().replace(tzinfo=None))
            kw["until"] = t.replace(tzinfo=_dt.timezone.utc if "utc" in variant else st.tzinfo)
        elif u["k"] == "dtobj" and "untiltime" in variant:
            t = _dt.datetime.combine(arg_date(u), st.timetz().replace(tzinfo=None))
            kw["until"] = t.replace(tzinfo=_dt.timezone.utc)
        elif u["k"] == "dtstr" and "utc" in variant:
            kw["until"] = arg_naive(u).replace(tzinfo=_dt.timezone.utc)
        else:
            kw["until"] = arg_naive(u).replace(tzinfo=tz_of(u.get("off")))
    for k in INT_KEYS:
        if p.get(k) is not None:
            kw[k] = list(p[k])
    if "weekno" in variant:
        kw["byweekno"] = list(p["bysecond"]) if p.get("bysecond") is not None else None
    if p.get("byweekday") is not None:
        kw["byweekday"] = [R.weekday(w)(n) if n else R.weekday(w) for w, n in p["byweekday"]]
    rs = R.rruleset()
    rs.rrule(R.rrule(**kw))
    for key, add_date, add_rule in (("exclude", rs.exdate, rs.exrule), ("include", rs.rdate, rs.rrule)):
        for it in s.get(key) or []:
            if it["k"] == "set":
                add_rule(build_direct(it["set"], variant))
            elif it["k"] == "dtobj":
                add_date(arg_naive(it).replace(tzinfo=tz_of(it.get("off"))))
            else:  # a date (object or string; a datetime string is read as its date)
                # "that date's occurrence": the start's time of day as the rule emits it (rrule drops
                # the microseconds of dtstart); variant 'frac' keeps them (D53)
                tod = st.timetz().replace(tzinfo=None) if "frac" in variant else st.timetz().replace(tzinfo=None, microsecond=0)
                t = _dt.datetime.combine(arg_date(it), tod)
                add_date(t.replace(tzinfo=_dt.timezone.utc if "utc" in variant else st.tzinfo))
    return rs


class GatedError(Exception):
    pass


def run_direct(case, horizon, cap, variant=frozenset()):
    out = []
    try:
        rs = build_direct(case["set"], variant)
        datep = is_date_precision(case["set"]["p"]["start"]) and case["mode"] == "next"
        for v in rs:
            if abs_of(v)[0] > horizon:
                return {"outcome": "ok", "out": out, "capped": False}
            out.append(canon_val(v.date() if datep else v))
            if len(out) >= cap:
                return {"outcome": "ok", "out": out, "capped": True}
        return {"outcome": "ok", "out": out, "capped": False}
    except Timeout:
        return {"outcome": "timeout", "out": out}
    except GatedError:
        return {"outcome": "error", "out": [], "error": "gated"}
    except Exception as e:  # noqa
        return {"outcome": "error", "out": out, "error": f"{type(e).__name__}: {str(e)[:200]}"}


# ------------------------------------------------------------------ model request


def model_arg(a):
    y, m, d = a["ymd"]
    o = _dt.date(y, m, d).toordinal()
    if a["k"] in ("date", "datestr"):
        return {"k": "date", "ord": o}
    h, mi, s = a.get("hms") or [0, 0, 0]
    off = a.get("off")
    return {"k": a["k"], "ord": o, "sod": h * 3600 + mi * 60 + s, "us": a.get("us") or 0, "off": None if off is None else off * 60}


def model_set(s):
    p = s["p"]
    st = start_aware(p["start"])
    a, off = abs_of(st)
    mp = {
        "freq": p["freq"],
        "sord": st.toordinal(),
        "ssod": st.hour * 3600 + st.minute * 60 + st.second,
        "sus": st.microsecond,
        "off": off,
        "dprec": is_date_precision(p["start"]),
        "interval": 1 if p.get("interval") is None else p["interval"],
        "count": p.get("count"),
        "until": None if p.get("until") is None else model_arg(p["until"]),
        "byweekday": None if p.get("byweekday") is None else [[w, n] for w, n in p["byweekday"]],
    }
    for k in INT_KEYS:
        mp[k] = None if p.get(k) is None else list(p[k])
    out = {"p": mp}
    for key in ("include", "exclude"):
        out[key] = [
            {"k": "set", "set": model_set(it["set"])} if it["k"] == "set" else model_arg(it)
            for it in (s.get(key) or [])
        ]
    return out


def horizon_of(case):
    if case.get("horizon") is not None:
        return case["horizon"]
    p = case["set"]["p"]
    a, _ = abs_of(start_aware(p["start"]))
    if p["freq"] in SPAN_DAYS:
        return a + SPAN_DAYS[p["freq"]] * 86400 * max(1, min(p.get("interval") or 1, 3))
    return a + SPAN_SECS[p["freq"]] * max(1, min(p.get("interval") or 1, 3))


# ------------------------------------------------------------------ comparison and the oracle


def quirks_present(s):
    """which known-defect reproductions could matter for this schedule (to bound the variant search)"""
    q = set()
    p = s["p"]
    if p.get("bysecond") is not None or p.get("byweekno") is not None:
        q.add("weekno")  # regression probe for the repaired D13 (fixed by 5a30154)
    u = p.get("until")
    if u is not None:
        if u["k"] == "dtobj":
            q.add("untiltime")
        q.add("utc")
    for key in ("include", "exclude"):
        for it in s.get(key) or []:
            if it["k"] == "set":
                q |= quirks_present(it["set"])
            elif it["k"] != "dtobj":
                q.add("utc")
                if p["start"].get("us"):
                    q.add("frac")
    return q


def has_naive_dt_arg(s):
    for key in ("include", "exclude"):
        for it in s.get(key) or []:
            if it["k"] == "set":
                if has_naive_dt_arg(it["set"]):
                    return True
            elif it["k"] == "dtobj" and it.get("off") is None:
                return True
    return False


SIG = {
    "weekno": "C15:bysecond-feeds-byweekno",
    "utc": "C15:date-args-forced-to-utc",
    "untiltime": "C15:until-datetime-loses-time",
    "frac": "C15:fractional-start-date-args",
}


def cut(r, horizon):
    """Restrict a result to the values certainly within the horizon (datetimes by instant, dates
    with two days of slack for zones); a capped run that lost values to the cut is complete."""
    if r["outcome"] not in ("ok", "exhausted"):
        return r
    lim_d = horizon // 86400 - 2
    vals = [v for v in r["out"] if (v[0] == "dt" and v[1] <= horizon) or (v[0] == "d" and v[1] <= lim_d)]
    capped = bool(r.get("capped")) and r["outcome"] == "ok" and len(vals) == len(r["out"])
    return {"outcome": "ok", "out": vals, "capped": capped}


ERROR_KINDS = [
    ("gated", ("undocumented", "gated")),
    ("badInterval", ("positive integer", "interval below 1", "badInterval")),
    ("needsDatetime", ("should be a datetime", "needs a datetime start", "needsDatetime")),
    ("emptyRule", ("generates an empty set", "Invalid combination", "empty rule", "emptyRule")),
    ("badTime", ("must be in 0..", "badTime")),
    ("naive", ("offset-naive",)),
]


def error_kind(r):
    """which of the modelled rejections an error outcome is (by its message)"""
    msg = r.get("error") or ""
    for kind, needles in ERROR_KINDS:
        if any(n in msg for n in needles):
            return kind
    return "other:" + msg[:80]


def same(a, b, horizon, kinds=False):
    """equality of two evaluation results on what both observed; None = inconclusive.
    `kinds`: two errors only agree when they are the same kind of rejection."""
    if a["outcome"] == "timeout" or b["outcome"] == "timeout":
        return None
    ea, eb = a["outcome"] == "error", b["outcome"] == "error"
    if ea and eb:
        ka, kb = error_kind(a), error_kind(b)
        if not kinds or ka.startswith("other:") or kb.startswith("other:"):
            return True  # errors outside the modelled rejections are not told apart
        return ka == kb
    if ea or eb:
        return False
    a, b = cut(a, horizon), cut(b, horizon)
    xa, xb = a["out"], b["out"]
    if a["capped"] and b["capped"]:
        n = min(len(xa), len(xb))
        return xa[:n] == xb[:n]
    if a["capped"] or b["capped"]:
        capped, full = (a, b) if a["capped"] else (b, a)
        return full["out"][: len(capped["out"])] == capped["out"] and len(full["out"]) >= len(capped["out"])
    return xa == xb


def sets_with_bad_interval(s):
    out = []
    iv = s["p"].get("interval")
    if iv is not None and iv < 1:
        out.append(s)
    for key in ("include", "exclude"):
        for it in s.get(key) or []:
            if it["k"] == "set":
                out += sets_with_bad_interval(it["set"])
    return out


def accepts_bad_interval(case):
    """An interval below 1 describes no recurrence (dateutil would loop forever): *constructing*
    the rule must already fail.  Construction alone never loops, so this is not a timing test."""
    from snowfakery.standard_plugins.Schedule import CalendarRule

    for s in sets_with_bad_interval(case["set"]):
        flat = {"p": s["p"]}
        try:
            CalendarRule(**plugin_kwargs(flat))
        except Exception:  # noqa
            continue
        return True
    return False


def is_flat(s):
    """no nested schedule: a single place an error can come from, so error kinds are comparable
    (with nested events the plugin builds the inner rule first, the model checks the outer first)"""
    return not any(it["k"] == "set" for key in ("include", "exclude") for it in (s.get(key) or []))


def evaluate_case(case):
    """Runs in a worker process: the plugin, the direct construction, and the classification."""
    signal.signal(signal.SIGALRM, _alarm)
    horizon = horizon_of(case)
    res = {"horizon": horizon}
    if sets_with_bad_interval(case["set"]) and accepts_bad_interval(case):
        res["real"] = {"outcome": "timeout", "out": [], "error": "a CalendarRule with interval < 1 was constructed (not iterated: it would not return)"}
        res["direct"] = {"outcome": "error", "out": [], "error": "an interval below 1 describes no recurrence"}
        res["oracle"] = "fail"
        res["sigs"] = ["C15:nonpositive-interval-accepted"]
        return res
    signal.alarm(case.get("timeout", 3))
    try:
        if case["kind"] == "recipe":
            real = run_recipe_case(case)
        else:
            real = run_plugin(case, horizon)
    except Timeout:
        real = {"outcome": "timeout", "out": []}
    finally:
        signal.alarm(0)
    cap = CAP
    if case["kind"] == "recipe" and case["mode"] == "next":
        cap = case["n"]
    signal.alarm(case.get("timeout", 3))
    try:
        direct = run_direct(case, horizon, cap)
    except Timeout:
        direct = {"outcome": "timeout", "out": []}
    finally:
        signal.alarm(0)
    if case["kind"] == "recipe" and case["mode"] == "next" and real["outcome"] == "ok":
        real["capped"] = True
    res["real"] = real
    res["direct"] = direct
    eq = same(real, direct, horizon, kinds=is_flat(case["set"]))
    res["oracle"] = "inconclusive" if eq is None else ("pass" if eq else "fail")
    res["sigs"] = []
    if eq is False:
        q = sorted(quirks_present(case["set"]))
        found = None
        for k in range(1, len(q) + 1):
            for sub in itertools.combinations(q, k):
                signal.alarm(case.get("timeout", 3))
                try:
                    alt = run_direct(case, horizon, cap, frozenset(sub))
                except Timeout:
                    alt = {"outcome": "timeout", "out": []}
                finally:
                    signal.alarm(0)
                if same(real, alt, horizon, kinds=is_flat(case["set"])) is True:
                    found = sub
                    break
            if found:
                break
        if found:
            res["sigs"] = [SIG[x] for x in found]
        elif real["outcome"] == "error" and has_naive_dt_arg(case["set"]) and "offset-naive" in (real.get("error") or ""):
            res["sigs"] = ["C15:naive-datetime-include-exclude"]
        else:
            res["sigs"] = ["C15:plugin-differs-from-recurrence"]
    return res


def _worker(case):
    try:
        if case.get("kind") == "sites":
            return evaluate_sites(case)
        return evaluate_case(case)
    except Exception as e:  # noqa  (a crash of the harness itself must be visible)
        import traceback

        return {"crash": traceback.format_exc()[-1500:]}


def _preload():
    """Import everything the workers need *before* forking and before any alarm is armed: an
    alarm that fires in the middle of a first import leaves half-initialised modules behind."""
    import dateutil.parser  # noqa: F401
    import dateutil.rrule  # noqa: F401
    import snowfakery.api  # noqa: F401
    import snowfakery.data_generator  # noqa: F401
    import snowfakery.data_generator_runtime  # noqa: F401
    import snowfakery.output_streams  # noqa: F401
    import snowfakery.standard_plugins.Schedule  # noqa: F401
    import yaml  # noqa: F401


def evaluate_all(cases):
    import multiprocessing as mp

    _preload()

    n = min(12, max(1, (os.cpu_count() or 2) - 2))
    if len(cases) < 4:
        return [_worker(c) for c in cases]
    ctx = mp.get_context("fork")
    with ctx.Pool(n) as pool:
        return pool.map(_worker, cases, chunksize=8)


def model_out(val):
    if val.get("outcome") != "ok":
        return {"outcome": "error", "out": [], "error": val.get("outcome")}
    return {"outcome": "ok", "out": val["out"], "capped": False}


def blur_ties(r, ties):
    """two sources of one instant in different zones: rruleset emits whichever its heap pops first;
    the model does not predict which, so the offset of such a value is not compared"""
    if not ties or r["outcome"] not in ("ok", "exhausted"):
        return r
    return dict(r, out=[["dt", v[1], "*", v[3]] if v[0] == "dt" and v[1] in ties else v for v in r["out"]])


def check_cases(cases, rep):
    sites = [c for c in cases if c.get("kind") == "sites"]
    if sites:
        check_site_cases(sites, rep)
        cases = [c for c in cases if c.get("kind") != "sites"]
        if not cases:
            return
    results = evaluate_all(cases)
    reqs = []
    for case, res in zip(cases, results):
        if "crash" in res:
            raise RuntimeError("harness worker crashed: " + res["crash"])
        ms = model_set(case["set"])
        via_next = case["mode"] == "next"
        reqs.append({"m": "c15.eval", "horizon": res["horizon"], "viaNext": via_next, "set": ms})
        reqs.append({"m": "c15.eval", "horizon": res["horizon"], "viaNext": via_next, "set": ms, "intended": True})
    mres = common.model_batch(reqs)
    for i, (case, res) in enumerate(zip(cases, results)):
        real, direct = res["real"], res["direct"]
        p = case["set"]["p"]
        via_next = case["mode"] == "next"
        nontrivial = real["outcome"] == "ok" and len(real["out"]) >= 2
        rep.case(case, nontrivial=nontrivial)
        rep.count("kind:" + case["kind"] + ":" + case["mode"] + (":formula-" + case["formula"] if case.get("formula") else ""))
        if case.get("formula"):
            for key in ("include", "exclude"):
                calls = [it for it in case["set"].get(key) or [] if it["k"] == "set"]
                if len(calls) >= 2:
                    rep.count("formula:" + key + ":calls>=2")
                    names = [tuple(k for k in it["set"]["p"] if k not in ("lf", "freq_lower")) for it in calls]
                    if len(set(names)) == 1:
                        rep.count("formula:same-keyword-names")
        rep.count("freq:" + p["freq"])
        rep.count("real:" + real["outcome"])
        if real["outcome"] == "error":
            rep.count("real-error-kind:" + error_kind(real).split(":")[0])
        rep.count("oracle:" + res["oracle"])
        for k in INT_KEYS + ["byweekday", "until", "count"]:
            if p.get(k) is not None:
                rep.count("uses:" + k)
        if p.get("byweekday") is not None and len({w for w, _ in p["byweekday"]}) < len(p["byweekday"]):
            rep.count("uses:weekday-named-twice")
        if p.get("interval") is not None and p["interval"] < 1:
            rep.count("uses:interval<1")
        if case["set"].get("include"):
            rep.count("uses:include")
        if case["set"].get("exclude"):
            rep.count("uses:exclude")
        if (p["start"].get("off") or 0) != 0:
            rep.count("uses:non-utc-start")
        rep.count("values", len(real["out"]))
        # ---- direct oracle
        for sig in res["sigs"]:
            rep.violation(
                sig,
                describe(sig, case, real, direct),
                case,
                expected=summary(direct),
                observed=summary(real),
            )
        # ---- model vs code
        (st1, v1), (st2, v2) = mres[2 * i], mres[2 * i + 1]
        if st1 != "ok" or st2 != "ok":
            rep.disagreement("c15.eval:driver-error", case, [v1, v2], None)
            continue
        m_plugin, m_int = model_out(v1), model_out(v2)
        if v1.get("outcome") == "outside" or v2.get("outcome") == "outside":
            rep.count("model:outside-fragment")
        if v1.get("outcome") != "outside":
            ties = set(v1.get("ties") or [])
            eq = same(blur_ties(real, ties), blur_ties(m_plugin, ties), res["horizon"], kinds=is_flat(case["set"]))
            if eq is False and ties and via_next and is_date_precision(p["start"]):
                eq = None  # the date of a tied instant depends on which zone was emitted
            if eq is None:
                rep.count("model-vs-code:inconclusive")
            else:
                rep.traces_validated += 1
                if not eq:
                    rep.disagreement("c15.eval(plugin) vs CalendarRule", case, summary(m_plugin), summary(real))
        if v2.get("outcome") != "outside":
            ties = set(v2.get("ties") or [])
            eq = same(blur_ties(direct, ties), blur_ties(m_int, ties), res["horizon"], kinds=is_flat(case["set"]))
            if eq is False and ties and via_next and is_date_precision(p["start"]):
                eq = None
            if eq is None:
                rep.count("model-vs-dateutil:inconclusive")
            else:
                rep.count("model-vs-dateutil:compared")
                if not eq:
                    rep.disagreement("c15.eval(intended) vs dateutil built from the keywords", case, summary(m_int), summary(direct))


def summary(r):
    return {"outcome": r["outcome"], "n": len(r["out"]), "first": r["out"][:12], "error": r.get("error")}


def show(v):
    if v[0] == "d":
        return _dt.date.fromordinal(v[1]).isoformat()
    if v[0] == "dt":
        a, off = v[1], v[2]
        loc = a + off
        d = _dt.date.fromordinal(loc // 86400)
        t = loc % 86400
        sign = "+" if off >= 0 else "-"
        frac = f".{v[3]:06d}" if len(v) > 3 and v[3] else ""
        return f"{d.isoformat()}T{t//3600:02d}:{t%3600//60:02d}:{t%60:02d}{frac}{sign}{abs(off)//3600:02d}:{abs(off)%3600//60:02d}"
    return str(v)


def describe(sig, case, real, direct):
    r = [show(v) for v in real["out"][:5]]
    d = [show(v) for v in direct["out"][:5]]
    return (
        f"{sig}: Schedule.Event({json.dumps(case['set'], default=str)[:400]}) gives {real['outcome']} {r} "
        f"but the recurrence described by its keywords is {direct['outcome']} {d}"
    )



# ------------------------------------------------------------------ call sites (one Event text, several places)


def flow_event(s):
    """`{Schedule.Event: {freq: daily, start_date: "2024-03-01", ...}}` on one line (flat sets)"""
    p = s["p"]
    parts = [f"freq: {p['freq'].lower() if p.get('freq_lower') else p['freq']}", f"start_date: {yaml_scalar(p['start'])}"]
    for k in ("interval", "count"):
        if p.get(k) is not None:
            parts.append(f"{k}: {p[k]}")
    if p.get("until") is not None:
        parts.append(f"until: {yaml_scalar(p['until'])}")
    for k in INT_KEYS:
        if p.get(k) is not None:
            v = int_value(p[k], p.get("lf", 1), for_yaml=True)
            parts.append(f"{k}: {v if isinstance(v, int) else json.dumps(v)}")
    if p.get("byweekday") is not None:
        parts.append(f"byweekday: {json.dumps(wd_string(p['byweekday']))}")
    for key in ("include", "exclude"):
        items = s.get(key) or []
        if len(items) == 1 and items[0]["k"] != "set":
            parts.append(f"{key}: {yaml_scalar(items[0])}")
        elif items:
            raise ValueError("flow events are flat")
    return "{Schedule.Event: {" + ", ".join(parts) + "}}"


def sites_recipe(case):
    """-> (recipe text, files, consumers) ; consumers = [(table, field, 'next' | 'for_each')]"""
    lay = case["layout"]
    s = case["set"]
    head = ["- snowfakery_version: 3", "- plugin: snowfakery.standard_plugins.Schedule"]
    body, files, consumers = [], None, []
    if "macro" in lay:
        m = lay["macro"]
        macro = ["- macro: sched", "  fields:", "    t:"] + yaml_event(s, 6)
        if m.get("in_file"):
            files = {"inc.yml": "\n".join(["- plugin: snowfakery.standard_plugins.Schedule"] + macro) + "\n"}
            head.append("- include_file: inc.yml")
        else:
            body += macro
        body += ["- object: A", f"  count: {m['a']}", "  include: sched"]
        consumers.append(("A", "t", "next"))
        body += ["- object: B", f"  count: {m['b']}", "  include: sched"]
        consumers.append(("B", "t", "next"))
        if m.get("c"):
            body += ["  friends:", "    - object: C", f"      count: {m['c']}", "      include: sched"]
            consumers.append(("C", "t", "next"))
        if m.get("d"):
            # a third consumer that nests the including template as a field value
            body += ["- object: D", f"  count: {m['d']}", "  fields:", "    child:", "      - object: Dchild", "        include: sched"]
            consumers.append(("Dchild", "t", "next"))
    if "flow" in lay:
        f = lay["flow"]
        body += ["- object: F", f"  count: {f['n']}", "  fields:", f"    x: {flow_event(s)}", f"    y: {flow_event(s)}"]
        consumers += [("F", "x", "next"), ("F", "y", "next")]
        if f.get("again"):
            body += ["- object: G", f"  count: {f['again']}", "  fields:", f"    x: {flow_event(s)}"]
            consumers.append(("G", "x", "next"))
    if "foreach" in lay:
        body += ["- object: H", "  for_each:", "    var: ev", "    value:"] + yaml_event(s, 6)
        body += ["  fields:", "    t: ${{ev}}", "    u:"] + yaml_event(s, 6)
        consumers += [("H", "t", "for_each"), ("H", "u", "next")]
    return "\n".join(head + body) + "\n", files, consumers


def rows_needed(case):
    """the largest number of values any field call site of the recipe asks for"""
    lay = case["layout"]
    need = []
    if "macro" in lay:
        m = lay["macro"]
        need += [m["a"], m["b"], m["b"] * (m.get("c") or 0), m.get("d") or 0]
    if "flow" in lay:
        need += [lay["flow"]["n"], lay["flow"].get("again") or 0]
    if "foreach" in lay:
        need.append(1)
    return max(need)


def evaluate_sites(case):
    """Worker: run the recipe, split the rows per call site, build the expected sequences."""
    signal.signal(signal.SIGALRM, _alarm)
    horizon = horizon_of(case)
    text, files, consumers = sites_recipe(case)
    res = {"horizon": horizon, "consumers": consumers, "sigs": []}
    signal.alarm(case.get("timeout", 5))
    try:
        r = common.run_recipe(text, reps=1, files=files)
        timed_out = False
        e, hops = r.exc, 0
        while e is not None and hops < 10:
            if isinstance(e, Timeout):
                timed_out = True
            e, hops = (e.__cause__ or e.__context__), hops + 1
    except Timeout:
        r, timed_out = None, True
    finally:
        signal.alarm(0)
    if timed_out or r is None:
        res["real"] = {"outcome": "timeout"}
        res["oracle"] = "inconclusive"
        return res
    seqs = {}
    for table, fields in r.rows:
        for k, v in fields:
            if k != "id" and not (isinstance(v, dict) and v.get("t") == "ref"):
                seqs.setdefault(f"{table}.{k}", []).append(canon_row_value(v))
    res["real"] = {"outcome": "ok" if r.outcome == "ok" else "error", "error": r.error, "seqs": seqs}
    exp = {}
    for mode in ("next", "for_each"):
        signal.alarm(case.get("timeout", 5))
        try:
            exp[mode] = run_direct(dict(case, mode=mode), horizon, CAP)
        except Timeout:
            exp[mode] = {"outcome": "timeout", "out": []}
        finally:
            signal.alarm(0)
    res["direct"] = exp
    verdicts = []
    res["real"]["exhausted"] = bool(r.error and "Could not generate enough values" in r.error)
    if r.outcome != "ok":
        # the whole recipe failed: legitimate only if the recurrence itself is rejected, or if it
        # really has fewer values than some call site asks for
        d = exp["next"]
        if d["outcome"] == "timeout":
            verdicts.append(None)
        elif res["real"]["exhausted"]:
            verdicts.append(d["outcome"] == "ok" and not d.get("capped") and len(cut(d, horizon)["out"]) < rows_needed(case))
        else:
            verdicts.append(d["outcome"] == "error")
    else:
        n_foreach = None
        for table, field, mode in consumers:
            got = {"outcome": "ok", "out": seqs.get(f"{table}.{field}", []), "capped": mode == "next"}
            verdicts.append(same(got, exp[mode], horizon))
    if any(v is False for v in verdicts):
        res["oracle"] = "fail"
        res["sigs"] = ["C15:call-site-sequence-differs"]
    elif any(v is None for v in verdicts):
        res["oracle"] = "inconclusive"
    else:
        res["oracle"] = "pass"
    return res


def check_site_cases(cases, rep):
    results = evaluate_all(cases)
    reqs = []
    for case, res in zip(cases, results):
        if "crash" in res:
            raise RuntimeError("harness worker crashed: " + res["crash"])
        ms = model_set(case["set"])
        for via_next in (True, False):
            reqs.append({"m": "c15.eval", "horizon": res["horizon"], "viaNext": via_next, "set": ms})
    mres = common.model_batch(reqs)
    for i, (case, res) in enumerate(zip(cases, results)):
        real = res["real"]
        rows = sum(len(v) for v in (real.get("seqs") or {}).values())
        rep.case(case, nontrivial=real["outcome"] == "ok" and rows >= 4)
        rep.count("kind:sites:" + "+".join(sorted(case["layout"])))
        rep.count("freq:" + case["set"]["p"]["freq"])
        rep.count("real:" + real["outcome"])
        rep.count("oracle:" + res["oracle"])
        rep.count("values", rows)
        rep.count("call-sites", len(res["consumers"]))
        for sig in res["sigs"]:
            text, files, _ = sites_recipe(case)
            got = {k: [show(v) for v in vs[:6]] for k, vs in (real.get("seqs") or {}).items()}
            want = [show(v) for v in res["direct"]["next"]["out"][:6]]
            rep.violation(
                sig,
                f"{sig}: every place a Schedule.Event is written must produce, row by row, the occurrences of its own "
                f"recurrence from start_date ({want} ...), but the call sites of this recipe produced {got} "
                f"({real.get('error') or 'no error'})\n{text}" + (f"\n# inc.yml\n{files['inc.yml']}" if files else ""),
                case,
                expected={"each call site": want},
                observed={"outcome": real["outcome"], "error": real.get("error"), "per call site": got},
            )
        if real["outcome"] == "timeout":
            rep.count("model-vs-code:inconclusive")
            continue
        for j, mode in enumerate(("next", "for_each")):
            st, v = mres[2 * i + j]
            if st != "ok":
                rep.disagreement("c15.eval:driver-error", case, v, None)
                continue
            if v.get("outcome") == "outside":
                rep.count("model:outside-fragment")
                continue
            m = model_out(v)
            if real["outcome"] != "ok":
                if j == 0:
                    rep.traces_validated += 1
                    agrees = (m["outcome"] == "ok" and len(cut(m, res["horizon"])["out"]) < rows_needed(case)) if real.get("exhausted") else m["outcome"] == "error"
                    if not agrees:
                        rep.disagreement("c15.eval(plugin) vs recipe with several call sites", case, summary(m), {"outcome": "error", "error": real.get("error")})
                continue
            for table, field, cmode in res["consumers"]:
                if cmode != mode:
                    continue
                got = {"outcome": "ok", "out": real["seqs"].get(f"{table}.{field}", []), "capped": cmode == "next"}
                eq = same(got, m, res["horizon"])
                if eq is None:
                    rep.count("model-vs-code:inconclusive")
                    continue
                rep.traces_validated += 1
                if not eq:
                    rep.disagreement(f"c15.eval(plugin) vs call site {table}.{field}", case, summary(m), summary(got))


def gen_sites_case(rng):
    """one Event text written at several call sites"""
    lay_names = rng.choice([["macro"], ["macro"], ["macro", "flow"], ["flow"], ["foreach"], ["foreach", "flow"]])
    flat = "flow" in lay_names
    s = gen_set(rng, clean=True, single=True, sub_ok=rng.random() < 0.3)
    if flat:
        for key in ("include", "exclude"):
            if s.get(key) and s[key][0]["k"] == "set":
                del s[key]
        if s["p"]["start"]["k"] in ("date", "dtobj"):
            s["p"]["start"]["k"] = {"date": "datestr", "dtobj": "dtstr"}[s["p"]["start"]["k"]]
        for key in ("include", "exclude"):
            for it in s.get(key) or []:
                if it["k"] in ("date", "dtobj"):
                    it["k"] = {"date": "datestr", "dtobj": "dtstr"}[it["k"]]
        u = s["p"].get("until")
        if u and u["k"] in ("date", "dtobj"):
            u["k"] = {"date": "datestr", "dtobj": "dtstr"}[u["k"]]
    s["p"]["lf"] = rng.choice([0, 1])
    s["p"].pop("byweekno", None)
    if s["p"].get("interval") is not None and s["p"]["interval"] < 1:
        s["p"]["interval"] = 2
    fix_lf(s)
    s["p"].pop("until", None)
    s["p"].pop("count", None)
    lay = {}
    if "foreach" in lay_names:
        c = rng.choice([2, 3, 5, 8])
        s["p"]["count"] = c
        lay["foreach"] = {}
        if "flow" in lay_names:
            lay["flow"] = {"n": rng.randint(1, c)}
    else:
        if "macro" in lay_names:
            m = {"a": rng.randint(1, 5), "b": rng.randint(1, 4), "in_file": rng.random() < 0.3}
            if rng.random() < 0.5:
                m["c"] = rng.randint(1, 3)
            if rng.random() < 0.35:
                m["d"] = rng.randint(1, 4)
            lay["macro"] = m
        if "flow" in lay_names:
            lay["flow"] = {"n": rng.randint(1, 6)}
            if rng.random() < 0.4:
                lay["flow"]["again"] = rng.randint(1, 4)
    return {"kind": "sites", "mode": "next", "layout": lay, "set": s}


# ------------------------------------------------------------------ generators


def rnd_date(rng):
    y = rng.choice([2023, 2024, 2024, 2025, 2027, 2028, 2031, 2096, 2100])
    base = _dt.date(y, 1, 1).toordinal()
    ylen = _dt.date(y, 12, 31).toordinal() - base + 1
    r = rng.random()
    try:
        if r < 0.15:
            return _dt.date(y, rng.choice([1, 2, 2, 3, 12]), rng.choice([1, 28, 29]))
        if r < 0.25:
            return _dt.date(y, rng.choice([1, 3, 5, 7, 8, 10, 12]), 31)
        if r < 0.3:
            return _dt.date(y, 12, rng.choice([28, 29, 30, 31]))
    except ValueError:
        pass
    return _dt.date.fromordinal(base + rng.randrange(ylen))


def rnd_start(rng, want_dt=None, utc_bias=0.7):
    d = rnd_date(rng)
    if want_dt is None:
        want_dt = rng.random() < 0.55
    if not want_dt:
        return {"k": rng.choice(["date", "datestr"]), "ymd": [d.year, d.month, d.day]}
    hms = [rng.choice([0, 0, 9, 10, 12, 23, rng.randrange(24)]), rng.choice([0, 0, 30, 59, rng.randrange(60)]), rng.choice([0, 0, 0, 7, 59])]
    off = None if rng.random() < 0.3 else (0 if rng.random() < utc_bias else rng.choice([300, -300, 330, 480, -480, 60, -720, 765, 840]))
    st = {"k": rng.choice(["dtobj", "dtstr"]), "ymd": [d.year, d.month, d.day], "hms": hms, "off": off}
    if rng.random() < 0.08:
        st["us"] = rng.choice([990000, 990000, 500000, 1, 999999])  # e.g. the documented `23:59:59.99`
    return st


def some(rng, pool, kmax):
    k = rng.randint(1, kmax)
    return sorted(rng.sample(pool, min(k, len(pool))))


def gen_params(rng, sub_ok=True, clean=False):
    """one Schedule.Event keyword set; `clean` avoids the parameters touched by known defects"""
    freq = rng.choice(["YEARLY", "MONTHLY", "MONTHLY", "WEEKLY", "WEEKLY", "DAILY", "DAILY"] + (["HOURLY", "MINUTELY", "SECONDLY"] if sub_ok else []))
    sub = freq in SPAN_SECS
    st = rnd_start(rng, want_dt=True if sub else None, utc_bias=1.0 if clean else 0.6)
    p = {"freq": freq, "start": st, "lf": rng.choice([0, 1, 1, 2])}
    if rng.random() < 0.1:
        p["freq_lower"] = True
    if rng.random() < 0.03:
        p["interval"] = rng.choice([0, 0, -1, -3])  # rejected by the interval guard (no hang)
    elif rng.random() < 0.5:
        p["interval"] = rng.choice([1, 2, 2, 3, 4, 5, 7, 12, 13, 90] if sub else [1, 2, 2, 3, 4, 5, 7, 12])
    if rng.random() < 0.25:
        p["bymonth"] = some(rng, list(range(1, 13)), 3)
    r = rng.random()
    if r < 0.25:
        p["bymonthday"] = some(rng, [1, 2, 10, 15, 28, 29, 30, 31, -1, -2, -31, 0], 2)
    elif r < 0.4 and not sub:
        p["byyearday"] = some(rng, [1, 32, 59, 60, 61, 200, 365, 366, -1, -100, -366], 2)
    elif r < 0.7:
        days = rng.sample(range(7), rng.randint(1, 3))
        use_n = (not sub) and rng.random() < 0.45
        mixed = use_n and rng.random() < 0.3
        big = freq == "YEARLY" and p.get("bymonth") is None
        pool = [1, 2, 3, 4, 5, -1, -2, -5] + ([10, 52, 53, -52, -53] if big else [])
        p["byweekday"] = [[w, (rng.choice(pool) if use_n and not (mixed and i == 0) else 0)] for i, w in enumerate(sorted(days))]
        if rng.random() < 0.3:
            p["byweekday"] = weekday_repeats(rng, p["byweekday"], pool if use_n else [0])
    if st["k"] in ("dtobj", "dtstr") or rng.random() < 0.3:
        if rng.random() < 0.3:
            p["byhour"] = some(rng, list(range(24)), 3)
        if rng.random() < 0.25:
            p["byminute"] = some(rng, [0, 10, 15, 30, 45, 59], 3)
        if rng.random() < (0.0 if clean else 0.18):
            p["bysecond"] = some(rng, [0, 1, 2, 3, 7, 10, 30, 59, 9, 26, 52, 53], 3)
    if rng.random() < 0.05:
        # undocumented keyword: a non-empty value needs an opt-in no recipe can give (error); an
        # empty list passes the gate and reaches rrule as "supplied" (RFC defaults off)
        p["byweekno"] = [] if (p["lf"] == 2 and rng.random() < 0.6) else some(rng, [1, 10, 30, 52, -1], 2)
    if rng.random() < 0.45:
        p["count"] = rng.choice([1, 2, 3, 5, 8, 12, 30])
    if rng.random() < 0.5:
        s = start_aware(st)
        span = {"YEARLY": 3000, "MONTHLY": 700, "WEEKLY": 200, "DAILY": 60}.get(freq)
        if span:
            ud = s.date() + _dt.timedelta(days=rng.randint(0, span))
        else:
            ud = s.date() + _dt.timedelta(days=rng.choice([0, 0, 1, 2]))
        kinds = ["date", "datestr"] if clean else ["date", "datestr", "dtobj", "dtstr"]
        k = rng.choice(kinds if not sub else (["dtstr"] if clean else ["dtstr", "dtobj", "date"]))
        u = {"k": k, "ymd": [ud.year, ud.month, ud.day]}
        if k in ("dtobj", "dtstr"):
            if sub:
                t = (s + _dt.timedelta(seconds=rng.randint(0, SPAN_SECS[freq]))).replace(tzinfo=None)
                u["ymd"] = [t.year, t.month, t.day]
                u["hms"] = [t.hour, t.minute, t.second]
            else:
                u["hms"] = [rng.choice([0, s.hour, 23, rng.randrange(24)]), rng.choice([0, s.minute, 59]), rng.choice([0, s.second])]
            u["off"] = None if rng.random() < 0.5 else (0 if clean or rng.random() < 0.5 else rng.choice([300, -300, 330]))
        p["until"] = u
    return p


def rnd_arg_near(rng, p, clean=False):
    s = start_aware(p["start"])
    span = {"YEARLY": 1500, "MONTHLY": 300, "WEEKLY": 90, "DAILY": 20}.get(p["freq"], 3)
    d = s.date() + _dt.timedelta(days=rng.randint(0, span) * (p.get("interval") or 1) if rng.random() < 0.5 else rng.randint(0, span))
    if p["freq"] == "WEEKLY" and rng.random() < 0.7:
        d = s.date() + _dt.timedelta(days=7 * (p.get("interval") or 1) * rng.randint(0, 8))
    if p["freq"] == "MONTHLY" and rng.random() < 0.7 and s.day <= 28:
        k = rng.randint(0, 10) * (p.get("interval") or 1)
        d = _dt.date(s.year + (s.month - 1 + k) // 12, (s.month - 1 + k) % 12 + 1, s.day)
    if p["freq"] == "YEARLY" and rng.random() < 0.7 and (s.month, s.day) != (2, 29):
        d = _dt.date(s.year + rng.randint(0, 6) * (p.get("interval") or 1), s.month, s.day)
    r = rng.random()
    if clean or r < 0.55:
        return {"k": rng.choice(["date", "datestr"]), "ymd": [d.year, d.month, d.day]}
    if r < 0.7:
        return {"k": "dtstr", "ymd": [d.year, d.month, d.day], "hms": [s.hour, s.minute, s.second], "off": None}
    off = p["start"].get("off")
    if r < 0.97:
        # an aware datetime at the start's wall clock (same zone, or the same instant in another zone)
        o = off if off is not None else 0
        if rng.random() < 0.3:
            o2 = rng.choice([0, 120, -420])
            t = (_dt.datetime.combine(d, s.timetz().replace(tzinfo=None)) + _dt.timedelta(minutes=o2 - o))
            return {"k": "dtobj", "ymd": [t.year, t.month, t.day], "hms": [t.hour, t.minute, t.second], "off": o2}
        return {"k": "dtobj", "ymd": [d.year, d.month, d.day], "hms": [s.hour, s.minute, s.second], "off": o}
    return {"k": "dtobj", "ymd": [d.year, d.month, d.day], "hms": [s.hour, s.minute, s.second], "off": None}


def gen_set(rng, depth=0, clean=False, single=False, sub_ok=True):
    p = gen_params(rng, sub_ok=sub_ok and depth == 0, clean=clean)
    s = {"p": p}
    for key in ("include", "exclude"):
        if rng.random() < (0.3 if depth == 0 else 0.15):
            items = []
            for _ in range(1 if single else rng.choice([1, 1, 2, 3])):
                if depth < 2 and rng.random() < 0.35 and p["freq"] not in SPAN_SECS:
                    sub = gen_set(rng, depth + 1, clean, single, sub_ok=False)
                    q = sub["p"]
                    # a nested schedule that can meet the outer one: same start and time
                    if rng.random() < 0.7:
                        q["start"] = dict(p["start"])
                        for k in ("byhour", "byminute", "bysecond"):
                            q.pop(k, None)
                            if p.get(k) is not None:
                                q[k] = p[k]
                    if q.get("count") is None and q.get("until") is None and key == "include" and rng.random() < 0.7:
                        q["count"] = rng.choice([1, 2, 3, 5])
                    items.append({"k": "set", "set": sub})
                else:
                    items.append(rnd_arg_near(rng, p, clean))
            s[key] = items
    return s


def bounded(s):
    p = s["p"]
    return p.get("count") is not None or p.get("until") is not None


def all_bounded(s):
    if not bounded(s):
        return False
    return all(all_bounded(it["set"]) for it in (s.get("include") or []) if it["k"] == "set")


def gen_case(rng, kind):
    clean = rng.random() < 0.2  # UTC-only, date-valued arguments only
    if kind == "rule":
        s = gen_set(rng, clean=clean)
        return {"kind": "rule", "mode": rng.choice(["next", "for_each"]), "set": s}
    mode = rng.choice(["next", "next", "for_each"])
    s = gen_set(rng, clean=clean, single=True)
    s["p"]["lf"] = rng.choice([0, 1])
    if s["p"].get("byweekno") == []:
        del s["p"]["byweekno"]
    fix_lf(s)
    if mode == "for_each":
        force_bounded(rng, s)
    return {"kind": "recipe", "mode": mode, "n": rng.choice([1, 2, 3, 5, 8, 13]), "set": s}


def fix_lf(s):
    if s["p"].get("lf") == 2:
        s["p"]["lf"] = 1
    if s["p"].get("byweekno") == []:
        del s["p"]["byweekno"]  # an empty list cannot be written in a recipe
    for key in ("include", "exclude"):
        for it in s.get(key) or []:
            if it["k"] == "set":
                fix_lf(it["set"])


def force_bounded(rng, s):
    p = s["p"]
    if not bounded(s):
        p["count"] = rng.choice([1, 2, 3, 5, 8, 20])
    elif p.get("count") is None and p["freq"] in SPAN_SECS:
        p["count"] = rng.choice([3, 10, 40])
    for it in s.get("include") or []:
        if it["k"] == "set":
            force_bounded(rng, it["set"])


def gen_formula_case(rng):
    """include / exclude written as a formula holding a tuple of 2-3 entries: `Schedule.Event(...)`
    calls that share their keyword names (and order) but differ in values, mixed with plain dates.
    Every call is a separate `@memorable` evaluation in one context: each must get its own state."""
    freq = rng.choice(["MONTHLY", "WEEKLY", "DAILY", "DAILY", "YEARLY"])
    st = rnd_start(rng, utc_bias=1.0)
    if st.get("off") is None and st["k"] in ("dtobj", "dtstr"):
        st["off"] = None
    outer = {"freq": freq, "start": st, "lf": rng.choice([0, 1])}
    if rng.random() < 0.4:
        outer["interval"] = rng.choice([1, 2, 3])
    if rng.random() < 0.3:
        outer["count"] = rng.choice([3, 6, 12])
    s = {"p": outer}
    sa = start_aware(st)
    step = {"YEARLY": 366, "MONTHLY": 31, "WEEKLY": 7, "DAILY": 1}[freq] * (outer.get("interval") or 1)
    hms = [sa.hour, sa.minute, sa.second]

    def inner_start(d):
        if st["k"] in ("date", "datestr"):
            return {"k": "datestr", "ymd": [d.year, d.month, d.day]}
        return {"k": "dtstr", "ymd": [d.year, d.month, d.day], "hms": hms, "off": None}

    for key in rng.choice([["include"], ["exclude"], ["include", "exclude"]]):
        extra = rng.sample(["interval", "bymonthday", "byweekday", "until"], rng.choice([0, 0, 1, 2]))
        same_names = rng.random() < 0.85
        items = []
        for _ in range(rng.choice([2, 2, 3])):
            if rng.random() < 0.25 and items:
                d = sa.date() + _dt.timedelta(days=rng.randint(0, 6) * step + rng.choice([0, 0, 1]))
                items.append({"k": "datestr", "ymd": [d.year, d.month, d.day]})
                continue
            if key == "exclude":
                # meet the outer schedule: same kind of rule, started on one of its days
                d = sa.date() + _dt.timedelta(days=rng.randint(0, 3)) if freq == "DAILY" else sa.date()
                q = {"freq": rng.choice([freq, freq, "DAILY"]), "start": inner_start(d), "lf": 1}
                q["count"] = rng.choice([1, 2, 3, 5])
            else:
                d = sa.date() - _dt.timedelta(days=rng.randint(1, 4000)) if rng.random() < 0.5 else sa.date() + _dt.timedelta(days=rng.randint(1, 10 * step))
                q = {"freq": rng.choice(["YEARLY", "MONTHLY", "WEEKLY", "DAILY"]), "start": inner_start(d), "lf": 1}
                q["count"] = rng.choice([1, 2, 3])
            keys = extra if same_names else rng.sample(["interval", "bymonthday", "byweekday", "until"], rng.choice([0, 1]))
            for k in keys:
                if k == "interval":
                    q["interval"] = rng.choice([1, 2, 3, 5])
                elif k == "bymonthday":
                    q["bymonthday"] = some(rng, [1, 2, 10, 15, 28, -1], 2)
                elif k == "byweekday":
                    q["byweekday"] = [[w, 0] for w in sorted(rng.sample(range(7), rng.randint(1, 3)))]
                elif k == "until":
                    u = d + _dt.timedelta(days=rng.randint(0, 800))
                    q["until"] = {"k": "datestr", "ymd": [u.year, u.month, u.day]}
            if rng.random() < 0.5:
                q["freq_lower"] = True
            items.append({"k": "set", "set": {"p": q}})
        if not any(it["k"] == "set" for it in items[1:]) and len(items) >= 2:
            pass
        s[key] = items
    mode = rng.choice(["next", "next", "next", "for_each"])
    if mode == "for_each":
        force_bounded(rng, s)
    return {"kind": "recipe", "mode": mode, "n": rng.choice([3, 5, 8, 13]), "formula": rng.choice(["inline", "inline", "var"]), "set": s}


def weekday_repeats(rng, wds, pool):
    """the same weekday named several times — at other ordinals (`FR(+1),FR(+3)`, `MO(+1),MO(-1)`),
    plain next to an ordinal (`TU,TU(+2)`), plain duplicates (`MO,WE,MO`) — in written, not
    calendar, order"""
    out = [list(x) for x in wds]
    for _ in range(rng.choice([1, 1, 2])):
        w, n = rng.choice(out)
        out.append([w, rng.choice([m for m in list(pool) + [0] if m != n] or [n])])
    if rng.random() < 0.3:
        out.append(list(rng.choice(out)))  # an exact duplicate
    rng.shuffle(out)
    return out


def gen_weekday_case(rng):
    """MONTHLY / YEARLY rules whose byweekday names one weekday at several ordinals"""
    freq = rng.choice(["MONTHLY", "MONTHLY", "YEARLY"])
    st = rnd_start(rng, utc_bias=0.8)
    p = {"freq": freq, "start": st, "lf": rng.choice([0, 1, 2])}
    if rng.random() < 0.3:
        p["interval"] = rng.choice([1, 2, 3])
    if freq == "YEARLY" and rng.random() < 0.4:
        p["bymonth"] = some(rng, list(range(1, 13)), 2)
    big = freq == "YEARLY" and p.get("bymonth") is None
    pool = [1, 2, 3, 4, 5, -1, -2] + ([10, 30, 52, -10, -52] if big else [])
    style = rng.choice(["two-ordinals", "first-last", "plain+ordinal", "duplicates", "many"])
    w = rng.randrange(7)
    if style == "two-ordinals":
        a, b = rng.sample(pool, 2)
        wds = [[w, a], [w, b]]
    elif style == "first-last":
        wds = [[w, 1], [w, -1]]
    elif style == "plain+ordinal":
        wds = [[w, 0], [w, rng.choice(pool)]]
    elif style == "duplicates":
        v = rng.choice([x for x in range(7) if x != w])
        wds = [[w, 0], [v, 0], [w, 0]]
    else:
        wds = weekday_repeats(rng, [[w, rng.choice(pool)], [rng.randrange(7), rng.choice(pool + [0])]], pool)
    if rng.random() < 0.5:
        rng.shuffle(wds)
    if rng.random() < 0.3:
        wds.append([rng.choice([x for x in range(7) if x != w]), rng.choice(pool + [0, 0])])
    p["byweekday"] = wds
    if rng.random() < 0.25:
        p["count"] = rng.choice([2, 5, 9])
    s = {"p": p}
    kind = rng.choice(["rule", "rule", "recipe"])
    if kind == "rule":
        return {"kind": "rule", "mode": rng.choice(["next", "for_each"]), "set": s}
    p["lf"] = rng.choice([0, 1])
    mode = rng.choice(["next", "next", "for_each"])
    if mode == "for_each":
        force_bounded(rng, s)
    return {"kind": "recipe", "mode": mode, "n": rng.choice([3, 5, 8, 13]), "set": s}


def gen_lattice_case(rng):
    """sub-daily rules whose interval lattice may never meet the by-sets: dateutil rejects them
    (in the constructor at the frequency's own level, at the first step above it), taking the
    values of an enclosing schedule with them"""
    freq = rng.choice(["MINUTELY", "MINUTELY", "SECONDLY", "HOURLY"])
    st = rnd_start(rng, want_dt=True, utc_bias=0.8)
    p = {"freq": freq, "start": st, "lf": rng.choice([0, 1, 2])}
    p["interval"] = rng.choice({"MINUTELY": [90, 90, 120, 45, 360, 720, 1440, 60, 30, 7, 100],
                                "SECONDLY": [3600, 90, 7200, 86400, 60, 45, 1800, 43200],
                                "HOURLY": [2, 3, 4, 6, 8, 12, 24, 5]}[freq])
    if rng.random() < 0.85:
        p["byhour"] = some(rng, list(range(24)), 2)
    if freq != "HOURLY" and rng.random() < 0.45:
        p["byminute"] = some(rng, [0, 15, 30, 45, st["hms"][1]], 2)
    if freq == "SECONDLY" and rng.random() < 0.3:
        p["bysecond"] = some(rng, [0, 30, st["hms"][2]], 2)
    if rng.random() < 0.3:
        p["count"] = rng.choice([1, 3, 10])
    s = {"p": p}
    if rng.random() < 0.4:
        s["include"] = [rnd_arg_near(rng, p) for _ in range(rng.choice([1, 2]))]
    if rng.random() < 0.15:
        s["exclude"] = [rnd_arg_near(rng, p)]
    return {"kind": "rule", "mode": rng.choice(["next", "for_each"]), "set": s, "horizon": abs_of(start_aware(st))[0] + 86400 * 3}


def doc_cases():
    """the documentation examples moved to other weeks of the year, plus the known-defect witnesses"""
    out = []

    def ev(freq, start, **kw):
        return {"p": dict({"freq": freq, "start": start, "lf": 1}, **kw)}

    for (y, m, d) in [(2024, 1, 1), (2024, 3, 1), (2023, 10, 31), (2024, 2, 29), (2025, 12, 31), (2024, 7, 21)]:
        dt = {"k": "dtobj", "ymd": [y, m, d], "hms": [12, 1, 1], "off": None}
        da = {"k": "date", "ymd": [y, m, d]}
        out.append({"kind": "recipe", "mode": "next", "n": 5, "set": ev("YEARLY", da)})
        out.append({"kind": "recipe", "mode": "next", "n": 5, "set": ev("WEEKLY", da, byweekday=[[0, 0], [2, 0], [4, 0]])})
        out.append({"kind": "recipe", "mode": "next", "n": 10, "set": ev("MONTHLY", da, byweekday=[[0, 1], [2, -1], [4, 2]])})
        out.append({"kind": "recipe", "mode": "next", "n": 5, "set": ev("MONTHLY", da, bymonthday=[1, -1])})
        out.append({"kind": "recipe", "mode": "next", "n": 5, "set": ev("YEARLY", da, byyearday=[-7, -1])})
        out.append({"kind": "recipe", "mode": "next", "n": 5, "set": ev("HOURLY", dt, byhour=[0, 2, 4])})
        out.append({"kind": "recipe", "mode": "next", "n": 10, "set": ev("MINUTELY", dt, byminute=[1, 2, 3])})
        out.append({"kind": "recipe", "mode": "next", "n": 10, "set": ev("SECONDLY", dt, bysecond=[1, 2, 3])})
        out.append({"kind": "recipe", "mode": "next", "n": 5, "set": ev("WEEKLY", da, interval=3)})
    # one Event in a macro used by three templates, twice on one line, and under a for_each
    e0 = {"p": {"freq": "WEEKLY", "start": {"k": "datestr", "ymd": [2024, 3, 1]}, "lf": 1}}
    out.append({"kind": "sites", "mode": "next", "layout": {"macro": {"a": 2, "b": 3, "c": 2, "d": 2, "in_file": True}, "flow": {"n": 2, "again": 3}}, "set": e0})
    out.append({"kind": "sites", "mode": "next", "layout": {"foreach": {}, "flow": {"n": 2}}, "set": {"p": dict(e0["p"], count=3)}})
    # one weekday at several ordinals: first and third Friday, first and last Monday, plain + ordinal
    for wds in ([[4, 1], [4, 3]], [[0, 1], [0, -1]], [[1, 0], [1, 2]], [[0, 0], [2, 0], [0, 0]], [[4, 3], [2, -1], [4, 1]]):
        out.append({"kind": "recipe", "mode": "next", "n": 6, "set": ev("MONTHLY", {"k": "date", "ymd": [2024, 3, 1]}, byweekday=wds)})
    out.append({"kind": "recipe", "mode": "next", "n": 6, "set": ev("YEARLY", {"k": "dtobj", "ymd": [2024, 3, 1], "hms": [9, 0, 0], "off": None}, byweekday=[[6, 1], [6, -1], [6, 20]])})
    # the interval guard (fix 66ecebf): 0 and negative values are recipe errors, not hangs
    for iv in (0, -1):
        out.append({"kind": "recipe", "mode": "next", "n": 3, "set": ev("DAILY", {"k": "date", "ymd": [2024, 3, 1]}, interval=iv)})
    return out


# ------------------------------------------------------------------ entry points


def run(ctx, rep, findings):
    rep.rule = (
        "Schedule.Event keyword sets: freq YEARLY..SECONDLY, start dates over 9 years incl. leap and "
        "century years, month ends, date/datetime precision given as object or string, fixed offsets "
        "-12:00..+14:00, interval, count, until (date, date string, datetime object, datetime string), "
        "bymonth, +-bymonthday, +-byyearday, plain / n-th / mixed weekdays, byhour, byminute, bysecond, "
        "include / exclude of dates, datetimes and nested events (depth <= 2). Driven through "
        "CalendarRule (next() and iteration) and through end-to-end recipes (field and for_each). "
        "Formula recipes: include / exclude written as a formula (inline or through a var) holding a tuple "
        "of 2-3 entries - Schedule.Event(...) calls with the same keyword names and different values, "
        "mixed with plain dates (snowfakery_version 3; the older dialect rejects any formula containing "
        "a Schedule.Event call). "
        "Weekday cases: MONTHLY / YEARLY rules whose byweekday names one weekday several times (other "
        "ordinals, plain next to ordinal, duplicates, unsorted), both precisions. "
        "Lattice cases: sub-daily rules with intervals that may never meet byhour / byminute / bysecond "
        "(dateutil's empty-rule rejections, error kinds compared on flat schedules). "
        "Call-site recipes: one Event text inside a macro included by 2-4 templates (top level, friend, "
        "nested child; macro optionally in an include_file), twice on one line in flow style, and under "
        "a for_each plus a field; every call site must produce, row by row, the occurrences of its own "
        "recurrence from start_date. Starts with fractional seconds (8 % of datetime starts). "
        "Non-trivial: the plugin produced >= 2 values. Distinct = distinct case hash."
    )
    cases = [f["input"] for f in findings if f.get("input")]
    cases += ctx.corpus()
    cases += doc_cases()
    n_rule = ctx.scale(1100, 12000, search_factor=2)
    n_recipe = ctx.scale(300, 2500, search_factor=2)
    for _ in range(n_rule):
        cases.append(gen_case(ctx.rng, "rule"))
    for _ in range(n_recipe):
        cases.append(gen_case(ctx.rng, "recipe"))
    for _ in range(ctx.scale(150, 1500, search_factor=2)):
        cases.append(gen_formula_case(ctx.rng))
    for _ in range(ctx.scale(120, 1200, search_factor=2)):
        cases.append(gen_lattice_case(ctx.rng))
    for _ in range(ctx.scale(160, 1500, search_factor=2)):
        cases.append(gen_sites_case(ctx.rng))
    for _ in range(ctx.scale(150, 1500, search_factor=2)):
        cases.append(gen_weekday_case(ctx.rng))
    for i in range(0, len(cases), 600):
        check_cases(cases[i : i + 600], rep)
        if ctx.time_left() < 60:
            rep.notes.append(f"stopped early after {i + 600} cases: time budget")
            break


def replay(case, rep):
    check_cases([case], rep)


def shrink(case, signature):
    """drop keywords / include / exclude entries while the same signature is reported"""

    def fails(c):
        try:
            r = _worker(c)
        except Exception:  # noqa
            return False
        return signature in (r.get("sigs") or [])

    c = json.loads(json.dumps(case))
    changed = True
    while changed:
        changed = False
        for key in ("include", "exclude"):
            if c["set"].get(key):
                for i in range(len(c["set"][key])):
                    d = json.loads(json.dumps(c))
                    del d["set"][key][i]
                    if fails(d):
                        c, changed = d, True
                        break
        for k in list(c["set"]["p"].keys()):
            if k in ("freq", "start", "lf"):
                continue
            d = json.loads(json.dumps(c))
            del d["set"]["p"][k]
            if fails(d):
                c, changed = d, True
    return c
