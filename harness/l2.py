"""L2 differential: the Lean reference interpreter (`SnowModel.L2`, method l2.run) against the real
interpreter on generated programs x dialects x iteration counts x continuation compositions."""
from . import common, l1, recipes


def canon_rows(rows):
    out = []
    for table, fields in rows:
        fs = []
        for k, v in fields:
            if isinstance(v, dict) and v.get("t") == "ref":
                v = {"t": "ref", "table": v["table"], "id": v["id"]}
            fs.append([k, v])
        out.append([table, fs])
    return out


def canon_model_rows(rows):
    out = []
    for table, fields in rows:
        fs = []
        for k, v in fields:
            if isinstance(v, dict) and v.get("t") == "ref":
                v = {"t": "ref", "table": v["table"], "id": v["id"]}
            elif isinstance(v, dict) and v.get("t") == "bool":
                v = {"t": "bool", "v": v["v"]}
            fs.append([k, v])
        out.append([table, fs])
    return out


def run_real(rc, parts, options=None, final_continuation=True):
    text = recipes.recipe_yaml(rc)
    chain = l1.run_chain(text, parts, trace=False, options=options, final_continuation=final_continuation)
    return chain, text


def outcome_class(o):
    if o == "ok":
        return "ok"
    if o == "recipe_error":
        return "recipe_error"
    return o  # internal:<type>


def compare(rep, what, case, chain, model):
    """model = ('ok', {status, rows}) from the driver. Returns 'outside' | 'agree' | 'disagree'."""
    st, val = model
    if st != "ok":
        rep.disagreement(what + ":driver-error", case, val, None)
        return "disagree"
    status = val["status"]
    if status.startswith("outside") or status == "fuel":
        return "outside"
    real_class = outcome_class(chain.outcome)
    if real_class.startswith("internal"):
        # an internal exception escaping is C20's subject; for the differential it counts as an error
        real_class = "recipe_error"
    if status != real_class:
        rep.disagreement(what + ":outcome", case, status, {"outcome": chain.outcome, "error": chain.error})
        return "disagree"
    if status == "ok":
        real_rows = canon_rows(chain.rows)
        model_rows = canon_model_rows(val["rows"])
        if real_rows != model_rows:
            # first differing row
            i = 0
            while i < min(len(real_rows), len(model_rows)) and real_rows[i] == model_rows[i]:
                i += 1
            rep.disagreement(what + ":rows", case,
                             {"index": i, "row": model_rows[i] if i < len(model_rows) else None, "n": len(model_rows)},
                             {"index": i, "row": real_rows[i] if i < len(real_rows) else None, "n": len(real_rows)})
            return "disagree"
    return "agree"


# ----------------------------------------------------------------------------- shrinking L2 ASTs


def _variants(rc):
    """Smaller variants of a recipe AST (one edit each)."""
    import copy

    sts = rc["statements"]
    for i in range(len(sts)):
        v = copy.deepcopy(rc)
        del v["statements"][i]
        if v["statements"]:
            yield v

    def templ_edits(t, path):
        # path: function that, given a deep copy of rc, returns the template to edit
        for fi in range(len(t.get("fields", []))):
            yield ("delfield", path, fi)
        for fr in range(len(t.get("friends", []))):
            yield ("delfriend", path, fr)
        if t.get("count") is not None:
            yield ("delcount", path, None)
        if t.get("just_once"):
            yield ("deljo", path, None)
        for fi, (n, fd) in enumerate(t.get("fields", [])):
            if fd[0] == "nested":
                yield from templ_edits(fd[1], path + [("field", fi)])
                yield ("unnest", path, fi)
        for fr, f in enumerate(t.get("friends", [])):
            if "object" in f:
                yield from templ_edits(f, path + [("friend", fr)])

    def resolve(v, path):
        t = v["statements"][path[0][1]]
        for kind, i in path[1:]:
            t = t["fields"][i][1][1] if kind == "field" else t["friends"][i]
        return t

    for si, st in enumerate(sts):
        if "object" not in st:
            continue
        for kind, path, arg in templ_edits(st, [("stmt", si)]):
            v = copy.deepcopy(rc)
            t = resolve(v, path)
            if kind == "delfield":
                del t["fields"][arg]
            elif kind == "delfriend":
                del t["friends"][arg]
            elif kind == "delcount":
                t.pop("count", None)
            elif kind == "deljo":
                t.pop("just_once", None)
            elif kind == "unnest":
                t["fields"][arg][1] = ["lit", 1]
            yield v


def shrink_ast(rc, fails, max_steps=400):
    steps = 0
    changed = True
    while changed and steps < max_steps:
        changed = False
        for v in _variants(rc):
            steps += 1
            if steps > max_steps:
                break
            try:
                if fails(v):
                    rc = v
                    changed = True
                    break
            except Exception:  # noqa
                continue
    return rc
