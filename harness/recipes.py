"""Grammar-directed recipe generators shared by the L1 / L2 harnesses.

Recipes are built as Python structures (lists of dicts) and dumped with PyYAML, so they are always
syntactically valid YAML; semantic validity (names that exist, just_once only at top level …) is
biased, not guaranteed — runs that end in a recipe error are legitimate cases ("fails with an error
rather than complete") and are counted in the evidence histogram.
"""
import yaml

TABLES = ["A", "B", "C", "__H"]
NICKS = ["n1", "n2", "n3"]


def dump(recipe):
    return yaml.safe_dump(recipe, sort_keys=False, default_flow_style=False, allow_unicode=True)


class RefGen:
    """Recipes exercising ids, nicknames, forward/backward/self references, nesting, friends,
    just_once, hidden tables, zero counts (the L1 fragment: no formulas)."""

    def __init__(self, rng, hostile_names=0.15, max_top=5):
        self.rng = rng
        self.hostile_names = hostile_names
        self.max_top = max_top

    def recipe(self):
        rng = self.rng
        ntop = rng.randint(2, self.max_top)
        # a third of the recipes are "just_once heavy" (several persistent rows, nicknamed or not,
        # of the same or of different tables): exercises what a continuation must restore
        self.p_just_once = 0.55 if rng.random() < 0.33 else 0.15
        tops = []
        used_tables = []
        for i in range(ntop):
            t = rng.choice(TABLES[:3] if rng.random() < 0.85 else TABLES)
            used_tables.append(t)
            nick = None
            if rng.random() < 0.5:
                nick = rng.choice(NICKS)
                if rng.random() < self.hostile_names:
                    # nickname equal to a table name / shared between tables
                    nick = rng.choice(TABLES[:3] + NICKS)
            tops.append({"table": t, "nick": nick})
        names = sorted({x["table"] for x in tops} | {x["nick"] for x in tops if x["nick"]})
        self.names = names
        self.features = set()
        recipe = []
        self.created_tables = []
        for i, top in enumerate(tops):
            recipe.append(self.template(top["table"], top["nick"], depth=0, top=True))
            if not top["table"].startswith("__") and top["table"] not in self.created_tables:
                self.created_tables.append(top["table"])
        return recipe

    def ref_target(self):
        rng = self.rng
        r = rng.random()
        if r < 0.9:
            return rng.choice(self.names)
        if r < 0.95:
            return rng.choice(TABLES + NICKS)
        return "nosuch"

    def template(self, table, nick, depth, top=False):
        rng = self.rng
        t = {"object": table}
        if nick:
            t["nickname"] = nick
        r = rng.random()
        if r < 0.12:
            t["count"] = 0
            self.features.add("count0")
        elif r < 0.45:
            t["count"] = rng.choice([1, 2, 2, 3])
        if top and rng.random() < self.p_just_once:
            t["just_once"] = True
            self.features.add("just_once")
        fields = {}
        for k in range(rng.randint(0, 3)):
            fname = f"f{k}"
            r = rng.random()
            if r < 0.08 and getattr(self, "created_tables", None):
                # a random reference makes the row history active for that table (save_row /
                # table_counters / nickname ordinals run alongside the id counters)
                fields[fname] = {"random_reference": self.rng.choice(self.created_tables)}
                self.features.add("random_reference")
            elif r < 0.5:
                fields[fname] = {"reference": self.ref_target()}
                self.features.add("reference")
            elif r < 0.7 and depth < 2:
                ct = rng.choice(TABLES[:3] if rng.random() < 0.9 else TABLES)
                cn = rng.choice(NICKS) if rng.random() < 0.2 else None
                fields[fname] = [self.template(ct, cn, depth + 1)]
                self.features.add("nested")
            else:
                fields[fname] = rng.choice([1, "x", 7])
        if table.startswith("__"):
            self.features.add("hidden_table")
        if fields:
            t["fields"] = fields
        if depth < 2 and rng.random() < 0.25:
            friends = []
            for _ in range(rng.randint(1, 2)):
                ft = rng.choice(TABLES[:3])
                fn = rng.choice(NICKS) if rng.random() < 0.2 else None
                fr = self.template(ft, fn, depth + 1)
                if rng.random() < 0.5:
                    fr.setdefault("fields", {})["parent"] = {"reference": table}
                friends.append(fr)
            t["friends"] = friends
            self.features.add("friends")
        return t


def compositions(k, rng, max_parts=None):
    """A random composition of k into positive parts."""
    parts = []
    left = k
    while left > 0:
        p = rng.randint(1, left)
        parts.append(p)
        left -= p
    return parts


def all_compositions(k):
    if k == 0:
        return [[]]
    out = []
    for first in range(1, k + 1):
        for rest in all_compositions(k - first):
            out.append([first] + rest)
    return out


# ----------------------------------------------------------------------------- L2 generator
# (deterministic core language: counts literal/formula, nested templates, friends, nicknames,
#  references incl. dotted paths, variables, options, hidden fields/tables, just_once; v2 and v3)

import json as _json

L2_TABLES = ["A", "B", "C", "__H"]
L2_NICKS = ["n1", "n2"]
L2_FIELDS = ["f1", "f2", "f3", "__h"]
L2_VARS = ["v1", "v2"]


def expr_src(e):
    k = e[0]
    if k == "int":
        return str(e[1])
    if k == "name":
        return e[1]
    if k == "attr":
        return f"{expr_src(e[1])}.{e[2]}"
    return f"({expr_src(e[1])} {dict(add='+', sub='-', mul='*')[k]} {expr_src(e[2])})"


def tmpl_src(parts):
    return "".join(p[1] if p[0] == "text" else "${{" + expr_src(p[1]) + "}}" for p in parts)


def fd_yaml(fd, ind):
    k = fd[0]
    pad = " " * ind
    if k == "lit":
        return " " + _json.dumps(fd[1]) + "\n"
    if k == "tmpl":
        return " " + _json.dumps(tmpl_src(fd[1])) + "\n"
    if k == "ref":
        return "\n" + pad + "reference: " + fd[1] + "\n"
    if k == "nested":
        return "\n" + stmt_yaml(fd[1], ind)
    raise ValueError(fd)


def stmt_yaml(st, ind):
    pad = " " * ind
    if "var" in st:
        return f"{pad}- var: {st['var']}\n{pad}  value:" + fd_yaml(st["value"], ind + 4)
    out = f"{pad}- object: {st['object']}\n"
    if st.get("nickname"):
        out += f"{pad}  nickname: {st['nickname']}\n"
    if st.get("just_once"):
        out += f"{pad}  just_once: true\n"
    if st.get("count") is not None:
        out += f"{pad}  count:" + fd_yaml(st["count"], ind + 4)
    if st.get("fields"):
        out += f"{pad}  fields:\n"
        for n, fd in st["fields"]:
            out += f"{pad}    {n}:" + fd_yaml(fd, ind + 6)
    if st.get("friends"):
        out += f"{pad}  friends:\n"
        for f in st["friends"]:
            out += stmt_yaml(f, ind + 4)
    return out


def recipe_yaml(rc):
    out = f"- snowfakery_version: {rc['version']}\n"
    for name, dflt in rc.get("options", []):
        out += f"- option: {name}\n  default: {_json.dumps(dflt)}\n"
    for st in rc["statements"]:
        out += stmt_yaml(st, 0)
    return out


class L2Gen:
    def __init__(self, rng, valid_bias=0.85):
        self.r = rng
        self.top_names = []
        self.created_before = []  # top-level names whose template comes earlier
        self.vars = []
        self.valid_bias = valid_bias
        self.features = set()

    def expr(self, d, fields_so_far):
        r = self.r
        x = r.random()
        safe = ["child_index", "id", "o1"] + fields_so_far + self.vars + (["count"] if getattr(self, "count_name", False) else [])
        if d <= 0 or x < 0.3:
            if getattr(self, "big", False) and r.random() < 0.5 and not getattr(self, "in_count", False):
                # beyond 2**53: a value that does not survive a round trip through a float
                return ["int", r.choice([2**53 + 1, 2**53 + 3, 10**17 + 7, 2**64 + 1])]
            return ["int", r.randint(0, 12)]
        if x < 0.55:
            return ["name", r.choice(safe)]
        if x < 0.6:
            self.features.add("maybe-undefined-name")
            return ["name", r.choice(L2_FIELDS + L2_VARS + self.top_names)]
        if x < 0.75 and self.top_names:
            self.features.add("attr")
            pool = self.created_before if (self.created_before and r.random() < self.valid_bias) else self.top_names
            return ["attr", ["name", r.choice(pool)], r.choice(["id", "id", "f1", "f2", "f3", "__h", "__h"])]
        return [r.choice(["add", "add", "sub", "mul"]), self.expr(d - 1, fields_so_far), self.expr(d - 1, fields_so_far)]

    def count_expr(self):
        r = self.r
        x = r.random()
        if getattr(self, "big", False):
            # a recipe with huge literals: a count must not be able to read one (through a variable or a field)
            return ["name", "o1"] if x < 0.5 else [r.choice(["add", "mul"]), ["name", "o1"], ["int", r.randint(0, 2)]]
        if x < 0.4:
            return ["name", "o1"]
        if x < 0.6 and self.vars:
            return ["name", r.choice(self.vars)]
        if x < 0.9:
            return [r.choice(["add", "sub", "mul"]), ["name", "o1"], ["int", r.randint(0, 2)]]
        self.in_count = True  # never a huge literal where it would become a row count
        try:
            return self.expr(1, [])
        finally:
            self.in_count = False

    def ref_name(self):
        r = self.r
        if self.created_before and r.random() < self.valid_bias:
            return r.choice(self.created_before)
        return r.choice(self.top_names)

    def fd(self, depth, fields_so_far, allow_nested=True):
        r = self.r
        x = r.random()
        if x < 0.2:
            pool = [r.randint(0, 20), "abc", "12", "007", "x y", "0", True] + ([None] if allow_nested else [])
            return ["lit", r.choice(pool)]
        if x < 0.45:
            self.features.add("formula")
            return ["tmpl", [["expr", self.expr(2, fields_so_far)]]]
        if x < 0.55:
            self.features.add("concat")
            return ["tmpl", [["text", r.choice(["x", "q"])], ["expr", self.expr(1, fields_so_far)], ["text", r.choice(["", "z"])]]]
        if x < 0.8 and self.top_names:
            y = r.random()
            self.features.add("reference")
            if y < 0.88:
                return ["ref", self.ref_name()]
            if y < 0.93 and fields_so_far:
                return ["ref", r.choice(fields_so_far)]
            self.features.add("dotted-ref")
            return ["ref", self.ref_name() + "." + r.choice(L2_FIELDS[:3])]
        if allow_nested and depth > 0:
            self.features.add("nested")
            return ["nested", self.template(depth - 1, top=False)]
        return ["lit", r.randint(0, 5)]

    def template(self, depth, top, table=None, nick=None):
        r = self.r
        st = {"object": table or r.choice(L2_TABLES)}
        if nick:
            st["nickname"] = nick
        if top and r.random() < 0.15:
            st["just_once"] = True
            self.features.add("just_once")
        x = r.random()
        if x < 0.25:
            st["count"] = ["lit", r.randint(0, 3)]
            self.features.add("count-literal")
        elif x < 0.35:
            st["count"] = ["tmpl", [["expr", self.count_expr()]]]
            self.features.add("count-formula")
        fs = []
        sofar = []
        for n in r.sample(L2_FIELDS, r.randint(0, 4)):
            fs.append([n, self.fd(depth, list(sofar))])
            sofar.append(n)
            if n.startswith("__"):
                self.features.add("hidden-field")
        st["fields"] = fs
        if st["object"].startswith("__"):
            self.features.add("hidden-table")
        if depth > 0 and r.random() < 0.3:
            st["friends"] = [self.stmt(depth - 1, top=False) for _ in range(r.randint(1, 2))]
            self.features.add("friends")
        return st

    def stmt(self, depth, top, table=None, nick=None):
        r = self.r
        if not table and r.random() < 0.15:
            v = r.choice(L2_VARS)
            st = {"var": v, "value": self.fd(0, [], allow_nested=False)}
            self.vars.append(v)
            self.features.add("var")
            return st
        return self.template(depth, top, table, nick)

    def recipe(self):
        r = self.r
        n = r.randint(1, 5)
        plan = []
        for _ in range(n):
            t = r.choice(L2_TABLES)
            nk = r.choice(L2_NICKS) if r.random() < 0.4 else None
            plan.append((t, nk))
        self.top_names = sorted({t for t, _ in plan} | {nk for _, nk in plan if nk})
        # the built-in `count` (= the row id) read by formulas, in a quarter of the recipes; in half of those an
        # OPTION named `count` is declared as well: an option is nearer than the row built-ins
        self.big = r.random() < 0.06  # literals beyond 2**53 in field formulas (never reachable from a count)
        self.count_name = r.random() < 0.25
        count_option = self.count_name and r.random() < 0.5
        if count_option:
            self.features.add("option-named-like-builtin")
        sts = []
        for t, nk in plan:
            if r.random() < 0.12:
                sts.append(self.stmt(0, True))
            sts.append(self.stmt(2, True, t, nk))
            self.created_before.append(t)
            if nk:
                self.created_before.append(nk)
        x = r.random()
        if x < 0.10:
            # a top-level variable read BEFORE its `var` statement: undefined in the first iteration, and from the
            # second iteration on it still holds the value of the iteration before (the top-level context lives for
            # the whole run)
            v = r.choice(L2_VARS)
            reader = {"object": r.choice(L2_TABLES[:3]), "fields": [["f1", ["tmpl", [["text", "w"], ["expr", ["name", v]], ["text", ""]]]]]}
            sts.insert(0, reader)
            sts.append({"var": v, "value": ["lit", r.randint(1, 9)]})
            self.features.add("late-var")
        elif x < 0.18 and len(plan) >= 1:
            # a just_once row that holds a FORWARD reference, read back through its nickname in every iteration:
            # the slot object of the first iteration stays alive in the stored row with the id it held
            target = plan[-1][0]
            j = {"object": "A", "nickname": "n1", "just_once": True, "fields": [["f1", ["ref", target]], ["f2", ["lit", 4]]]}
            rd = {"object": "B", "fields": [["f3", ["ref", "n1.f1"]], ["f2", ["tmpl", [["expr", ["attr", ["name", "n1"], "f2"]]]]]]}
            sts.insert(0, j)
            sts.insert(1, rd)
            sts.append({"object": "C", "fields": [["f1", ["ref", "n1.f1"]]]})
            self.features.add("just_once-forward-ref")
        elif x < 0.26 and len(plan) >= 1:
            # the first statement of an iteration names a table whose row is created LATER in the iteration (a top-level
            # variable holding `T.id`): in every iteration it must reserve a fresh id, never see the previous iteration's row
            target = plan[-1][0]
            sts.insert(0, {"var": "v1", "value": ["tmpl", [["expr", ["attr", ["name", target], "id"]]]]})
            sts.insert(1, {"object": "C", "fields": [["f1", ["tmpl", [["expr", ["name", "v1"]]]]]]})
            if "v1" not in self.vars:
                self.vars.append("v1")
            self.features.add("var-names-later-table")
        elif x < 0.34:
            # a table whose number of rows VARIES with the iteration (0 in some iterations, also in the first): a tick
            # table with one row per iteration and a count (tick.id - a) * (tick.id - b); over a chain of runs such a
            # table is idle in some runs and gets its first id in a continued one
            a, b = r.choice([1, 2, 3]), r.choice([1, 2, 3])
            # the tick has a table and a nickname of its own, so `tk.id` is exactly the iteration number and the counts
            # stay small whatever else the recipe contains
            tid = ["attr", ["name", "tk"], "id"]
            tick = {"object": "K", "nickname": "tk", "fields": [["f2", ["lit", 0]]]}
            var = {"object": "V", "count": ["tmpl", [["expr", ["mul", ["sub", tid, ["int", a]], ["sub", tid, ["int", b]]]]]],
                   "fields": [["f1", ["ref", "tk"]]]}
            sts.insert(0, tick)
            sts.insert(1, var)
            self.features.add("count-varies-with-iteration")
        opts = [["o1", r.choice([1, 2, 3])]] + ([["count", r.choice([5, 9])]] if count_option else [])
        return {"version": r.choice([2, 3]), "options": opts, "statements": sts}


def persist_case(rng):
    """just_once rows holding every kind of scalar (visible and hidden fields), read back by nickname
    and by table name from ordinary templates in every iteration: what a continuation must restore."""
    v = rng.choice([2, 3])
    pool = [["lit", 7], ["lit", "abc"], ["lit", "12"], ["lit", "007"], ["lit", True], ["lit", None],
            ["tmpl", [["expr", ["add", ["int", 3], ["int", 4]]]]], ["tmpl", [["text", "q"], ["expr", ["int", 5]], ["text", ""]]]]
    names = ["f1", "f2", "__h", "f3"]
    rng.shuffle(names)
    jfields = [[n, rng.choice(pool)] for n in names[: rng.randint(2, 4)]]
    if not any(n == "__h" for n, _ in jfields) and rng.random() < 0.7:
        jfields.append(["__h", rng.choice(pool[:4])])
    j = {"object": "J", "nickname": "jq", "just_once": True, "fields": jfields}
    sts = []
    readers = []
    for n, _ in jfields:
        how = rng.choice(["nick", "table"])
        base = "jq" if how == "nick" else "J"
        if rng.random() < 0.7:
            readers.append(["tmpl", [["expr", ["attr", ["name", base], n]]]])
        else:
            readers.append(["tmpl", [["text", "x"], ["expr", ["attr", ["name", base], n]], ["text", ""]]])
    a = {"object": "A", "fields": [[f"r{i}", fd] for i, fd in enumerate(readers)] + [["ref", ["ref", rng.choice(["jq", "J"])]]]}
    if rng.random() < 0.4:
        a["count"] = ["lit", 2]
    if rng.random() < 0.5:
        sts = [j, a]
    else:
        sts = [a, j] if False else [j, {"object": "B", "fields": [["n", ["lit", 1]]]}, a]
    if rng.random() < 0.5:
        # a second just_once row of the SAME table under another nickname (either alphabetical order):
        # the table name must keep denoting the last-defined one, each nickname its own row
        other = rng.choice(["aq", "zq"])
        j2 = {"object": "J", "nickname": other, "just_once": True,
              "fields": [[n, rng.choice(pool)] for n, _ in jfields]}
        sts.insert(sts.index(j) + rng.choice([0, 1]), j2)
        a["fields"].append(["o", ["tmpl", [["expr", ["attr", ["name", other], jfields[0][0]]]]]])
        a["fields"].append(["oref", ["ref", other]])
    if rng.random() < 0.4:
        k2 = {"object": "K", "just_once": True, "fields": [["__h", ["lit", 9]], ["f1", ["tmpl", [["expr", ["attr", ["name", "jq"], "id"]]]]]]}
        sts.insert(1, k2)
        sts.append({"object": "C", "fields": [["r", ["tmpl", [["expr", ["attr", ["name", "K"], "__h"]]]]]]})
    return {"version": v, "options": [], "statements": sts}
