"""Grammar-directed recipe generators shared by the L1 / L2 harnesses.

Recipes are built as Python structures (lists of dicts) and dumped with PyYAML, so they are always
syntactically valid YAML; semantic validity (names that exist, just_once only at top level …) is
biased, not guaranteed — runs that end in a recipe error are legitimate cases ("fails with an error
rather than complete") and are counted in the evidence histogram.
"""
import yaml

TABLES = ["A", "B", "C", "__H"]
NICKS = ["n1", "n2", "n3"]


def dump(recipe):
    return yaml.safe_dump(recipe, sort_keys=False, default_flow_style=False, allow_unicode=True)


class RefGen:
    """Recipes exercising ids, nicknames, forward/backward/self references, nesting, friends,
    just_once, hidden tables, zero counts (the L1 fragment: no formulas)."""

    def __init__(self, rng, hostile_names=0.15, max_top=5):
        self.rng = rng
        self.hostile_names = hostile_names
        self.max_top = max_top

    def recipe(self):
        rng = self.rng
        ntop = rng.randint(2, self.max_top)
        # a third of the recipes are "just_once heavy" (several persistent rows, nicknamed or not,
        # of the same or of different tables): exercises what a continuation must restore
        self.p_just_once = 0.55 if rng.random() < 0.33 else 0.15
        tops = []
        used_tables = []
        for i in range(ntop):
            t = rng.choice(TABLES[:3] if rng.random() < 0.85 else TABLES)
            used_tables.append(t)
            nick = None
            if rng.random() < 0.5:
                nick = rng.choice(NICKS)
                if rng.random() < self.hostile_names:
                    # nickname equal to a table name / shared between tables
                    nick = rng.choice(TABLES[:3] + NICKS)
            tops.append({"table": t, "nick": nick})
        names = sorted({x["table"] for x in tops} | {x["nick"] for x in tops if x["nick"]})
        self.names = names
        self.features = set()
        recipe = []
        for i, top in enumerate(tops):
            recipe.append(self.template(top["table"], top["nick"], depth=0, top=True))
        return recipe

    def ref_target(self):
        rng = self.rng
        r = rng.random()
        if r < 0.9:
            return rng.choice(self.names)
        if r < 0.95:
            return rng.choice(TABLES + NICKS)
        return "nosuch"

    def template(self, table, nick, depth, top=False):
        rng = self.rng
        t = {"object": table}
        if nick:
            t["nickname"] = nick
        r = rng.random()
        if r < 0.12:
            t["count"] = 0
            self.features.add("count0")
        elif r < 0.45:
            t["count"] = rng.choice([1, 2, 2, 3])
        if top and rng.random() < self.p_just_once:
            t["just_once"] = True
            self.features.add("just_once")
        fields = {}
        for k in range(rng.randint(0, 3)):
            fname = f"f{k}"
            r = rng.random()
            if r < 0.5:
                fields[fname] = {"reference": self.ref_target()}
                self.features.add("reference")
            elif r < 0.7 and depth < 2:
                ct = rng.choice(TABLES[:3] if rng.random() < 0.9 else TABLES)
                cn = rng.choice(NICKS) if rng.random() < 0.2 else None
                fields[fname] = [self.template(ct, cn, depth + 1)]
                self.features.add("nested")
            else:
                fields[fname] = rng.choice([1, "x", 7])
        if table.startswith("__"):
            self.features.add("hidden_table")
        if fields:
            t["fields"] = fields
        if depth < 2 and rng.random() < 0.25:
            friends = []
            for _ in range(rng.randint(1, 2)):
                ft = rng.choice(TABLES[:3])
                fn = rng.choice(NICKS) if rng.random() < 0.2 else None
                fr = self.template(ft, fn, depth + 1)
                if rng.random() < 0.5:
                    fr.setdefault("fields", {})["parent"] = {"reference": table}
                friends.append(fr)
            t["friends"] = friends
            self.features.add("friends")
        return t


def compositions(k, rng, max_parts=None):
    """A random composition of k into positive parts."""
    parts = []
    left = k
    while left > 0:
        p = rng.randint(1, left)
        parts.append(p)
        left -= p
    return parts


def all_compositions(k):
    if k == 0:
        return [[]]
    out = []
    for first in range(1, k + 1):
        for rest in all_compositions(k - first):
            out.append([first] + rest)
    return out
