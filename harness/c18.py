"""C18 — fake contact data is safe: reserved e-mail domains, bounded unique usernames, provider
names looked up without regard to case or underscores.

Correspondence (model = Lean `SnowModel.FakeContact` through the driver, code = the real
`FakeData` / `FakeNames` / the interpreter):
  * `seq` cases: call sequences on a real `FakeData(locale)` sharing one `local_vars` dictionary
    (what one template execution does), every draw recorded (template index, year, domain,
    fall-back address, host, uuid, fresh first/last name) and replayed on the model's `runCalls`;
  * `recipe` cases: whole recipes through `snowfakery.data_generator.generate` with
    `snowfakery_locale`, block and inline `fake` calls in many spellings, `count`, nested objects;
    the calls are captured by wrapping `FakeData._get_fake_data` and grouped by the identity of the
    `local_vars` dictionary they saw; each group is replayed on the model;
  * `lookup` cases: for one locale the complete name table (both `dir()` lists and the ignore list)
    is handed to the model's `buildTable`; every attribute name in ~8 spellings is resolved by the
    real `_get_fake_data` (table values replaced by tagged markers) and by the model;
  * `static`: the real `email_templates` list and the public attributes of `FakeNames` equal the
    model's.
Direct oracle (model-independent, on the real outputs): e-mail domain (after the last `@`) is
example.com/.org/.net; when both names of the row are ASCII with a letter or digit the local part
starts with the first such character of the first name and contains the cleaned last name;
usernames are <= 80 characters, contain exactly one `@`, never repeat within a case; every
spelling (any case, any subset of the underscores, additional underscores) resolves to the same
provider as the plain name.
Exhaustive enumeration (a test, labelled as such): `safe_domain_names` of every Faker locale, the
first/last-name tables (no `@`, lengths), sampled host names (length bound).
"""
import json
import os
import random as _random
import subprocess
import threading  # noqa: F401  (kept: harness modules may be imported in worker threads)
from contextlib import contextmanager

from . import common

SPEC = {
    "lean": ["SnowModel.Props.C18", "SnowModel.Props.C18Bridge"],
    "pins": ["FakeContact"],
    "harness": "harness.c18",
    "technique": "Lean 4 theorems over a model of the e-mail templates (with a str.format interpreter), the sanitiser, the user-name truncation (Python slice semantics) and the four-segment name table + pins regenerated from the AST (constants, arithmetic, wiring, class attributes) + recorded-draw correspondence at function level and through whole recipes, over all Faker locales",
    "level_text": "Machine-checked proof, for each of the 60 templates and all names / domains / years >= 1000, that a built address is local@domain with the drawn domain and no '@' in the local part; that fake: email is in a reserved domain for every content of the remembered-values dictionary given Faker's contract; sanitiser specification; user name <= 80 (host <= 79), exactly one '@', distinct when the uuid survives truncation (refuted otherwise: D22); every spelling in any case with any placement of underscores resolves to the same attribute (full strength since fix 6b5b124), Snowfakery names win. Tied to the source by 36 bridging lemmas and by differential runs over all 110 locales.",
    "level_note": "Trusted: Lean kernel; py2lean; the harness; Faker's data and providers (safe_domain_name, ascii_safe_email, hostname, uuid4, first_name, last_name) are external: their contract (reserved domains, no '@', host length) is an explicit hypothesis, enumerated/sampled over all locales on every run, not proved. str.lower() is modelled for ASCII spellings only.",
    "assumptions": [
        "Faker.safe_domain_name() returns example.org/.com/.net and ascii_safe_email() an address in one of them (enumerated over all locales on every run)",
        "Faker.hostname(), uuid4(), first_name(), last_name() contain no '@'; hostname() has at most 79 characters (sampled per locale on every run)",
        "str.lower() modelled for ASCII provider names and spellings",
        "this_year >= 1080 (year draw has four digits)",
    ],
    "budget": {"quick": 600, "thorough": 1500},
}

RESERVED = {"example.com", "example.org", "example.net"}
ALNUM = set("0123456789ABCDEFGHIJKLMNOPQRSTUVWXYZabcdefghijklmnopqrstuvwxyz")


def _fdg():
    import snowfakery.fakedata.fake_data_generator as fdg

    return fdg


def locales():
    from faker.config import AVAILABLE_LOCALES

    return sorted(AVAILABLE_LOCALES)


def model_batch(requests, timeout=600):
    """Like common.model_batch but UTF-8 on the wire (names contain non-BMP characters)."""
    if not requests:
        return []
    if not os.path.exists(common.DRIVER):
        raise common.DriverError(f"model driver not built: {common.DRIVER}")
    data = "\n".join(json.dumps(r, separators=(",", ":"), ensure_ascii=False) for r in requests) + "\n"
    p = subprocess.run([common.DRIVER], input=data.encode("utf-8"), stdout=subprocess.PIPE,
                       stderr=subprocess.PIPE, timeout=timeout)
    if p.returncode != 0:
        raise common.DriverError(f"driver exit {p.returncode}: {p.stderr.decode()[-2000:]}")
    lines = p.stdout.decode("utf-8").splitlines()
    if len(lines) != len(requests):
        raise common.DriverError(f"driver answered {len(lines)} lines for {len(requests)} requests")
    out = []
    for line in lines:
        j = json.loads(line)
        out.append(("ok", j["ok"]) if "ok" in j else ("err", j.get("err")))
    return out


# ------------------------------------------------------------------ controlled Faker


class Session:
    """Controls and records every draw made while it is active.

    `spec_for_call(i)` gives the forced values of the i-th `_get_fake_data` call (may be {}).
    Records: list of dicts {sp, m, ctx, draws…, result}.
    """

    def __init__(self, rng, spec_for_call=None, first_queue=None, last_queue=None):
        self.rng = rng
        self.spec_for_call = spec_for_call or (lambda i: {})
        self.first_queue = list(first_queue or [])
        self.last_queue = list(last_queue or [])
        self.records = []
        self.cur = None
        self.depth = 0  # > 0 while a real Faker provider is running (its inner calls are not ours)
        self.keep = []  # local_vars dicts, kept alive so that ids stay unique
        self.ctx_ids = {}
        self.n_calls = 0

    # -- forced / recorded draws
    def draw(self, name, real, args, kwargs):
        if self.depth > 0:
            return real(*args, **kwargs)
        spec = self.cur["spec"] if self.cur else {}
        if name in spec and spec[name] is not None:
            v = spec[name]
        elif name == "first" and self.first_queue:
            v = self.first_queue.pop(0)
        elif name == "last" and self.last_queue:
            v = self.last_queue.pop(0)
        else:
            self.depth += 1
            try:
                v = real(*args, **kwargs)
            finally:
                self.depth -= 1
        if self.cur is not None:
            self.cur["draws"][name] = v
        return v

    def choice(self, seq):
        fdg = _fdg()
        if seq is fdg.email_templates and self.cur is not None:
            spec = self.cur["spec"]
            idx = spec.get("tmpl")
            if idx is None or not (0 <= idx < len(seq)):
                idx = self.rng.randrange(len(seq))
            self.cur["draws"]["tmpl"] = idx
            return seq[idx]
        return seq[self.rng.randrange(len(seq))]

    def randint(self, a, b):
        if self.cur is not None and self.depth == 0:
            spec = self.cur["spec"]
            mode = spec.get("year")
            if mode == "lo":
                v = a
            elif mode == "hi":
                v = b
            elif isinstance(mode, int):
                v = min(b, max(a, a + mode))
            else:
                v = self.rng.choice([a, b, self.rng.randint(a, b), self.rng.randint(a, b)])
            self.cur["draws"]["year"] = v
            self.cur["draws"]["year_bounds"] = [a, b]
            return v
        return self.rng.randint(a, b)


_ACTIVE = {"session": None}
_WRAPPED = {"first_name": "first", "last_name": "last", "hostname": "host", "uuid4": "uuid",
            "safe_domain_name": "domain", "ascii_safe_email": "fallback"}


def _instrument_faker(fk, seed):
    """Instance-level wrappers on the generator behind a Faker proxy (no library code is edited)."""
    gen = fk._factories[0]
    fk.seed_instance(seed)
    for meth, dname in _WRAPPED.items():
        real = getattr(gen, meth)

        def wrapper(*a, __real=real, __d=dname, **k):
            s = _ACTIVE["session"]
            if s is None:
                return __real(*a, **k)
            return s.draw(__d, __real, a, k)

        wrapper.__name__ = meth
        wrapper._verif_wrapped = True
        setattr(gen, meth, wrapper)
    return fk


@contextmanager
def controlled(session, faker_seed):
    """Activate a session: patched Faker factory in fake_data_generator, `random.choice/randint`,
    and a recording wrapper around `FakeData._get_fake_data`."""
    fdg = _fdg()
    real_Faker = fdg.Faker
    real_get = fdg.FakeData._get_fake_data
    saved_choice, saved_randint = _random.choice, _random.randint

    def factory(*a, **k):
        return _instrument_faker(real_Faker(*a, **k), faker_seed)

    def get_fake_data(self, origname, *args, **kwargs):
        s = _ACTIVE["session"]
        if s is None or s.cur is not None:
            return real_get(self, origname, *args, **kwargs)
        lv = self.faker_context.local_vars()
        if id(lv) not in s.ctx_ids:
            s.ctx_ids[id(lv)] = len(s.ctx_ids)
            s.keep.append(lv)
        interp = getattr(self.faker_context, "interpreter", None)
        cur = getattr(interp, "current_context", None)
        rec = {"sp": origname, "args": len(args), "kwargs": dict(kwargs), "ctx": s.ctx_ids[id(lv)],
               "draws": {}, "spec": s.spec_for_call(s.n_calls), "fd": self,
               "table": getattr(cur, "current_table_name", None), "frame": id(cur) if cur is not None else None}
        s.n_calls += 1
        s.cur = rec
        try:
            ret = real_get(self, origname, *args, **kwargs)
            rec["result"] = ["value", ret if isinstance(ret, str) else None]
            rec["raw"] = ret
            return ret
        except AttributeError as e:
            rec["result"] = ["noSuchName"] if "No fake data type named" in str(e) else ["exc", "AttributeError", str(e)[:200]]
            raise
        except (IndexError, KeyError, ValueError) as e:
            rec["result"] = ["formatError", type(e).__name__]
            raise
        except Exception as e:  # noqa
            rec["result"] = ["exc", type(e).__name__, str(e)[:200]]
            raise
        finally:
            s.cur = None
            s.records.append(rec)

    fdg.Faker = factory
    fdg.FakeData._get_fake_data = get_fake_data
    _random.choice = session.choice
    _random.randint = session.randint
    _ACTIVE["session"] = session
    try:
        yield
    finally:
        _ACTIVE["session"] = None
        _random.choice, _random.randint = saved_choice, saved_randint
        fdg.FakeData._get_fake_data = real_get
        fdg.Faker = real_Faker


class _Ctx:
    """Stand-in for the PluginContext: one shared `local_vars` dictionary per template execution."""

    def __init__(self):
        self.vars = {}

    def local_vars(self):
        return self.vars

    def new_execution(self):
        self.vars = {}


# ------------------------------------------------------------------ tables


def names_instance(table):
    """The `FakeNames` instance behind a name table (whatever entry still points to it)."""
    fdg = _fdg()
    for v in table.values():
        o = getattr(v, "__self__", None)
        if isinstance(o, fdg.FakeNames):
            return o
    raise RuntimeError("no FakeNames method left in the name table")


class _Tags:
    """value -> tag; hashable values by equality (bound methods), the rest by identity."""

    def __init__(self):
        self.h, self.i = {}, {}

    def set(self, v, tag, override=True):
        try:
            if override or v not in self.h:
                self.h[v] = tag
        except TypeError:
            if override or id(v) not in self.i:
                self.i[id(v)] = tag

    def get(self, v, default=None):
        try:
            return self.h.get(v, default)
        except TypeError:
            return self.i.get(id(v), default)


def table_of(fd):
    """(faker dir list with tags, ignore list, snow dir list with tags, value->tag map)."""
    fdg = _fdg()
    fn = names_instance(fd.fake_names)
    fk = fn.f
    tags = _Tags()
    snow = []
    for name in dir(fn):
        cv = getattr(type(fn), name, None)
        v = getattr(fn, name)
        if v is NotImplemented:
            tag = "NotImplemented"
        elif name in getattr(type(fn), "_fields", ()):
            tag = "field:" + name
        elif callable(cv) and getattr(cv, "__qualname__", "").startswith("FakeNames."):
            tag = cv.__name__
        elif name in ("count", "index"):
            tag = "tuple." + name
        else:
            tag = "attr:" + name
        snow.append([name, tag])
        if v is not NotImplemented and not name.startswith("_"):
            tags.set(v, tag)
    faker = []
    classes = _Tags()
    n_classes = 0
    for name in dir(fk):
        try:
            v = getattr(fk, name)
        except Exception:  # noqa
            continue
        if v is NotImplemented:
            faker.append([name, "NotImplemented"])
            continue
        k = classes.get(v)
        if k is None:
            k = n_classes
            n_classes += 1
            classes.set(v, k)
        tag = f"fk:{k}"
        faker.append([name, tag])
        if not name.startswith("_") and name not in fdg.faker_class_attrs:
            tags.set(v, tag, override=False)
    return faker, sorted(fdg.faker_class_attrs), snow, tags


def canon_py(s):
    return s.lower().replace("_", "")


def camel(n):
    return "".join(p[:1].upper() + p[1:] for p in n.split("_"))


def spellings_of(n, rng):
    out = [n, n.upper(), n.title(), camel(n), n.replace("_", ""), n.replace("_", "").upper()]
    out.append("".join(c.upper() if rng.random() < 0.5 else c.lower() for c in n))
    out.append("".join(c.upper() if rng.random() < 0.5 else c.lower() for c in n.replace("_", "")))
    return list(dict.fromkeys(out))


def partial_spellings(n, rng):
    """Spellings that differ in underscores only, other than all-or-none (D18, repaired by
    6b5b124): some but not all underscores dropped; an underscore doubled; one added."""
    out = []
    idx = [i for i, c in enumerate(n) if c == "_"]
    if len(idx) >= 2:
        k = rng.randrange(1, len(idx))
        drop = set(rng.sample(idx, k))
        out.append("".join(c for i, c in enumerate(n) if i not in drop))
    if idx:
        i = rng.choice(idx)
        out.append(n[:i] + "_" + n[i:])
    if len(n) >= 2:
        i = rng.randrange(1, len(n))
        out.append(n[:i] + "_" + n[i:])
    return [s for s in dict.fromkeys(out) if s != n]


# ------------------------------------------------------------------ oracles


def clean(s):
    return "".join(c for c in s if c in ALNUM)


def usable(v):
    return isinstance(v, str) and v.isascii() and clean(v) != ""


def oracle_email(rep, case, addr, first, last, matching=True, where=""):
    """`first`/`last`: the values generated earlier (None when none)."""
    if not isinstance(addr, str) or "@" not in addr:
        rep.violation("C18:email-not-an-address", f"fake: email returned {addr!r} {where}", case, "local@domain", addr)
        return
    local, dom = addr.rsplit("@", 1)
    if dom not in RESERVED:
        rep.violation("C18:email-domain-not-reserved", f"fake: email produced the deliverable-looking domain {dom!r} {where}",
                      case, sorted(RESERVED), addr)
        return
    if local == "":
        rep.violation("C18:email-empty-local", f"empty local part {where}", case, "non-empty local part", addr)
        return
    if matching and usable(first) and usable(last):
        f, l = clean(first), clean(last)
        if not (local.startswith(f[0]) and l in local[1:] and "@" not in local and addr.isascii()):
            rep.violation("C18:email-not-built-from-names",
                          f"both names are ASCII ({first!r}, {last!r}) but the address {addr!r} is not built from them {where}",
                          case, f"{f[0]}…{l}…@reserved", addr)


def oracle_username(rep, case, u, seen, uuid=None, where="", draws=None):
    """`draws`: what Faker handed out for this call; a forced draw that breaks Faker's own contract
    (an `@` inside a name / host / uuid) suspends the `@` count, exactly as in `username_one_at`."""
    if not isinstance(u, str):
        rep.violation("C18:username-not-a-string", f"fake: username returned {u!r}", case)
        return
    if len(u) > 80:
        rep.violation("C18:username-too-long", f"username of {len(u)} characters {where}", case, "<= 80", u)
    if draws and any(isinstance(v, str) and "@" in v for k, v in draws.items() if k in ("first", "last", "host", "uuid")):
        rep.count("username:draw-with-at(forced)")
    elif u.count("@") != 1:
        rep.violation("C18:username-at-count", f"username with {u.count('@')} '@' {where}", case, "exactly one '@'", u)
    if u in seen:
        other = seen[u]
        if uuid is not None and other is not None and uuid != other:
            rep.violation("C18:username-repeat-after-truncation",
                          f"two usernames built from different uuids ({other} / {uuid}) are identical after truncation to 80: {u!r}",
                          case, "pairwise distinct usernames", u)
        else:
            rep.violation("C18:username-repeat", f"username {u!r} produced twice {where}", case, "pairwise distinct", u)
    seen[u] = uuid


# ------------------------------------------------------------------ model requests


def model_call(rec):
    d = rec["draws"]
    c = {"sp": rec["sp"], "m": bool(rec["kwargs"].get("matching", True))}
    for k in ("tmpl", "year"):
        if k in d:
            c[k] = d[k]
    for k in ("domain", "fallback", "host", "first", "last", "uuid"):
        if isinstance(d.get(k), str):
            c[k] = d[k]
    res = rec.get("result")
    if res and res[0] == "value" and isinstance(res[1], str):
        c["other"] = res[1]
    return c


_TABLE_CACHE = {}


def table_request_fields(fd, locale):
    if locale not in _TABLE_CACHE:
        faker, ignore, snow, _ = table_of(fd)
        _TABLE_CACHE[locale] = {"faker": faker, "ignore": ignore, "snow": snow}
    return _TABLE_CACHE[locale]


def compare_groups(rep, case, records, locale, what):
    """Group records by context, replay each group on the model, diff."""
    groups = {}
    for r in records:
        groups.setdefault(r["ctx"], []).append(r)
    reqs, metas = [], []
    for ctx, recs in groups.items():
        if any(r["args"] or set(r["kwargs"]) - {"matching"} for r in recs):
            rep.count("group:skipped-args")
            continue
        if not all(r["sp"].isascii() for r in recs):
            rep.count("group:skipped-nonascii-spelling")
            continue
        cut = next((i for i, r in enumerate(recs) if r["result"][0] == "exc"), None)
        if cut is not None:
            rep.count("group:cut-at-exception")
            recs = recs[:cut]
            if not recs:
                continue
        t = table_request_fields(recs[0]["fd"], locale)
        reqs.append(dict(m="c18.run", calls=[model_call(r) for r in recs], **t))
        metas.append(recs)
    for req, recs in zip(reqs, metas):
        _PENDING.append((req, recs, case, what))
    return groups


_PENDING = []


def flush(rep):
    """Send the queued `c18.run` requests to the model in one batch and diff."""
    if not _PENDING:
        return
    items = list(_PENDING)
    del _PENDING[:]
    res = model_batch([it[0] for it in items])
    for (req, recs, case, what), (st, val) in zip(items, res):
        rep.traces_validated += 1
        code = [r["result"][:2] if r["result"][0] == "value" else r["result"][:1] for r in recs]
        if st != "ok":
            rep.disagreement(what, case, {"err": val}, code)
            continue
        if val != code:
            rep.disagreement(what, case, val, code)


def _slim(case):
    return case


# ------------------------------------------------------------------ case kinds


ADVERSARIAL = [
    "A", "Al", "Bo", "x", "O'Brien", "Anne-Marie", "A B C", "Jr.", "'-", "", " ", "Þór", "李", "Zoë", "a@b", "@",
    "{x}", "{0}", "{firstname}", "}{", "J" * 100, "0", "007", "Ünal", "d'Arc", "Mary Ann", "_", "__", "a_b",
    "Nguyễn", "Émile", "😀", "Smith\n", "\t", "Mc.Donald,", "Q",
]


def gen_name(rng):
    r = rng.random()
    if r < 0.45:
        return None  # let the locale's own provider decide
    if r < 0.9:
        return rng.choice(ADVERSARIAL)
    return "".join(rng.choice("abXY19 .'-_@é李{}") for _ in range(rng.randint(0, 12)))


FIRST_SPELLINGS = ["first_name", "FirstName", "firstname", "FIRST_NAME", "First_Name", "FIRSTNAME", "fIrStNaMe", "first__name", "F_irstName"]
LAST_SPELLINGS = ["last_name", "LastName", "lastname", "LAST_NAME", "Last_Name", "LASTNAME", "La_st_Name"]
EMAIL_SPELLINGS = ["email", "Email", "EMAIL", "eMaIl", "E_mail"]
USER_SPELLINGS = ["username", "UserName", "user_name", "USER_NAME", "Username", "USERNAME", "user__name", "U_ser_Name"]
OTHER_SPELLINGS = ["first_name_female", "LastNameMale", "company", "Alias", "city", "name", "prefix", "ssn"]


def gen_seq_case(rng, locale):
    n = rng.randint(2, 9)
    calls = []
    shape = rng.choice(["names-first", "names-first", "mixed", "mixed", "email-first", "one-name"])
    plan = []
    if shape == "names-first":
        plan = ["F", "L"] + [rng.choice("EEUEUO") for _ in range(n)]
    elif shape == "email-first":
        plan = ["E", "U", "F", "L", "E", "U"]
    elif shape == "one-name":
        plan = [rng.choice("FL")] + [rng.choice("EUO") for _ in range(n)]
    else:
        plan = [rng.choice("FLEUOFLE") for _ in range(n + 2)]
    for p in plan:
        c = {}
        if p == "F":
            c["sp"] = rng.choice(FIRST_SPELLINGS)
            c["first"] = gen_name(rng)
        elif p == "L":
            c["sp"] = rng.choice(LAST_SPELLINGS)
            c["last"] = gen_name(rng)
        elif p == "E":
            c["sp"] = rng.choice(EMAIL_SPELLINGS)
            c["tmpl"] = rng.randrange(60)
            c["year"] = rng.choice(["lo", "hi", None, None])
            if rng.random() < 0.12:
                c["m"] = False
        elif p == "U":
            c["sp"] = rng.choice(USER_SPELLINGS)
            if rng.random() < 0.15:
                c["m"] = False
            if rng.random() < 0.4:
                c["first"] = gen_name(rng)
                c["last"] = gen_name(rng)
            if rng.random() < 0.12:
                # host names within the hypothesis of `username_len` (<= 79 characters)
                ln = rng.choice([1, 30, 60, 77, 78, 79])
                c["host"] = ("h" * 70 + "-" + "x" * 20)[: max(1, ln - 4)] + ".com"
        else:
            c["sp"] = rng.choice(OTHER_SPELLINGS)
        calls.append(c)
    return {"kind": "seq", "locale": locale, "seed": rng.randrange(2**31), "calls": calls}


_FD_CACHE = {}


def fake_data_for(locale, seed):
    """One real FakeData per locale (built under the patched factory), re-seeded per case."""
    fdg = _fdg()
    if locale not in _FD_CACHE:
        ctx = _Ctx()
        s = Session(_random.Random(0))
        with controlled(s, seed):
            fd = fdg.FakeData([], locale, ctx)
        _FD_CACHE[locale] = (fd, ctx)
    fd, ctx = _FD_CACHE[locale]
    names_instance(fd.fake_names).f.seed_instance(seed)
    return fd, ctx


def run_seq_case(case, rep):
    locale = case["locale"]
    calls = case["calls"]
    rng = _random.Random(case["seed"])
    fd, ctx = fake_data_for(locale, case["seed"])
    ctx.new_execution()

    def spec(i):
        return {k: v for k, v in calls[i].items() if k not in ("sp", "m")} if i < len(calls) else {}

    s = Session(rng, spec)
    remembered = {}
    seen = case.setdefault("_seen", {}) if False else {}
    outcomes = []
    with controlled(s, case["seed"]):
        for c in calls:
            kw = {} if c.get("m", True) else {"matching": False}
            try:
                v = fd._get_fake_data(c["sp"], **kw)
                outcomes.append(v)
            except AttributeError:
                outcomes.append(None)
                break
            except Exception as e:  # noqa
                outcomes.append(("exc", type(e).__name__))
                report_raise(rep, case, c["sp"], locale, e)
                break
    # direct oracle, with the harness's own bookkeeping of what was generated earlier
    for rec in s.records:
        key = canon_py(rec["sp"])
        res = rec["result"]
        if res[0] == "noSuchName" and _names_a_provider(rec):
            rep.violation("C18:partial-underscore-spelling-rejected",
                          f"locale {locale}: fake: {rec['sp']} is rejected although it differs from a provider name only in underscores/case",
                          case, "resolves to the provider", "No fake data type named " + rec["sp"])
        if res[0] != "value":
            continue
        val = rec.get("raw")
        m = bool(rec["kwargs"].get("matching", True))
        if key == "email":
            rep.count("email:" + ("built" if "tmpl" in rec["draws"] else "fallback"))
            if "tmpl" in rec["draws"]:
                rep.count("email:template", 0)
                rep.extra.setdefault("_templates_seen", set()).add(rec["draws"]["tmpl"])
            oracle_email(rep, case, val, remembered.get("firstname"), remembered.get("lastname"), m, f"(locale {locale})")
            if m and usable(remembered.get("firstname")) and usable(remembered.get("lastname")) and "tmpl" not in rec["draws"]:
                rep.violation("C18:email-not-built-from-names",
                              f"both names are ASCII but the address came from the fall-back (locale {locale})", case,
                              "built from the names", val)
        elif key == "username":
            rep.count("username:" + ("matching" if "first" not in rec["draws"] else "fresh"))
            oracle_username(rep, case, val, seen, rec["draws"].get("uuid"), f"(locale {locale})", rec["draws"])
        remembered[key] = val
    compare_groups(rep, case, s.records, locale, "c18.run(seq)")
    nontrivial = sum(1 for r in s.records if canon_py(r["sp"]) in ("email", "username")) >= 1 and len(s.records) >= 2
    rep.case(case, nontrivial=nontrivial)
    rep.count("seq:calls", len(s.records))


def report_raise(rep, case, spelling, locale, e):
    """A `fake:` call that neither returns nor rejects the name: the property promises a value for
    every locale.  The signature names provider, locale and exception type."""
    if canon_py(spelling) not in ("email", "username"):
        rep.count("other-provider-raises(outside C18)")
        return
    _report_raise(rep, case, spelling, locale, type(e).__name__, str(e))


_KNOWN_SIGS = set()
_RAISE_SEEN = set()


def _report_raise(rep, case, spelling, locale, exc_name, msg, extra=""):
    rep.count("fake-raises")
    sig = f"C18:fake-raises:{canon_py(spelling)}:{locale}:{exc_name}"
    if sig not in _KNOWN_SIGS:
        # one report per (provider, exception type); further locales are only counted
        key = (canon_py(spelling), exc_name)
        if key in _RAISE_SEEN:
            rep.count(f"fake-raises:{key[0]}:{exc_name}:more-locales")
            return
        _RAISE_SEEN.add(key)
    rep.violation(sig, f"fake: {spelling} raised {exc_name} ({msg[:100]}) in locale {locale}{extra}", case, "a value", exc_name)


def _kept(username, uuid):
    local = username.rsplit("@", 1)[0]
    for k in range(len(uuid), -1, -1):
        if local.endswith(uuid[:k]):
            return k
    return 0


# -- recipes

FIELD_SNIPPETS = {
    "F": ["FirstName:\n      fake: {sp}", "FirstName: ${{{{fake.{sp}}}}}"],
    "L": ["LastName:\n      fake: {sp}", "LastName: ${{{{fake.{sp}}}}}"],
    "E": ["Email:\n      fake: {sp}", "Email: ${{{{fake.{sp}}}}}", "Email: ${{{{fake.{sp}(matching=False)}}}}"],
    "U": ["Username:\n      fake: {sp}", "Username: ${{{{fake.{sp}}}}}", "Username: ${{{{fake.{sp}(matching=False)}}}}"],
    "O": ["Other:\n      fake: {sp}"],
}


def gen_recipe_case(rng, locale):
    lines = ["- snowfakery_version: 3", "- var: snowfakery_locale", f"  value: {locale}"]
    n_templates = rng.randint(1, 3)
    for t in range(n_templates):
        lines.append(f"- object: T{t}")
        cnt = rng.choice([1, 1, 2, 3])
        if cnt > 1:
            lines.append(f"  count: {cnt}")
        lines.append("  fields:")
        order = rng.choice(["FLEU", "FLE", "FLUE", "EFLU", "FEL", "LFE", "FLOEU", "EU", "FE", "LFU", "FLEUE"])
        seen_names = set()
        for i, p in enumerate(order):
            sp = rng.choice({"F": FIRST_SPELLINGS, "L": LAST_SPELLINGS, "E": EMAIL_SPELLINGS, "U": USER_SPELLINGS,
                             "O": OTHER_SPELLINGS}[p])
            variants = FIELD_SNIPPETS[p]
            w = [6] + [1] * (len(variants) - 1)
            snip = rng.choices(variants, weights=w)[0].format(sp=sp)
            name = snip.split(":", 1)[0]
            if name in seen_names:
                snip = snip.replace(name, name + str(i), 1)
            seen_names.add(name)
            lines.append("    " + snip)
        if rng.random() < 0.3:
            # a nested object has its own remembered values: nothing leaks in or out
            lines += ["    Child:", "      - object: C" + str(t), "        fields:",
                      "          FirstName:", "            fake: FirstName", "          Email:", "            fake: Email"]
            if rng.random() < 0.5:
                lines += ["    Email9:", "      fake: email"]
    nq = 24
    return {"kind": "recipe", "locale": locale, "seed": rng.randrange(2**31), "text": "\n".join(lines) + "\n",
            "first": [gen_name(rng) for _ in range(nq)], "last": [gen_name(rng) for _ in range(nq)]}


def run_recipe_case(case, rep, expect_error=False):
    locale = case.get("locale")
    rng = _random.Random(case["seed"])
    fq = [x for x in case.get("first", [])]
    lq = [x for x in case.get("last", [])]

    class Q(list):
        pass

    s = Session(rng)
    # queues with None meaning "real provider": implemented through spec_for_call
    firsts, lasts = iter(fq), iter(lq)

    def spec(i):
        d = {}
        f, l = next(firsts, None), next(lasts, None)
        if f is not None:
            d["first"] = f
        if l is not None:
            d["last"] = l
        return d

    s.spec_for_call = spec
    with controlled(s, case["seed"]):
        res = common.run_recipe(case["text"])
    rep.count("recipe:outcome:" + res.outcome)
    by_ctx = {}
    for r in s.records:
        by_ctx.setdefault(r["ctx"], []).append(r)
    # oracle on the captured rows: names generated earlier *in the row*
    seen = {}
    if res.outcome == "ok":
        for table, fields in res.rows:
            first = last = None
            for k, v in fields:
                val = v.get("v") if isinstance(v, dict) and v.get("t") == "str" else None
                if k.startswith("FirstName"):
                    first = val
                elif k.startswith("LastName"):
                    last = val
                elif k.startswith("Email"):
                    # `matching=False` fields are recognised by the recorded call, not by the text
                    oracle_email(rep, case, val, None, None, True, f"(locale {locale}, table {table})")
                    rec = _find_record(s.records, val)
                    if rec is not None and rec["kwargs"].get("matching", True) and usable(first) and usable(last):
                        oracle_email(rep, case, val, first, last, True, f"(locale {locale}, table {table})")
                elif k.startswith("Username"):
                    rec = _find_record(s.records, val)
                    oracle_username(rep, case, val, seen, rec["draws"].get("uuid") if rec else None,
                                    f"(locale {locale}, table {table})", rec["draws"] if rec else None)
    else:
        msg = res.error or ""
        bad = [r for r in s.records if r["result"][0] == "noSuchName"]
        if bad and _names_a_provider(bad[-1]):
            rep.violation("C18:partial-underscore-spelling-rejected",
                          f"fake: {bad[-1]['sp']} is rejected although it differs from a provider name only in underscores/case: {msg[:160]}",
                          case, "resolves to the provider", msg[:200])
        elif not bad:
            exc = [r for r in s.records if r["result"][0] == "exc"]
            if exc and canon_py(exc[-1]["sp"]) not in ("email", "username"):
                rep.count("other-provider-raises(outside C18)")
            elif exc:
                r = exc[-1]
                _report_raise(rep, case, r["sp"], locale, r["result"][1], r["result"][2], ": " + msg[:120])
            elif not expect_error:
                rep.violation("C18:recipe-fails", f"recipe with fake contact fields failed in locale {locale}: {msg[:200]}",
                              case, "ok", res.outcome)
    # remembered values are scoped to one execution of one template: a dictionary seen from two
    # different interpreter frames means they leak (the model resets them per execution)
    frames = {}
    for r in s.records:
        frames.setdefault(r["ctx"], set()).add((r["table"], r["frame"]))
    shared = {c: sorted(str(x[0]) for x in v) for c, v in frames.items() if len(v) > 1}
    if shared:
        rep.disagreement("c18.context-scope", case, "one local_vars dictionary per template execution", shared)
    if s.records:
        compare_groups(rep, case, s.records, locale, "c18.run(recipe)")
    rep.case(case, nontrivial=len(s.records) >= 3)
    rep.count("recipe:calls", len(s.records))
    rep.count("recipe:contexts", len(by_ctx))
    return res, s


def _find_record(records, val):
    for r in records:
        if r.get("raw") == val and r["result"][0] == "value":
            return r
    return None


def _names_a_provider(rec):
    fd = rec["fd"]
    c = canon_py(rec["sp"])
    return any(canon_py(k) == c and v is not NotImplemented for k, v in fd.fake_names.items())


# -- lookup tables


def run_lookup_case(case, rep):
    locale = case["locale"]
    rng = _random.Random(case["seed"])
    fd, ctx = fake_data_for(locale, 0)
    faker, ignore, snow, tags = table_of(fd)
    fdg = _fdg()
    names = [n for n, _ in faker if not n.startswith("_") and n not in fdg.faker_class_attrs]
    names += [n for n, _ in snow if not n.startswith("_")]
    names = list(dict.fromkeys(names))
    if case.get("names"):
        names = [n for n in names if n in case["names"]]
    # markers: the real table with every callable replaced by a tagged stand-in
    real_table = fd.fake_names
    marked = {}
    for k, v in real_table.items():
        if v is NotImplemented:
            marked[k] = v
        else:
            tag = tags.get(v, "untagged:" + k)
            marked[k] = (lambda *a, __t=tag, **kw: ("RESOLVED", __t))
    ctx.new_execution()
    fd.fake_names = marked
    spell = []
    try:
        def resolve(s):
            try:
                r = fd._get_fake_data(s)
                return r[1] if isinstance(r, tuple) and r and r[0] == "RESOLVED" else "value"
            except AttributeError:
                return None

        for n in names:
            ref = resolve(n)
            for s in spellings_of(n, rng):
                got = resolve(s)
                spell.append((n, s, got))
                rep.count("lookup:spellings")
                if got != ref:
                    if ref is not None and got is not None and _same_behaviour(real_table, ref, got, tags):
                        rep.count("lookup:alias-equivalent")
                        continue
                    rep.violation("C18:spelling-resolves-differently",
                                  f"locale {locale}: fake: {s} resolves to {got}, fake: {n} to {ref}",
                                  dict(case, names=[n]), ref, got)
            for s in partial_spellings(n, rng):
                got = resolve(s)
                spell.append((n, s, got))
                rep.count("lookup:partial-underscore")
                if got != ref:
                    if ref is not None and got is not None and _same_behaviour(real_table, ref, got, tags):
                        rep.count("lookup:alias-equivalent")
                        continue
                    rep.violation("C18:partial-underscore-spelling-rejected",
                                  f"locale {locale}: fake: {s} (differs from {n} in underscores only) gives {got}, fake: {n} gives {ref}",
                                  dict(case, names=[n]), ref, got)
    finally:
        fd.fake_names = real_table
    req = {"m": "c18.lookup", "faker": faker, "ignore": ignore, "snow": snow, "spellings": [s for _, s, _ in spell]}
    (st, val), = model_batch([req])
    rep.traces_validated += 1
    code = [g for _, _, g in spell]
    if st != "ok":
        rep.disagreement("c18.lookup", case, {"err": val}, code[:20])
    elif val != code:
        diff = [(spell[i][1], val[i], code[i]) for i in range(len(code)) if val[i] != code[i]][:10]
        rep.disagreement("c18.lookup", case, diff, "see model column")
    rep.case(case, nontrivial=len(spell) > 100)
    rep.count("lookup:names", len(names))


def _same_behaviour(table, tag_a, tag_b, tags):
    """Two table entries count as the same provider when, from the same Faker state, they return
    the same values (aliases such as ko_KR `postal_code` -> `postcode`)."""
    by_tag = {}
    for v in table.values():
        if v is not NotImplemented:
            by_tag.setdefault(tags.get(v), v)
    a, b = by_tag.get(tag_a), by_tag.get(tag_b)
    if a is None or b is None:
        return False
    try:
        fk = names_instance(table).f
        outs = []
        for meth in (a, b):
            fk.seed_instance(12345)
            outs.append([meth() for _ in range(5)])
        return outs[0] == outs[1]
    except Exception:  # noqa
        return False


# -- enumeration of Faker's tables (a test, not a proof)


def run_locale_tables(case, rep):
    from faker import Faker

    locale = case["locale"]
    fk = Faker(locale, use_weighting=False)
    fk.seed_instance(case.get("seed", 0))
    n_dom = 0
    for p in fk.providers:
        doms = getattr(p, "safe_domain_names", None)
        if doms is not None:
            for d in doms:
                n_dom += 1
                if str(d).lower() not in RESERVED:
                    rep.violation("C18:faker-safe-domain-not-reserved",
                                  f"Faker locale {locale}: safe_domain_names contains {d!r}", case, sorted(RESERVED), d)
    rep.count("tables:safe-domain-entries", n_dom)
    if n_dom == 0:
        rep.violation("C18:faker-safe-domain-missing", f"Faker locale {locale}: no safe_domain_names table", case)
    for _ in range(case.get("n", 30)):
        try:
            d = fk.safe_domain_name()
            a = fk.ascii_safe_email()
        except Exception as e:  # noqa
            rep.count("tables:faker-raises:" + type(e).__name__)
            continue
        if d not in RESERVED or a.rsplit("@", 1)[-1] not in RESERVED or not a.isascii():
            rep.violation("C18:faker-safe-domain-not-reserved", f"Faker locale {locale}: {d!r} / {a!r}", case, sorted(RESERVED), [d, a])
    longest = 0
    for _ in range(case.get("n", 30)):
        try:
            h = fk.hostname()
            u = fk.uuid4()
        except Exception as e:  # noqa
            rep.count("tables:faker-raises:" + type(e).__name__)
            continue
        longest = max(longest, len(h))
        if "@" in h or "@" in u or len(u) != 36:
            rep.violation("C18:faker-contract", f"Faker locale {locale}: hostname {h!r} / uuid4 {u!r}", case)
    rep.extra["max_hostname_len_sampled"] = max(rep.extra.get("max_hostname_len_sampled", 0), longest)
    if longest > 79:
        rep.violation("C18:faker-hostname-too-long", f"Faker locale {locale}: hostname of {longest} characters", case, "<= 79")
    n_names = n_nonascii = 0
    for p in fk.providers:
        for attr in dir(p):
            if ("first_name" in attr or "last_name" in attr) and not attr.startswith("_"):
                tbl = getattr(p, attr, None)
                if isinstance(tbl, dict):
                    tbl = list(tbl.keys())
                if isinstance(tbl, (tuple, list)) and tbl and all(isinstance(x, str) for x in tbl):
                    for x in tbl:
                        n_names += 1
                        if not x.isascii():
                            n_nonascii += 1
                        if "@" in x:
                            rep.violation("C18:faker-contract", f"Faker locale {locale}: name {x!r} contains '@'", case)
                        rep.extra["max_name_len"] = max(rep.extra.get("max_name_len", 0), len(x))
    # the locale's own names through the real FakeData: how much of the uuid survives (D22)
    fd, ctx = fake_data_for(locale, case.get("seed", 0))
    sess = Session(_random.Random(case.get("seed", 0)))
    seen = {}
    with controlled(sess, case.get("seed", 0)):
        for _ in range(case.get("n", 30)):
            ctx.new_execution()
            sp = None
            try:
                vals = []
                for sp in ("FirstName", "LastName", "Email", "Username"):
                    vals.append(fd._get_fake_data(sp))
                f, l, e, u = vals
            except Exception as ex:  # noqa
                report_raise(rep, case, sp, locale, ex)
                continue
            oracle_email(rep, case, e, f, l, True, f"(locale {locale}, own names)")
            uu = sess.records[-1]["draws"].get("uuid")
            oracle_username(rep, case, u, seen, uu, f"(locale {locale}, own names)")
            if isinstance(uu, str) and isinstance(u, str):
                kept = _kept(u, uu)
                rep.extra["min_uuid_chars_kept"] = min(rep.extra.get("min_uuid_chars_kept", 36), kept)
                rep.count("own-names:uuid-cut" if kept < len(uu) else "own-names:uuid-whole")
            rep.count("own-names:email-built" if "tmpl" in sess.records[-2]["draws"] else "own-names:email-fallback")
    rep.count("tables:names", n_names)
    rep.count("tables:names-nonascii", n_nonascii)
    rep.case(case, nontrivial=n_names > 0)


def run_static(case, rep):
    fdg = _fdg()
    res = model_batch([{"m": "c18.templates"}, {"m": "c18.snow_dir"}, {"m": "c18.reserved"}])
    rep.traces_validated += 3
    if res[0] != ("ok", list(fdg.email_templates)):
        rep.disagreement("c18.templates", case, res[0][1], list(fdg.email_templates))
    fd, _ = fake_data_for(None, 0)
    _, _, snow, _ = table_of(fd)
    pub = [e for e in snow if not e[0].startswith("_")]
    if res[1] != ("ok", pub):
        rep.disagreement("c18.snow_dir", case, res[1][1], pub)
    if set(res[2][1]) != RESERVED:
        rep.disagreement("c18.reserved", case, res[2][1], sorted(RESERVED))
    # the sanitiser, directly
    samples = ADVERSARIAL + ["".join(chr(c) for c in range(0, 128)), "".join(chr(c) for c in range(120, 300))]
    sres = model_batch([{"m": "c18.sanitise", "s": s} for s in samples])
    for s, (st, val) in zip(samples, sres):
        rep.traces_validated += 1
        code = fdg.replace_unicode_strings_with_None(s)
        if st != "ok" or val != code:
            rep.disagreement("c18.sanitise", {"kind": "sanitise", "s": s}, val, code)
        if code is not None and (set(code) - ALNUM or code != clean(s) or not s.isascii()):
            rep.violation("C18:sanitiser-lets-through", f"sanitiser turned {s!r} into {code!r}", {"kind": "sanitise", "s": s},
                          clean(s), code)
    rep.case(case, nontrivial=True)


# ------------------------------------------------------------------ entry points


def check_case(case, rep):
    k = case.get("kind")
    if k == "seq":
        run_seq_case(case, rep)
    elif k == "recipe":
        run_recipe_case(case, rep, expect_error=case.get("expect_error", False))
    elif k == "lookup":
        run_lookup_case(case, rep)
    elif k == "tables":
        run_locale_tables(case, rep)
    elif k == "static":
        run_static(case, rep)
    elif k == "sanitise":
        run_static({"kind": "static"}, rep)
    else:
        rep.notes.append(f"unknown case kind {k!r}")


def fixed_cases():
    out = [{"kind": "static"}]
    # every template x the name classes that matter, default locale
    names = [("Al", "Bo"), ("A", "Smith"), ("O'Brien", "d'Arc"), ("J" * 100, "K" * 90), ("7", "0")]
    for t in range(60):
        f, l = names[t % len(names)]
        out.append({"kind": "seq", "locale": "en_US", "seed": t, "calls": [
            {"sp": "first_name", "first": f}, {"sp": "LastName", "last": l},
            {"sp": "Email", "tmpl": t, "year": ["lo", "hi", None][t % 3]}, {"sp": "UserName"}]})
    # fall-back conditions
    for f, l in [("Þór", "Smith"), ("Al", "李"), ("'-", "Smith"), ("", "Smith"), ("Al", " "), (None, None)]:
        out.append({"kind": "seq", "locale": "en_US", "seed": 7, "calls": [
            {"sp": "FirstName", "first": f}, {"sp": "last_name", "last": l}, {"sp": "email", "tmpl": 5}, {"sp": "username"}]})
    out.append({"kind": "seq", "locale": "en_US", "seed": 8, "calls": [{"sp": "email"}, {"sp": "username"}, {"sp": "username"}]})
    # host-name boundary of username_len
    for ln in (78, 79):
        out.append({"kind": "seq", "locale": "en_US", "seed": 9, "calls": [
            {"sp": "FirstName", "first": "Al"}, {"sp": "LastName", "last": "Bo"},
            {"sp": "username", "host": "h" * (ln - 4) + ".com"}]})
    return out


def run(ctx, rep, findings):
    rep.rule = (
        "seq: call sequences (first/last name in 7 spellings, email, username, other providers; forced adversarial "
        "names: punctuation, non-ASCII, empty, '@', braces, 100 characters; every template index; both ends of the "
        "year draw; matching on/off; host names up to the 79-character boundary) on a real FakeData per locale with "
        "recorded draws; recipe: generated recipes (1-3 templates, count 1-3, block and inline fake calls, nested "
        "objects) per locale through generate(); lookup: the whole name table of a locale, every name in ~8 spellings "
        "plus partial-underscore spellings; tables: enumeration of Faker's safe domains, name tables, sampled host "
        "names. Non-trivial: a sequence with >= 2 calls of which >= 1 email/username; a recipe with >= 3 fake calls; "
        "a lookup case with > 100 spellings. Distinct = distinct case hash."
    )
    _KNOWN_SIGS.clear()
    _RAISE_SEEN.clear()
    _KNOWN_SIGS.update(f["signature"] for f in findings if f.get("status") == "finding")
    cases = [f["input"] for f in findings if f.get("input")]
    cases += ctx.corpus()
    cases += fixed_cases()
    locs = locales()
    rng = ctx.rng
    # exhaustive over locales (a test): Faker's side of the contract, and the whole name table
    for loc in locs:
        cases.append({"kind": "tables", "locale": loc, "seed": ctx.seed, "n": ctx.scale(20, 200)})
    lookup_locs = locs if ctx.tier == "thorough" else (["en_US", "ko_KR", "ja_JP"] + rng.sample(locs, min(len(locs), ctx.scale(40, 0))))
    for loc in dict.fromkeys(lookup_locs):
        cases.append({"kind": "lookup", "locale": loc, "seed": rng.randrange(2**31)})
    per_loc_seq = ctx.scale(20, 300)
    per_loc_recipe = ctx.scale(3, 30)
    gen = []
    for loc in locs:
        for _ in range(per_loc_seq):
            gen.append(gen_seq_case(rng, loc))
        for _ in range(per_loc_recipe):
            gen.append(gen_recipe_case(rng, loc))
    rng.shuffle(gen)
    cases += gen
    rep.extra["locales"] = len(locs)
    for i, case in enumerate(cases):
        check_case(case, rep)
        if len(_PENDING) >= 300:
            flush(rep)
        if ctx.time_left() < 30:
            rep.notes.append(f"stopped early after {i + 1} of {len(cases)} cases: time budget")
            break
        if i > 400 and rep.violations and (len(rep.disagreements) > 300 or len({v["signature"] for v in rep.violations}) > 12):
            rep.notes.append(f"stopped after {i + 1} of {len(cases)} cases: failing inputs found, many ties broken")
            break
    flush(rep)
    ts = rep.extra.pop("_templates_seen", set())
    rep.extra["templates_exercised"] = len(ts)
    rep.histogram.pop("email:template", None)


def shrink(case, signature):
    """Drop calls of a sequence / names of a lookup while the same signature still fires."""
    if case.get("kind") != "seq":
        return case

    def fails(calls):
        r = common.Report("C18")
        try:
            run_seq_case(dict(case, calls=calls), r)
            del _PENDING[:]
        except Exception:  # noqa
            return False
        return any(v["signature"] == signature for v in r.violations)

    return dict(case, calls=common.shrink_list(case["calls"], fails))


def replay(case, rep):
    check_case(case, rep)
    flush(rep)
