"""C01 — row ids are unique and dense per table across iterations and continuations."""
from . import l1, l1cases

SPEC = {
    "lean": ["SnowModel.Props.C01", "SnowModel.Props.C01L2", "SnowModel.Props.L1Bridge"],
    "pins": ["Runtime", "ObjectRows", "ObjectModel"],
    "technique": "Lean 4 invariant proof over arbitrary op sequences of the id/slot/registry machine (L1) + AST pins (object_names order, IdManager.__setstate__ arithmetic, generate_id call order) + op-by-op trace correspondence with the real interpreter",
    "level_text": "Machine-checked proof that for every operation sequence (hence every recipe, iteration count and continuation split) the ids issued per table are exactly 1..lastUsed without repetition, that a reserved id never survives a successful iteration boundary, and that a continuation resumes at lastUsed+1; the same invariant is carried through the L2 reference interpreter (Props/C01L2: for every recipe of the modelled language without a field named `id`, every iteration count and continuation split, the stored and emitted row ids of each table are exactly 1..n); the machine is tied to the code by replaying, op for op with state digests, traces captured from real runs of generated recipes x iteration counts x continuation compositions, and by a direct density oracle on the emitted rows.",
    "level_note": "Trusted: Lean kernel, py2lean, the trace wrappers (monkey-patched from the harness). The L1 machine abstracts field evaluation away (ops are what the interpreter asks of the id/slot/registry layer); that the interpreter only touches that layer through the wrapped calls is checked by the state digests, not proved.",
    "assumptions": ["nicknames_and_tables is a dict (unique keys)", "a continuation file is written only by a run that completed"],
}

ORACLES = [l1.oracle_dense_ids]
GEN = {"hostile_names": 0.25}

FIXED = [
    {"recipe": "- object: A\n  fields:\n    r1:\n      reference: n1\n    r2:\n      reference: B\n- object: B\n  nickname: n1\n- object: B\n", "parts": [2, 1], "features": ["reference"]},
    {"recipe": "- object: A\n  fields:\n    ref:\n      reference: n1\n- object: B\n  nickname: n1\n- object: C\n  nickname: n1\n", "parts": [2], "features": ["reference"]},
    {"recipe": "- object: A\n  fields:\n    ref:\n      reference: B\n    kid:\n      - object: B\n- object: C\n  nickname: B\n", "parts": [1, 1], "features": ["reference", "nested"]},
]


def run(ctx, rep, findings):
    rep.rule = ("recipes from harness.recipes.RefGen (2-5 top-level templates over tables A,B,C,__H, nicknames incl. "
                "shared / equal to table names, forward/backward/self references, nested objects, friends, counts 0-3, "
                "just_once) x 1-4 iterations x random continuation compositions; each run traced and replayed on the "
                "Lean machine. Non-trivial: completed, >= 3 rows, uses reference/nested/friends.")
    l1cases.run_l1(ctx, rep, "C01", GEN, ORACLES, findings, 1200, 12000, FIXED)
    for _ in range(ctx.scale(80, 800)):
        run_varying(rep, varying_case(ctx.rng))
    rep.count("family:row-count-varies-with-iteration")


def varying_case(rng):
    """Tables whose number of rows varies with the iteration (0 in some, also in the first) over chains of three and
    more runs: a table is idle in some runs and gets its first id in a continued one."""
    a, b = rng.choice([1, 2, 3]), rng.choice([1, 2, 3])
    v = rng.choice([2, 3])
    lines = [f"- snowfakery_version: {v}", "- object: K", "  nickname: tick"]
    for t, (x, y) in (("T", (a, b)), ("U", (b, rng.choice([1, 2, 4])))):
        lines += [f"- object: {t}", "  count: ${{ (tick.id - %d) * (tick.id - %d) }}" % (x, y), "  fields:", "    k:", "      reference: tick"]
        if rng.random() < 0.4:
            lines += ["  friends:", "    - object: W", "      fields:", "        t:", f"          reference: {t}"]
    k = rng.randint(3, 5)
    from . import recipes

    parts = rng.choice([c for c in recipes.all_compositions(k) if len(c) >= 3])
    return {"kind": "varying", "recipe": "\n".join(lines) + "\n", "parts": parts}


def run_varying(rep, case):
    chain = l1.run_chain(case["recipe"], case["parts"], trace=False, final_continuation=False)
    rep.count("varying:" + chain.outcome.split(":")[0])
    rep.case({"recipe": case["recipe"], "parts": case["parts"]}, nontrivial=chain.outcome == "ok")
    if chain.outcome != "ok":
        # the uninterrupted run of such a recipe always completes: a failing chain is C04's subject, but ids cannot be
        # dense either
        one = l1.run_chain(case["recipe"], [sum(case["parts"])], trace=False, final_continuation=False)
        if one.outcome == "ok":
            rep.violation("C01:chain-fails-where-single-run-completes", f"chain {case['parts']} fails ({(chain.error or '')[:140]}); one run of {sum(case['parts'])} iterations completes", case, "ok", chain.error)
        return
    ids = {}
    for run_ in chain.runs:
        for t, fields in run_.rows:
            ids.setdefault(t, []).append(dict(fields).get("id"))
    for t, l in ids.items():
        if l != list(range(1, len(l) + 1)):
            rep.violation("C01:ids-not-dense", f"ids of table {t} over the chain {case['parts']} are {l}, not 1..{len(l)}", case, list(range(1, len(l) + 1)), l)
            return


def replay(case, rep):
    if case.get("kind") == "varying":
        run_varying(rep, case)
        return
    l1cases.replay_l1(case, rep, "C01", ORACLES)


def shrink(case, signature):
    if case.get("kind") == "varying":
        return case
    return l1cases.shrink_recipe(case, signature, "C01", ORACLES)
