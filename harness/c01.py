"""C01 — row ids are unique and dense per table across iterations and continuations."""
from . import l1, l1cases

SPEC = {
    "lean": ["SnowModel.Props.C01", "SnowModel.Props.C01L2", "SnowModel.Props.L1Bridge"],
    "pins": ["Runtime", "ObjectRows", "ObjectModel"],
    "technique": "Lean 4 invariant proof over arbitrary op sequences of the id/slot/registry machine (L1) + AST pins (object_names order, IdManager.__setstate__ arithmetic, generate_id call order) + op-by-op trace correspondence with the real interpreter",
    "level_text": "Machine-checked proof that for every operation sequence (hence every recipe, iteration count and continuation split) the ids issued per table are exactly 1..lastUsed without repetition, that a reserved id never survives a successful iteration boundary, and that a continuation resumes at lastUsed+1; the same invariant is carried through the L2 reference interpreter (Props/C01L2: for every recipe of the modelled language without a field named `id`, every iteration count and continuation split, the stored and emitted row ids of each table are exactly 1..n); the machine is tied to the code by replaying, op for op with state digests, traces captured from real runs of generated recipes x iteration counts x continuation compositions, and by a direct density oracle on the emitted rows.",
    "level_note": "Trusted: Lean kernel, py2lean, the trace wrappers (monkey-patched from the harness). The L1 machine abstracts field evaluation away (ops are what the interpreter asks of the id/slot/registry layer); that the interpreter only touches that layer through the wrapped calls is checked by the state digests, not proved.",
    "assumptions": ["nicknames_and_tables is a dict (unique keys)", "a continuation file is written only by a run that completed"],
}

ORACLES = [l1.oracle_dense_ids]
GEN = {"hostile_names": 0.25}

FIXED = [
    {"recipe": "- object: A\n  fields:\n    r1:\n      reference: n1\n    r2:\n      reference: B\n- object: B\n  nickname: n1\n- object: B\n", "parts": [2, 1], "features": ["reference"]},
    {"recipe": "- object: A\n  fields:\n    ref:\n      reference: n1\n- object: B\n  nickname: n1\n- object: C\n  nickname: n1\n", "parts": [2], "features": ["reference"]},
    {"recipe": "- object: A\n  fields:\n    ref:\n      reference: B\n    kid:\n      - object: B\n- object: C\n  nickname: B\n", "parts": [1, 1], "features": ["reference", "nested"]},
]


def run(ctx, rep, findings):
    rep.rule = ("recipes from harness.recipes.RefGen (2-5 top-level templates over tables A,B,C,__H, nicknames incl. "
                "shared / equal to table names, forward/backward/self references, nested objects, friends, counts 0-3, "
                "just_once) x 1-4 iterations x random continuation compositions; each run traced and replayed on the "
                "Lean machine. Non-trivial: completed, >= 3 rows, uses reference/nested/friends.")
    l1cases.run_l1(ctx, rep, "C01", GEN, ORACLES, findings, 1200, 12000, FIXED)


def replay(case, rep):
    l1cases.replay_l1(case, rep, "C01", ORACLES)


def shrink(case, signature):
    return l1cases.shrink_recipe(case, signature, "C01", ORACLES)
