"""C20 — documents, structural edits and the runner on the real code (no model here).

A *case* is JSON-able:
  {"text": <YAML text of the main recipe>,
   "name": <path relative to the Snowfakery checkout the stream pretends to come from> | None,
   "files": {<flat file name>: <YAML text>} | None,          # written to a temp dir with the recipe
   "origin": <free text: base recipe and the edit>}
`name` lets corpus recipes keep their include_file / plugin / dataset neighbours without writing
anything into the checkout: `parse_file` only looks at `stream.name`.
"""
import datetime
import io
import json
import os
import shutil
import signal
import sys
import tempfile
import time
import traceback
from contextlib import contextmanager

import yaml

from . import common

REPO = common.REPO
CASE_TIMEOUT = 5.0  # the watchdog of the property: a document that takes longer "hangs"
ROW_CAP = 4000

# ----------------------------------------------------------------------------- YAML in / out


class _Dumper(yaml.SafeDumper):
    def ignore_aliases(self, data):
        return True


def dump(doc):
    return yaml.dump(doc, Dumper=_Dumper, sort_keys=False, allow_unicode=True, default_flow_style=False, width=1000)


def load(text):
    return yaml.safe_load(text)


# ----------------------------------------------------------------------------- watchdog


class CaseTimeout(BaseException):
    pass


class RowCapExceeded(BaseException):
    pass


@contextmanager
def time_limit(seconds):
    """Per-document watchdog that coexists with ./check's own SIGALRM budget."""
    try:
        old = signal.getsignal(signal.SIGALRM)
        remaining = signal.alarm(0)
    except ValueError:  # not the main thread
        yield
        return

    def handler(*_):
        raise CaseTimeout()

    signal.signal(signal.SIGALRM, handler)
    signal.setitimer(signal.ITIMER_REAL, seconds)
    try:
        yield
    finally:
        signal.setitimer(signal.ITIMER_REAL, 0)
        signal.signal(signal.SIGALRM, old)
        if remaining:
            signal.alarm(remaining)


# ----------------------------------------------------------------------------- running the real code


class _NamedStringIO(io.StringIO):
    name = None


STATIC_STAGE_FUNCS = (
    ("parse_recipe", "parse"),
    ("merge_options", "options"),
    ("find_tables_to_keep_history_for", "refs"),
)


def _site_of(e):
    """(site, stage, family).  site = "<ExceptionType>@<module>.<function>" of the innermost Snowfakery frame -- the
    key of a known finding.  RecursionError: the innermost frame is wherever the stack happened to run out; the key
    is the outermost Snowfakery function that occurs at least three times in the traceback (the cycle).
    family: "*@…VariableDefinition.evaluate" when the exception passed through the evaluation of a `var` value
    (finding D17r, repaired by a876aa4: that evaluation used to be wrapped by no handler at all, so whatever a
    formula / plugin raised escaped).  An escape is reported under its own site *and* under the family key, so a
    regression of D17r shows up with the recorded signature while every distinct site stays visible.
    stage: parse | options | refs (the passes that run before the interpreter starts) | run."""
    tb = e.__traceback__
    inner = None
    stage = "run"
    marker = os.sep + "snowfakery" + os.sep
    frames = []
    through_var = False
    while tb is not None:
        code = tb.tb_frame.f_code
        fn = code.co_filename
        if marker in fn and (os.sep + "harness" + os.sep) not in fn:
            mod = os.path.splitext(os.path.basename(fn))[0]
            inner = f"{mod}.{code.co_name}"
            frames.append(inner)
            for fname, st in STATIC_STAGE_FUNCS:
                if code.co_name == fname and stage == "run":
                    stage = st
            if getattr(code, "co_qualname", "") == "VariableDefinition.evaluate":
                through_var = True
        tb = tb.tb_next
    if isinstance(e, RecursionError):
        counts = {}
        for f in frames:
            counts[f] = counts.get(f, 0) + 1
        for f in frames:
            if counts[f] >= 3:
                inner = f
                break
    family = "*@data_generator_runtime_object_model.VariableDefinition.evaluate" if through_var else None
    return f"{type(e).__name__}@{inner}", stage, family


def run_case(case):
    """Run one document through `snowfakery.data_generator.generate`.

    Returns {"outcome": ok | recipe_error | internal:<Type> | hang | capped, "site": <Type>@<module>.<function> | None,
             "stage": parse | run | None, "rows": <number of rows captured>, "error": text, "has_line": bool,
             "errtype": name, "secs": float}
    """
    from snowfakery.data_generator import generate
    from snowfakery.api import SnowfakeryApplication
    from snowfakery import data_gen_exceptions as exc

    stream = common.make_capture_stream()
    orig_write = stream.write_row

    def write_row(tablename, row):
        if len(stream.rows) >= ROW_CAP:
            raise RowCapExceeded()
        return orig_write(tablename, row)

    stream.write_row = write_row
    app = SnowfakeryApplication(None)
    app.echo = lambda *a, **k: None
    res = {"outcome": None, "site": None, "family": None, "stage": None, "rows": 0, "error": None, "has_line": False, "errtype": None}
    tmpdir = None
    src = None
    t0 = time.time()
    old_limit = sys.getrecursionlimit()
    cwd = os.getcwd()
    devnull = open(os.devnull, "w")
    old_out, old_err = sys.stdout, sys.stderr
    sys.stdout = sys.stderr = devnull
    try:
        try:
            with time_limit(CASE_TIMEOUT):
                if case.get("files") is not None:
                    tmpdir = tempfile.mkdtemp(prefix="verif_c20_")
                    for name, text in case["files"].items():
                        with open(os.path.join(tmpdir, name), "w") as f:
                            f.write(text)
                    path = os.path.join(tmpdir, "main.recipe.yml")
                    with open(path, "w") as f:
                        f.write(case["text"])
                    src = open(path)
                else:
                    src = _NamedStringIO(case["text"])
                    if case.get("name"):
                        src.name = os.path.join(REPO, case["name"])
                generate(src, {}, stream, parent_application=app, plugin_options={})
                res["outcome"] = "ok"
        except CaseTimeout as e:
            res["outcome"] = "hang"
            res["error"] = f"no result after {CASE_TIMEOUT}s"
            res["site"], res["stage"], _ = _site_of(e)
            res["site"] = "hang@" + res["site"].split("@", 1)[1]
            del e
        except RowCapExceeded:
            res["outcome"] = "capped"
        except BaseException as e:  # noqa
            if isinstance(e, (KeyboardInterrupt, SystemExit)):
                raise
            res["outcome"] = common.outcome_of_exception(e)
            res["errtype"] = type(e).__name__
            res["error"] = f"{type(e).__name__}: {str(e)[:300]}"
            res["site"], res["stage"], res["family"] = _site_of(e)
            if isinstance(e, exc.DataGenError):
                res["has_line"] = bool(e.line_num)
                res["line"] = e.line_num
                res["file"] = e.filename
                res["has_message"] = bool(str(getattr(e, "message", "") or "").strip())
            del e
    finally:
        sys.stdout, sys.stderr = old_out, old_err
        devnull.close()
        sys.setrecursionlimit(old_limit)
        try:
            os.chdir(cwd)
        except OSError:
            pass
        if src is not None:
            try:
                src.close()
            except Exception:  # noqa
                pass
        if tmpdir:
            shutil.rmtree(tmpdir, ignore_errors=True)
    res["rows"] = len(stream.rows)
    res["secs"] = round(time.time() - t0, 3)
    return res


# ----------------------------------------------------------------------------- corpus of valid recipes


def corpus_files():
    out = []
    for sub in ("tests", "examples", "docs/examples"):
        base = os.path.join(REPO, sub)
        for d, _, fs in os.walk(base):
            for f in sorted(fs):
                if f.endswith((".yml", ".yaml")):
                    p = os.path.join(d, f)
                    out.append(os.path.relpath(p, REPO))
    return sorted(set(out))


SKIP_WORDS = ("Salesforce", "SOQL", "soql", "find_record", "ProfileId", "query_random", "sf_org")


def load_corpus():
    """[(relative name, text, parsed doc)] of recipes that can serve as bases (cheap syntactic filter only;
    `valid_bases` keeps those that actually run)."""
    out = []
    for rel in corpus_files():
        try:
            with open(os.path.join(REPO, rel)) as f:
                text = f.read()
        except OSError:
            continue
        if len(text) > 6000 or any(w in text for w in SKIP_WORDS):
            continue
        try:
            doc = load(text)
        except Exception:  # noqa
            continue
        if not isinstance(doc, list):
            continue
        out.append((rel, text, doc))
    return out


# generated bases: small recipes that together use every construct of the modelled layer
GENERATED_BASES = {
    "gen/plain": "- object: A\n  count: 2\n  fields:\n    name: x\n    n: 5\n",
    "gen/nested": "- object: A\n  nickname: a1\n  fields:\n    child:\n      - object: B\n        fields:\n          k: v\n  friends:\n    - object: C\n      count: 2\n      fields:\n        r:\n          reference: a1\n",
    "gen/var": "- var: v\n  value: 7\n- object: A\n  fields:\n    x: ${{v}}\n    y:\n      random_number:\n        min: 1\n        max: 3\n",
    "gen/macro": "- macro: m1\n  fields:\n    a: 1\n  friends:\n    - object: F\n- macro: m2\n  include: m1\n  fields:\n    b: 2\n- object: A\n  include: m2\n  fields:\n    c: 3\n",
    "gen/option": "- option: o1\n  default: 5\n- snowfakery_version: 3\n- object: A\n  just_once: true\n  fields:\n    x: ${{o1}}\n",
    "gen/plugin": "- plugin: snowfakery.standard_plugins.Math\n- object: A\n  fields:\n    x:\n      Math.sqrt: 4\n",
    "gen/choice": "- object: A\n  count: 3\n  fields:\n    x:\n      random_choice:\n        - a\n        - b\n    y:\n      random_choice:\n        - choice:\n            probability: 50%\n            pick: p\n        - choice:\n            probability: 50%\n            pick: q\n    z:\n      if:\n        - choice:\n            when: ${{1 > 2}}\n            pick: no\n        - choice:\n            pick: yes\n",
    "gen/refs": "- object: P\n  count: 3\n- object: C\n  count: 2\n  fields:\n    p:\n      random_reference: P\n    q:\n      random_reference:\n        to: P\n        unique: true\n    d:\n      date_between:\n        start_date: 2020-01-01\n        end_date: today\n",
    "gen/foreach": "- plugin: snowfakery.standard_plugins.Counters\n- object: A\n  count: 2\n  fields:\n    n:\n      Counters.NumberCounter:\n        start: 3\n    f:\n      fake: first_name\n    d: 2021-02-03\n    t: true\n    u: null\n    w: 1.5\n",
    "gen/update_key": "- object: A\n  update_key: name\n  fields:\n    name: x\n- var: w\n  value:\n    - object: H\n      fields:\n        z: 1\n",
}
GENERATED_BASES.update({
    # every scalar position a formula can stand in: option default, top-level var, count (plain and formula), field,
    # positional and keyword arguments of a function, nested template field, friend var, friend count
    "gen/positions": "- option: o\n  default: d\n- var: tv\n  value: t\n- object: A\n  count: '2'\n  nickname: n\n  fields:\n    f: x\n    g:\n      random_choice:\n        - a\n        - b\n    h:\n      random_number:\n        min: 1\n        max: ${{3}}\n    i:\n      if:\n        - choice:\n            when: ${{1 > 2}}\n            pick: p\n        - choice:\n            pick: q\n    k:\n      - object: N\n        fields:\n          nf: z\n  friends:\n    - var: fv\n      value: y\n    - object: B\n      count: ${{1 + 1}}\n      fields:\n        bf: ${{fv}} ${{tv}} ${{o}}\n",
    "gen/positions-v3": "- snowfakery_version: 3\n- var: tv\n  value: ${{1 + 1}}\n- object: A\n  count: ${{tv}}\n  fields:\n    f: ${{child_index}}\n  friends:\n    - var: fv\n      value: ${{tv * 2}}\n    - object: B\n      fields:\n        bf: ${{fv}}\n",
})

GENERATED_BASES.update({
    # the locale: set directly, and through an option (in the version-3 dialect the option's value keeps its type)
    "gen/locale-var": "- var: snowfakery_locale\n  value: fr_FR\n- object: A\n  fields:\n    n:\n      fake: first_name\n",
    "gen/locale-option": "- snowfakery_version: 3\n- option: loc\n  default: en_US\n- var: snowfakery_locale\n  value: ${{loc}}\n- object: A\n  fields:\n    n:\n      fake: first_name\n  friends:\n    - var: snowfakery_locale\n      value: ja_JP\n    - object: B\n      fields:\n        m:\n          fake: first_name\n",
    "gen/locale-option-v2": "- option: loc\n  default: en_US\n- var: snowfakery_locale\n  value: ${{loc}}\n- object: A\n  fields:\n    n:\n      fake: first_name\n",
})

GENERATED_FILES = {
    "gen/include": (
        "- include_file: inc.yml\n- object: A\n  include: im\n  fields:\n    x: ${{iv}}\n",
        {"inc.yml": "- macro: im\n  fields:\n    q: 1\n- var: iv\n  value: 3\n- object: I\n"},
    ),
    # versions across files (fix 6931335): a version declared in an included file applies to the recipe; the
    # files must agree
    "gen/include-version-same": (
        "- snowfakery_version: 3\n- include_file: inc.yml\n- object: A\n  fields:\n    x: ${{1 + 1}}\n",
        {"inc.yml": "- snowfakery_version: 3\n- object: I\n  fields:\n    y: ${{2 + 2}}\n"},
    ),
    "gen/include-version-inner-only": (
        "- include_file: inc.yml\n- object: A\n",
        {"inc.yml": "- snowfakery_version: 3\n- snowfakery_version: 3\n- include_file: inc2.yml\n- object: I\n", "inc2.yml": "- snowfakery_version: 3\n- object: J\n"},
    ),
    "gen/include2": (
        "- include_file: inc.yml\n- object: A\n",
        {"inc.yml": "- include_file: inc2.yml\n- object: I\n", "inc2.yml": "- option: oo\n  default: 1\n- object: J\n  fields:\n    v: ${{oo}}\n"},
    ),
}


def base_cases():
    out = []
    for rel, text, doc in load_corpus():
        out.append({"text": text, "name": rel, "files": None, "origin": rel})
    for k, text in GENERATED_BASES.items():
        out.append({"text": text, "name": None, "files": None, "origin": k})
    for k, (text, files) in GENERATED_FILES.items():
        out.append({"text": text, "name": None, "files": files, "origin": k})
    return out


# ----------------------------------------------------------------------------- structural edits

DATE = datetime.date(2020, 1, 1)
POOL = [None, True, 5, 1.5, "x", [], [1, 2], {}, {"a": "b"}, DATE]
EXTRA_POOL = [False, 0, "", "a.b.c", [{"a": "b"}], [5], [None], {5: "x"}, {"object": "Z"}, {"a.b.c": 1}, "/abs", ".", -1, [[]], {"": 1}, "main.recipe.yml", "a.b", 2.0, {"to": "A"}, {"random_reference": "A"},
              1, 3, 4, {"object": "Z", "just_once": True}, {"object": "Z", "count": 2, "for_each": {"var": "v", "value": "x"}}, "${{ None }}", "m, m", "en-US", "en_US", [None], {"a": {"b": "c"}}]
KEY_POOL = [
    "zzz", "", 5, True, None, DATE, 1.5, "a.b.c",
    "object", "fields", "friends", "include", "nickname", "just_once", "for_each", "count", "update_key",
    "var", "value", "macro", "include_file", "option", "default", "plugin", "snowfakery_version",
    "random_reference", "reference", "to", "random_choice", "choice", "pick", "if",
]


def shape_of(v):
    if v is None:
        return "null"
    if isinstance(v, bool):
        return "bool"
    if isinstance(v, int):
        return "int"
    if isinstance(v, float):
        return "float"
    if isinstance(v, str):
        return "str"
    if isinstance(v, (datetime.date, datetime.datetime)):
        return "date"
    if isinstance(v, list):
        return "list" if v else "emptylist"
    if isinstance(v, dict):
        return "map" if v else "emptymap"
    return "other"


def walk(doc, path=()):
    """Yield (path, node) for every node; a path is a tuple of ('i', index) / ('k', key) steps."""
    yield path, doc
    if isinstance(doc, list):
        for i, x in enumerate(doc):
            yield from walk(x, path + (("i", i),))
    elif isinstance(doc, dict):
        for k, v in doc.items():
            yield from walk(v, path + (("k", k),))


def _copy(v):
    if isinstance(v, list):
        return [_copy(x) for x in v]
    if isinstance(v, dict):
        return {k: _copy(x) for k, x in v.items()}
    return v


def get_at(doc, path):
    for _, s in path:
        doc = doc[s]
    return doc


def replace_at(doc, path, value):
    if not path:
        return _copy(value)
    doc = _copy(doc)
    cur = doc
    for _, s in path[:-1]:
        cur = cur[s]
    cur[path[-1][1]] = _copy(value)
    return doc


def delete_at(doc, path):
    doc = _copy(doc)
    cur = doc
    for _, s in path[:-1]:
        cur = cur[s]
    del cur[path[-1][1]]
    return doc


def rename_at(doc, path, newkey):
    doc = _copy(doc)
    cur = doc
    for _, s in path[:-1]:
        cur = cur[s]
    old = path[-1][1]
    items = [((newkey if (k == old and type(k) is type(old)) else k), v) for k, v in cur.items()]
    cur.clear()
    for k, v in items:
        cur[k] = v
    return doc


def edits_of(doc, extra=False):
    """Every single structural edit of `doc`: [(description, edit)], edit = (op, path, arg)."""
    out = []
    pool = POOL + (EXTRA_POOL if extra else [])
    for path, node in walk(doc):
        sh = shape_of(node)
        for v in pool:
            if type(v) is type(node) and v == node:
                continue
            if shape_of(v) == sh and sh in ("null", "emptylist", "emptymap"):
                continue
            out.append(("replace", path, v))
        if path:
            kind, step = path[-1]
            if kind == "k":
                out.append(("delete", path, None))
                parent = get_at(doc, path[:-1])
                for nk in KEY_POOL:
                    if nk in parent and any(type(k) is type(nk) and k == nk for k in parent):
                        continue
                    out.append(("rename", path, nk))
            else:
                out.append(("delete", path, None))
    return out


def apply_edit(doc, edit):
    op, path, arg = edit
    if op == "replace":
        return replace_at(doc, path, arg)
    if op == "delete":
        return delete_at(doc, path)
    return rename_at(doc, path, arg)


def describe(edit):
    op, path, arg = edit
    p = "/".join(str(s) for _, s in path)
    return f"{op} {p}" + ("" if op == "delete" else f" -> {arg!r}")


# ----------------------------------------------------------------------------- grammar-free random YAML

WORDS = [
    "object", "fields", "friends", "include", "nickname", "just_once", "for_each", "count", "update_key", "var", "value",
    "macro", "include_file", "option", "default", "plugin", "snowfakery_version", "random_reference", "reference", "to",
    "random_choice", "choice", "pick", "probability", "if", "when", "random_number", "min", "max", "fake", "date_between",
    "A", "B", "m1", "x", "a.b", "a.b.c", "", "${{1+1}}", "${{x}}", "${{", "__h", "Math.sqrt", "snowfakery.standard_plugins.Math",
    "unique", "scope", "name", "true", "5",
]


def random_scalar(rng):
    r = rng.random()
    if r < 0.45:
        return rng.choice(WORDS)
    if r < 0.6:
        return rng.choice([0, 1, 2, 3, 5, -1, 10**6])
    if r < 0.7:
        return rng.choice([True, False])
    if r < 0.8:
        return None
    if r < 0.88:
        return rng.choice([1.5, 0.0, 2.0, 3.0])
    return rng.choice([DATE, datetime.datetime(2020, 1, 1, 10, 0, 0)])


def random_value(rng, depth):
    r = rng.random()
    if depth <= 0 or r < 0.3:
        return random_scalar(rng)
    if r < 0.55:
        return [random_value(rng, depth - 1) for _ in range(rng.choice([0, 1, 1, 2, 3]))]
    d = {}
    for _ in range(rng.choice([0, 1, 1, 2, 2, 3, 4])):
        k = rng.choice(WORDS) if rng.random() < 0.9 else random_scalar(rng)
        try:
            d[k] = random_value(rng, depth - 1)
        except TypeError:
            pass
    return d


def random_doc(rng):
    r = rng.random()
    if r < 0.08:
        return random_value(rng, 3)
    return [random_value(rng, rng.choice([2, 3, 4])) if rng.random() < 0.2 else random_statement(rng) for _ in range(rng.choice([0, 1, 1, 2, 3, 4]))]


def random_statement(rng):
    """A map that starts with one of the top-level words (so that the deeper layers are reached)."""
    head = rng.choice(["object", "object", "object", "var", "macro", "option", "plugin", "include_file", "snowfakery_version"])
    d = {head: random_scalar(rng) if rng.random() < 0.4 else rng.choice(["A", "B", "m1", "v", "snowfakery.standard_plugins.Math", 2, 3])}
    for _ in range(rng.choice([0, 1, 2, 3])):
        k = rng.choice(WORDS[:20]) if rng.random() < 0.9 else random_scalar(rng)
        try:
            d[k] = random_value(rng, rng.choice([1, 2, 3]))
        except TypeError:
            pass
    return d


# template strings that do not compile (Jinja TemplateSyntaxError), in every syntax Snowfakery accepts, with and
# without lone braces (a lone `{` / `}` is what breaks a `str.format` over a message that embeds the template)
BROKEN_TEMPLATES = [
    "${% if %}", "${% for x in %}", "${{ {'a': 1 }}", "${{ 1 + }}", "${{ foo( }}", "${{ a } }}", "${{ }", "${%", "${{ x",
    "a { b ${{ 1 + }}", "${% endif %} }", "${{ '{0}' + }}", "${{ {} + }}",
    "<< 1 + >>", "<< { >>", "<% if %>", "<% for x in %> {",
]
# templates that compile but fail when rendered
FAILING_TEMPLATES = ["${{ 1 / 0 }}", "${{ nosuch.attr }}", "${{ {'a': 1}['b'] }}", "${{ '{' + 1 }}", "<< 1 / 0 >>"]


def scalar_value_positions(doc, path=()):
    """Paths of the scalar nodes in value position (not keys)."""
    if isinstance(doc, list):
        for i, x in enumerate(doc):
            yield from scalar_value_positions(x, path + (("i", i),))
    elif isinstance(doc, dict):
        for k, v in doc.items():
            yield from scalar_value_positions(v, path + (("k", k),))
    else:
        yield path


def _indent(text, n):
    return "\n".join((" " * n + l) if l else l for l in text.split("\n"))


# position probes: a tiny recipe per scalar position in which a formula is evaluated first thing;
# {T} is replaced by the YAML scalar of the template.  strict = the error must sit on the template's own line.
PROBE_POSITIONS = [
    ("var", True, "- var: v\n  value: {T}\n- object: A\n"),
    ("count", True, "- object: A\n  count: {T}\n"),
    ("field", True, "- object: A\n  fields:\n    x: {T}\n"),
    ("friend-var", True, "- object: A\n  friends:\n    - var: v\n      value: {T}\n    - object: B\n"),
    ("friend-count", True, "- object: A\n  friends:\n    - object: B\n      count: {T}\n"),
    ("nested-field", True, "- object: A\n  fields:\n    c:\n      - object: B\n        fields:\n          y: {T}\n"),
    ("nested-count", True, "- object: A\n  fields:\n    c:\n      - object: B\n        count: {T}\n"),
    ("var-after-rows", True, "- object: Z\n- var: v\n  value: {T}\n"),
    ("arg-kw", False, "- object: A\n  fields:\n    x:\n      random_number:\n        min: 1\n        max: {T}\n"),
    ("arg-pos", False, "- object: A\n  fields:\n    x:\n      random_choice:\n        - {T}\n"),
    ("arg-scalar", False, "- object: A\n  fields:\n    x:\n      reference: {T}\n"),
    ("var-arg", False, "- var: v\n  value:\n    random_choice:\n      - {T}\n- object: A\n"),
    ("count-arg", False, "- object: A\n  count:\n    random_number:\n      min: {T}\n      max: 3\n"),
    ("if-when", False, "- object: A\n  fields:\n    x:\n      if:\n        - choice:\n            when: {T}\n            pick: a\n        - choice:\n            pick: b\n"),
]


def probe_cases():
    """[case] with "probe": {"position", "strict", "line", "template"}"""
    out = []
    for version in (2, 3):
        for t in BROKEN_TEMPLATES:
            if version == 3 and not t.lstrip("a { b").startswith("$") and "${" not in t:
                continue  # `<< >>` / `<% %>` are plain text in the version-3 dialect
            scalar = json.dumps(t)  # a JSON string is a YAML double-quoted scalar
            for pos, strict, body in PROBE_POSITIONS:
                text = f"- snowfakery_version: {version}\n" + body.replace("{T}", scalar)
                line = 1 + [i for i, l in enumerate(text.split("\n")) if scalar in l][0]
                out.append({"text": text, "name": None, "files": None, "kind": "probe",
                            "origin": f"probe/{pos}/v{version} <- {t}",
                            "probe": {"position": pos, "strict": strict, "line": line, "template": t}})
    return out


RAW_TEXTS = [
    "", "\n", "- ", "- object: A\n  fields:\n   x: [1, 2\n", "- object: A\n\tfields: x\n", "- object: A\n  fields: {x: 1}}\n",
    "- &a [*a]\n", "- object: A\n  fields: &f\n    x: *f\n", "- object: A\n  friends: &f\n    - object: B\n      friends: *f\n",
    "- !!python/object:os.system x\n", "- object: !!binary aGVsbG8=\n", "- object: A\n  fields: !!set {a, b}\n", "- object: A\n  fields: !!omap [a: 1]\n",
    "- object: A\n  fields:\n    x: !!pairs [a: 1]\n", "- ? [a, b]\n  : 1\n", "- object: A\n  <<: {count: 2}\n", "- object: A\n  <<: 5\n",
    "- object: A\n  fields:\n    x: \x01\n", "\x00", "- object: A\n  object: B\n", "%YAML 1.1\n---\n- object: A\n", "- object: A\n---\n- object: B\n",
    "- object: A\n  fields:\n    x: !foo bar\n", "- object: A\n  count: 0x1F\n", "- object: A\n  count: 1_000\n", "- object: A\n  count: .inf\n", "- object: A\n  count: .nan\n",
    "- object: A\n  fields:\n    x: 2001-12-14t21:59:43.10-05:00\n", "- object: A\n  fields:\n    ? x\n", "- object: A\n  fields:\n    x: |\n      multi\n      line\n",
    "- object: A\n  count: 190:20:30\n", "- object: A\n  fields:\n    =: 1\n", "- object: A\n  fields:\n    x: =\n",
    "[" * 400 + "]" * 400 + "\n", "- " * 400 + "x\n", "{a: " * 300 + "1" + "}" * 300 + "\n",
    "- object: A\n  fields:\n    x: \ud7ff\n", "\ufeff- object: A\n", "- object: A\n  fields:\n    x: \u0085\n", "- object: A # c\n  count: 1 # c\n",
]
