"""C12 — the randomised range is a permutation, also when extended.

Correspondence: `random_range` and `UpdatableRandomRange` (real code, `random.randint` replaced by
recorded draws) against the Lean model `SnowModel.RandRange` through the driver.
Direct oracle (model-independent): output is a permutation of the range; URR never repeats, is
exhaustive after extension-only histories, only yields values of the new range after a move,
and extension never fails.
"""
import itertools

from . import common

SPEC = {
    "lean": ["SnowModel.Props.C12", "SnowModel.Props.C12Bridge"],
    "pins": ["RandomRange"],
    "harness": "harness.c12",
    "technique": "Lean 4 theorems (Hull-Dobell single cycle for 2^k modulus; invariant over arbitrary URR op sequences) + pins regenerated from the AST + differential correspondence with recorded draws",
    "level_text": "Machine-checked proof, for every range, every value of both random draws and every next/extend/move interleaving, that the model of random_range is a permutation and that the URR machine never repeats, is exhaustive, and confines values to the moved range; the model is tied to the source by 20 bridging lemmas over expressions regenerated from the AST on every run and by op-for-op differential runs against the real classes.",
    "level_note": "Trusted: Lean kernel; py2lean; the harness; CPython ints; random.randint returning an int. The generator's control-flow skeleton is pinned, its full body is tied by correspondence only.",
    "assumptions": [
        "random.randint(0, maximum) returns an int (any int: the permutation theorem does not need the bound)",
        "CPython arbitrary-precision int arithmetic",
    ],
}


def _mod():
    import snowfakery.utils.randomized_range as rr

    return rr


# ------------------------------------------------------------------ real-code runners


def real_random_range(start, stop, d1, d2):
    rr = _mod()
    with common.patched_randint(rr, [d1, d2]):
        try:
            return ["ok", list(itertools.islice(rr.random_range(start, stop), 0, (stop - start) * 2 + 50))]
        except Exception as e:  # noqa
            return ["exc", type(e).__name__]


def real_modulus(maximum):
    """White-box: the modulus the generator computes for a range of `maximum` numbers."""
    rr = _mod()
    with common.patched_randint(rr, [0, 0]):
        g = rr.random_range(0, maximum)
        next(g)
        loc = g.gi_frame.f_locals if g.gi_frame is not None else {}
        g.close()
    return loc.get("modulus"), loc.get("multiplier")


class _DrawTable:
    """Deterministic draws per generator index; records what was handed out."""

    def __init__(self, rng):
        self.rng = rng
        self.current = None
        self.table = {}

    def randint(self, lo, hi):
        v = self.rng.choice([lo, hi, self.rng.randint(lo, hi), self.rng.randint(lo, hi)])
        self.table.setdefault(self.current, []).append(v)
        return v


def real_urr(a, b, ops, rng):
    """Run an op list on the real class. Returns (create outcome, outs, draw table list)."""
    rr = _mod()
    import random as _r

    draws = _DrawTable(rng)
    orig = rr.random_range
    counter = itertools.count()

    def wrapped(x, y):
        n = next(counter)
        g = orig(x, y)

        def it():
            while True:
                draws.current = n
                try:
                    v = next(g)
                except StopIteration:
                    return
                yield v

        return it()

    saved_randint = _r.randint
    rr.random_range = wrapped
    _r.randint = draws.randint
    try:
        try:
            u = rr.UpdatableRandomRange(a, b)
        except AssertionError:
            return "assertion", [], []
        outs = []
        for op in ops:
            try:
                if op[0] == "next":
                    try:
                        outs.append(["value", next(u)])
                    except StopIteration:
                        outs.append(["stop"])
                else:
                    u.set_new_range(op[1], op[2])
                    outs.append(["ok"])
            except AssertionError:
                outs.append(["assertion"])
        made = next(counter)
        table = [(draws.table.get(i) or [0, 0]) for i in range(made)]
        table = [(t + [0, 0])[:2] for t in table]
        return "ok", outs, table
    finally:
        rr.random_range = orig
        _r.randint = saved_randint


# ------------------------------------------------------------------ direct oracles


def oracle_range(rep, case, out):
    start, stop = case["start"], case["stop"]
    if out[0] != "ok":
        if stop > start:
            rep.violation("C12:range-raises", f"random_range({start},{stop}) raised {out[1]}", case, "a permutation", out)
        return
    vals = out[1]
    if stop <= start:
        return
    if sorted(vals) != list(range(start, stop)):
        rep.violation(
            "C12:range-not-permutation",
            f"random_range({start},{stop}) with draws ({case['d1']},{case['d2']}) is not a permutation of the range",
            case,
            "each integer of [start, stop) exactly once, then stop",
            vals[:200],
        )


def oracle_urr(rep, case, created, outs):
    a, b, ops = case["a"], case["b"], case["ops"]
    if created != "ok":
        if b > a:
            rep.violation("C12:urr-create-fails", "constructor asserted on a non-empty range", case)
        return
    seen = []
    lo, cur = a, b  # range that is current per the documented semantics
    orig_top = b
    ext_only = True
    for op, o in zip(ops, outs):
        if op[0] == "set":
            x, y = op[1], op[2]
            if x == lo:
                if y >= cur:
                    if o != ["ok"]:
                        rep.violation(
                            "C12:urr-extend-assertion",
                            f"raising the upper bound to {y} (minimum unchanged) failed: {o}",
                            case, ["ok"], o)
                        return
                    cur = y
                else:
                    ext_only = ext_only  # lowering: assertion expected, state unchanged
            else:
                ext_only = False
                if o == ["ok"]:
                    lo, cur = x, y
        else:
            if o[0] == "value":
                v = o[1]
                if v in seen:
                    rep.violation("C12:urr-repeat", f"value {v} produced twice", case, "pairwise distinct", outs)
                    return
                seen.append(v)
                if not (lo <= v < cur):
                    rep.violation(
                        "C12:urr-out-of-range",
                        f"value {v} outside the current range [{lo},{cur})", case, [lo, cur], outs)
                    return
    if case.get("drained") and ext_only:
        if sorted(seen) != list(range(a, cur)):
            rep.violation(
                "C12:urr-not-exhaustive",
                f"after draining, produced values are not exactly [{a},{cur})", case,
                list(range(a, cur)), sorted(seen))


# ------------------------------------------------------------------ case generation


def gen_range_case(rng):
    size = rng.choice([1, 1, 2, 3, 4, 5, 7, 8, 9, 15, 16, 17, 31, 32, 33, 63, 64, 65, 100, 127, 128, 129, 255, 256, 257, 500, 1023, 1024, 1025])
    if rng.random() < 0.3:
        size = rng.randint(1, 2100)
    start = rng.choice([0, 1, -5, 10, 1000, -1000, 2**40, -(2**33)])
    d1 = rng.choice([0, size, rng.randint(0, size), rng.randint(0, size)])
    d2 = rng.choice([0, size, rng.randint(0, size), rng.randint(0, size)])
    return {"kind": "range", "start": start, "stop": start + size, "d1": d1, "d2": d2}


def gen_urr_case(rng):
    a = rng.choice([0, 1, 1, 3, 10, -4])
    b = a + rng.randint(1, 6)
    ops = []
    lo, cur, top_ever = a, b, b
    n = rng.randint(3, 40)
    ext_only = True
    mode = rng.choice(["extend", "extend", "mixed", "mixed", "hostile"])
    for _ in range(n):
        r = rng.random()
        if r < 0.55:
            ops.append(["next"])
        elif r < 0.85 or mode == "extend":
            cur = cur + rng.randint(0, 5)
            ops.append(["set", lo, cur])
        elif mode == "mixed" or r < 0.95:
            # a legal move: new bottom at or above everything handed out so far
            gap = rng.choice([0, 0, 1, 3])
            lo = cur + gap
            cur = lo + rng.randint(1, 6)
            ops.append(["set", lo, cur])
            ext_only = False
        else:
            # hostile: lower the top / overlap / empty range -> assertion, state unchanged
            k = rng.choice(["lower", "overlap", "empty"])
            if k == "lower":
                ops.append(["set", lo, cur - rng.randint(1, 3)])
            elif k == "overlap":
                ops.append(["set", lo + 1, cur + 2])
                ext_only = False
            else:
                ops.append(["set", cur + 1, cur + 1])
                ext_only = False
    drained = False
    if rng.random() < 0.7:
        ops += [["next"]] * (max(cur - lo, cur - a) + 3)
        drained = True
    return {"kind": "urr", "a": a, "b": b, "ops": ops, "drained": drained}


# ------------------------------------------------------------------ entry points


def check_cases(cases, rep, rng):
    reqs, meta = [], []
    for case in cases:
        if case["kind"] == "range":
            out = real_random_range(case["start"], case["stop"], case["d1"], case["d2"])
            oracle_range(rep, case, out)
            reqs.append({"m": "c12.random_range", "start": case["start"], "stop": case["stop"], "d1": case["d1"], "d2": case["d2"]})
            meta.append((case, out))
            size = case["stop"] - case["start"]
            rep.case(case, nontrivial=size >= 3)
            rep.count("range:size<=8" if size <= 8 else "range:size<=128" if size <= 128 else "range:size>128")
            if case["d1"] in (0, size) or case["d2"] in (0, size):
                rep.count("range:extreme-draw")
        elif case["kind"] == "urr":
            created, outs, table = real_urr(case["a"], case["b"], case["ops"], rng)
            oracle_urr(rep, case, created, outs)
            reqs.append({"m": "c12.urr", "a": case["a"], "b": case["b"], "draws": table, "ops": case["ops"]})
            meta.append((case, (created, outs)))
            kinds = {o[0] for o in outs}
            rep.case(case, nontrivial=len(case["ops"]) >= 4 and "value" in kinds)
            for k in kinds:
                rep.count("urr:out:" + k)
            rep.count("urr:ops", len(case["ops"]))
            rep.count("urr:generators", len(table))
        elif case["kind"] == "modulus":
            m = case["maximum"]
            try:
                modulus, multiplier = real_modulus(m)
            except Exception as e:  # noqa
                rep.notes.append(f"white-box modulus probe unavailable: {type(e).__name__}")
                continue
            rep.case(case, nontrivial=m > 2**48)
            rep.count("modulus-probe")
            if modulus is None:
                rep.notes.append("white-box modulus probe: no local named `modulus` (skipped)")
                continue
            if modulus < m or modulus & (modulus - 1) or (multiplier is not None and multiplier % 4 != 1):
                rep.violation(
                    "C12:modulus-smaller-than-range",
                    f"random_range over {m} numbers uses modulus {modulus} / multiplier {multiplier}: "
                    "the generator cannot yield every value exactly once",
                    case, "power of two >= maximum, multiplier % 4 == 1", [modulus, multiplier])
    res = common.model_batch(reqs)
    for (case, real), (st, val) in zip(meta, res):
        rep.traces_validated += 1
        if case["kind"] == "range":
            code = real
            model = ["ok", val] if st == "ok" else ["err", val]
            if code[0] == "ok" and model != code:
                rep.disagreement("c12.random_range", case, model, code)
        else:
            created, outs = real
            if st != "ok":
                rep.disagreement("c12.urr", case, val, outs)
                continue
            mcreated = val["create"]
            if mcreated != created or (created == "ok" and val["outs"] != outs):
                rep.disagreement("c12.urr", case, val, {"create": created, "outs": outs})


def run(ctx, rep, findings):
    rep.rule = (
        "random_range cases (start, stop, d1, d2) with sizes around powers of two and extreme draws; "
        "UpdatableRandomRange op lists (next / extend / move / hostile) of length <= 40 + drain; "
        "white-box modulus probes up to 2**200. Non-trivial: range size >= 3, or op list with >= 4 ops "
        "that produced a value. Distinct = distinct case hash."
    )
    cases = [f["input"] for f in findings if f.get("input")]
    cases += ctx.corpus()
    # fixed boundary cases
    for size in (1, 2, 3, 4, 5, 8, 9, 16, 17):
        for d1 in (0, size):
            for d2 in (0, size):
                cases.append({"kind": "range", "start": 0, "stop": size, "d1": d1, "d2": d2})
    cases.append({"kind": "range", "start": 5, "stop": 5, "d1": 0, "d2": 0})
    for m in (2**48, 2**48 + 1, 2**49 + 1, 2**53 + 1, 2**60 + 1, 2**64 - 1, 2**64 + 1, 2**100 + 1, 2**200 + 12345):
        cases.append({"kind": "modulus", "maximum": m})
    n_range = ctx.scale(1500, 30000)
    n_urr = ctx.scale(400, 8000)
    for _ in range(n_range):
        cases.append(gen_range_case(ctx.rng))
    for _ in range(n_urr):
        cases.append(gen_urr_case(ctx.rng))
    if ctx.tier == "thorough":
        # exhaustive over both draws for every size <= 48 (a test, labelled as such; the theorem is the proof)
        for size in range(1, 49):
            for d1 in range(size + 1):
                for d2 in range(size + 1):
                    cases.append({"kind": "range", "start": 0, "stop": size, "d1": d1, "d2": d2})
        rep.extra["exhaustive_sizes_upto"] = 48
    # chunk to keep driver batches moderate
    for i in range(0, len(cases), 2000):
        check_cases(cases[i : i + 2000], rep, ctx.rng)
        if ctx.time_left() < 30:
            rep.notes.append("stopped early: time budget")
            break


def shrink(case, signature):
    """Minimise a failing URR op list / range case, keeping the same oracle signature."""
    import random

    if case.get("kind") != "urr":
        return case

    def fails(ops):
        c = dict(case, ops=ops)
        r = common.Report("C12")
        created, outs, _ = real_urr(c["a"], c["b"], c["ops"], random.Random(1))
        oracle_urr(r, c, created, outs)
        return any(v["signature"] == signature for v in r.violations)

    ops = common.shrink_list(case["ops"], fails)
    return dict(case, ops=ops)


def replay(case, rep):
    import random

    check_cases([case], rep, random.Random(0))
