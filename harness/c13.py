"""C13 — unique_id and unique_alpha_code never collide within a run.

Correspondence (model = `SnowModel.Uid` through the driver, methods `c13.*`):
  * tuple coding        real `UniqueNumericIdGenerator(parts="<literals>", randomize=False)`  vs `encodeTuple`
  * scramble/unscramble real `scramble_number` / `unscramble_number`                          vs `scramble` / `unscramble`
  * mask                real `mask_for_key` vs `random.Random(key).getrandbits(numbits)` (the oracle the model is fed with)
  * alphabet code       real `AlphaUniquifier.unique_id` on a stub number source               vs `alphaCode`
  * process             create/draw op sequences on the real classes (function level)          vs `Uid.run`
  * recipes             plugin `UniqueId`, builtins `unique_id` / `unique_alpha_code`, both modes (`plugin_options`),
                        translated to the op sequence the interpreter performs                 vs `Uid.run`
The model's two oracles (`int(math.log(n, 2))`, `Random(key).getrandbits(numbits)`) are computed here
with the standard library, independently of Snowfakery, and supplied as tables.

Direct oracle (model-independent, on the real outputs): every value produced in this process is
distinct from every other (typed comparison); alphabetic codes only use alphabet characters and are
at least `min_chars` long; `unscramble(scramble(n)) == n`; `mask_for_key` is a function of its
arguments (> 128 distinct pairs, i.e. across lru_cache eviction).
A collision is classified by the *tuples* the two draws encode (re-derived here from the template
text, the pid string and the generator's context number): equal tuples = the template does not
identify generator/draw (D11, D23: listed findings, specific signatures); different tuples = the
encoding lost information (`C13:collision`, never suppressed).
"""
import itertools
import json
import math
import os
import random
import re
import subprocess
import sys
import traceback
from contextlib import contextmanager

from . import common

SPEC = {
    "lean": ["SnowModel.Props.C13", "SnowModel.Props.C13Bridge"],
    "pins": ["ScrambledNumbers", "UniqueId", "UniqueIdBuiltins", "PluginContinuation"],
    "harness": "harness.c13",
    "technique": "Lean 4 theorems (injectivity of the octal/9 tuple coding, of the keyed scramble for every mask and log function, of base-N with zero-digit padding; composition per generator and across generators; invariant over arbitrary create/draw sequences) + pins regenerated from the AST + differential correspondence at function and recipe level",
    "level_text": "Machine-checked proof that, in the model of the UniqueId machinery, equal ids imply equal (pid, context, index, literal) tuples for every template, pid, alphabet of >= 2 distinct characters, min_chars, mask function and float-log behaviour; hence a generator with `index` never repeats and generators sharing a template with `context` never collide. The model is tied to the source by bridging lemmas over expressions/constants/wiring regenerated from the AST on every run and by differential runs of generated generator configurations (function level and through recipes, both id modes).",
    "level_note": "Trusted: Lean kernel; py2lean; the harness; CPython ints/str; baseconv.BaseConverter.encode as modelled; Random(key).getrandbits being deterministic. Known findings D11/D11b/D23/D24/D25: templates without `context`/`index`, `context` at different positions, different alphabets, and randomised-vs-plain generators do collide (refutation theorems + replayed witnesses).",
    "assumptions": [
        "mask_for_key(key, numbits) is a pure function of its arguments (checked on every run across > 128 pairs)",
        "int(math.log(n, 2)) is some natural number (any: the theorems quantify over it)",
        "baseconv.BaseConverter(alphabet).encode(n) is the base-len(alphabet) positional notation of n (exercised on every run)",
        "alphabet characters are pairwise distinct (hypothesis Nodup of the base-N theorems)",
    ],
    "budget": {"quick": 600, "thorough": 2400},
}

FAKE_EPOCH = 5000.0
FAKE_SECONDS = 123456
FAKE_OSPID = 4321


def _U():
    import snowfakery.standard_plugins.UniqueId as U

    return U


def _S():
    import snowfakery.utils.scrambled_numbers as S

    return S


# ------------------------------------------------------------------ standard-library oracles


def std_lg(n):
    return int(math.log(n, 2))


def std_mask(key, numbits):
    return random.Random(key).getrandbits(numbits)


def model_eval(reqs, rounds=5):
    """model_batch + completion of the oracle tables the driver asks for."""
    reqs = [dict(r) for r in reqs]
    results = [None] * len(reqs)
    todo = list(range(len(reqs)))
    for _ in range(rounds):
        if not todo:
            break
        res = common.model_batch([reqs[i] for i in todo])
        nxt = []
        for i, (st, val) in zip(todo, res):
            results[i] = (st, val)
            if st == "ok" and isinstance(val, dict) and (val.get("need_lg") or val.get("need_mask")):
                r = reqs[i]
                lg = r.setdefault("lg", [])
                have = {a for a, _ in lg}
                for n in val.get("need_lg", []):
                    if n not in have:
                        have.add(n)
                        lg.append([n, std_lg(n)])
                mk = r.setdefault("masks", [])
                havem = {(a, b) for a, b, _ in mk}
                for k, nb in val.get("need_mask", []):
                    if (k, nb) not in havem:
                        havem.add((k, nb))
                        mk.append([k, nb, std_mask(k, nb)])
                nxt.append(i)
        todo = nxt
    for i in todo:
        results[i] = ("err", "oracle tables did not converge")
    return results


# ------------------------------------------------------------------ instrumentation of the real code


class _FakeTime:
    @staticmethod
    def time():
        return FAKE_EPOCH + FAKE_SECONDS + 0.25

    @staticmethod
    def mktime(t):
        return FAKE_EPOCH


class _FakeOs:
    @staticmethod
    def getpid():
        return FAKE_OSPID


_SERIAL = itertools.count(1)


@contextmanager
def instrumented():
    """Fixed clock / os pid for the time-based pid, and a record of every numeric generator
    instance in creation order (harness-side monkeypatch, restored afterwards)."""
    U = _U()
    created = []
    orig_init = U.UniqueNumericIdGenerator.__init__

    def init(self, *a, **k):
        self._verif_serial = next(_SERIAL)  # id() may be reused after garbage collection
        created.append(self)
        return orig_init(self, *a, **k)

    saved = (U.time, U.os)
    U.time, U.os = _FakeTime, _FakeOs
    U.UniqueNumericIdGenerator.__init__ = init
    try:
        yield created
    finally:
        U.UniqueNumericIdGenerator.__init__ = orig_init
        U.time, U.os = saved


def peek_ctx():
    """next value of the process-wide `context_uniqifier` (without consuming it); None when the
    code no longer has that single counter (the model comparison is then bound to disagree, the
    direct oracle goes on regardless)"""
    c = getattr(_U().UniqueNumericIdGenerator, "context_uniqifier", None)
    m = re.fullmatch(r"count\((\d+)\)", repr(c))
    return int(m.group(1)) if m else None


def probe_ctx():
    """a context number that is at least the next one (consumes one when peeking is impossible)"""
    n = peek_ctx()
    if n is not None:
        return n
    try:
        return _U().UniqueNumericIdGenerator(pid=1, parts="context,index").unique_identifer + 1
    except Exception:  # noqa
        return 10


def pid_parts(pid):
    return [pid] if pid is not None else [FAKE_SECONDS, FAKE_OSPID]


def tuple_of(inst, k):
    """The tuple of naturals that draw number k (0-based) of a recorded numeric generator encodes,
    re-derived from the template text (used only to classify collisions)."""
    out = []
    for p in str(inst.parts).split(","):
        p = p.strip().lower()
        if p == "pid":
            out += [int(x, 8) for x in inst.pid.split("9")]
        elif p.isnumeric():
            out.append(int(p))
        elif p == "index":
            try:
                out.append(inst.start + k)
            except Exception:  # noqa: a changed generator without `start`: classification only
                out.append(("?", "index", k))
        elif p == "context":
            try:
                out.append(inst.unique_identifer)
            except Exception:  # noqa
                out.append(("?", "context"))
        else:
            out.append(("?", p))
    return tuple(out)


def has_part(template, name):
    return name in [p.strip().lower() for p in str(template).split(",")]


def _assert_kind(e):
    tb = traceback.extract_tb(e.__traceback__)
    line = (tb[-1].line or "") if tb else ""
    if "minbits >= 10" in line:
        return "assert_minbits"
    if "numbits <" in line:
        return "assert_numbits"
    return "assert:" + line


def _create_error(e):
    from snowfakery import data_gen_exceptions as exc

    if isinstance(e, exc.DataGenValueError):
        m = re.search(r"Unknown input to eval: (.*)$", str(e.message if hasattr(e, "message") else e), re.S)
        return "unknown_part:" + (m.group(1) if m else "?" + str(e))
    if isinstance(e, ValueError) and "too short" in str(e):
        return "alphabet_too_short"
    if isinstance(e, ValueError) and "sign character" in str(e):
        return "sign_in_alphabet"
    return "exc:" + type(e).__name__


# ------------------------------------------------------------------ the collision oracle


class Seen:
    """All values produced so far in this process, with what is needed to classify a collision."""

    def __init__(self):
        self.by_value = {}

    def add(self, rep, case, value, info):
        """info: dict(gen=unique id of the generator instance, k=draw number, tuple=…, template=…,
        kind='num'|'alpha', alphabet=…, randomize=…, label=…)"""
        key = (type(value).__name__, value)
        info = dict(info, case=case)
        old = self.by_value.get(key)
        if old is None:
            self.by_value[key] = info
            return
        sig, what = classify(old, info, value)
        # a collision between two cases of this process is replayed by running both, in order
        vcase = case if old["case"] is case else {"kind": "multi", "cases": [old["case"], case]}
        rep.violation(sig, what, vcase, "pairwise distinct values", {"value": value, "first": _short(old), "second": _short(info)})


def _short(i):
    return {k: (list(v) if isinstance(v, tuple) else v) for k, v in i.items() if k not in ("gen", "case")}


def classify(a, b, value):
    same_tuple = a["tuple"] == b["tuple"]
    comparable = a["kind"] == b["kind"] and a.get("alphabet") == b.get("alphabet") and a.get("randomize") == b.get("randomize")
    if same_tuple and a["gen"] == b["gen"]:
        if not has_part(a["template"], "index"):
            return ("C13:template-without-index-repeats",
                    f"generator with template {a['template']!r} (no `index`) produced {value!r} twice")
    if same_tuple and a["gen"] != b["gen"]:
        ca, cb = has_part(a["template"], "context"), has_part(b["template"], "context")
        if not (ca and cb):
            return ("C13:generators-without-context-collide",
                    f"two generators (templates {a['template']!r} / {b['template']!r}, at least one without `context`) "
                    f"both produced {value!r} for the tuple {list(a['tuple'])}")
        if [p.strip().lower() for p in a["template"].split(",")] != [p.strip().lower() for p in b["template"].split(",")]:
            return ("C13:context-position-collide",
                    f"generators with templates {a['template']!r} and {b['template']!r} (both contain `context`) "
                    f"both produced {value!r}: tuple {list(a['tuple'])}")
    if not same_tuple and a["kind"] == "alpha" and b["kind"] == "alpha" and a.get("alphabet") != b.get("alphabet"):
        return ("C13:different-alphabets-collide",
                f"code {value!r} produced by generators over alphabets {a['alphabet']!r} and {b['alphabet']!r} "
                f"for the different tuples {list(a['tuple'])} / {list(b['tuple'])}")
    if (not same_tuple and a["kind"] == "alpha" and b["kind"] == "alpha" and a.get("alphabet") == b.get("alphabet")
            and a.get("randomize") != b.get("randomize")):
        return ("C13:randomized-vs-plain-collide",
                f"code {value!r} produced by a randomised and by a non-randomised generator over the same alphabet "
                f"for the different tuples {list(a['tuple'])} / {list(b['tuple'])} (a scrambled number can equal an unscrambled one)")
    return ("C13:collision",
            f"value {value!r} produced twice: tuples {list(a['tuple'])} / {list(b['tuple'])}, templates "
            f"{a['template']!r} / {b['template']!r}, kinds {a['kind']}/{b['kind']}, comparable={comparable}")


def check_alpha_shape(rep, case, value, alphabet, min_chars, label):
    if not isinstance(value, str):
        return  # v2 dialect turned an all-digit code into an int: shape is checked on str(value) by the caller
    bad = sorted(set(value) - set(alphabet))
    if bad:
        rep.violation("C13:char-outside-alphabet", f"{label}: code {value!r} contains {bad} not in the alphabet {alphabet!r}",
                      case, f"subset of {alphabet!r}", value)
    if len(value) < min_chars:
        rep.violation("C13:code-shorter-than-min", f"{label}: code {value!r} is shorter than min_chars={min_chars}",
                      case, f"length >= {min_chars}", value)


DEFAULT_ALPHABET = "0123456789ABCDEFGHIJKLMNOPQRSTUVWXYZ"

# ------------------------------------------------------------------ function-level process


def expand_ops(ops):
    out = []
    for op in ops:
        if op[0] == "draw" and len(op) > 2:
            out += [["draw", op[1]]] * op[2]
        else:
            out.append(op)
    return out


def real_proc(case, rep, seen):
    """Run create/draw ops on the real classes. Returns (first_ctx, outs)."""
    U = _U()
    ops = expand_ops(case["ops"])
    pid = case.get("pid")
    outs, gens = [], []  # gens: handle -> None | dict
    n_ok = 0
    with instrumented() as created:
        first = peek_ctx()
        for op in ops:
            if op[0] in ("num", "alpha"):
                before = len(created)
                try:
                    if op[0] == "num":
                        obj = U.UniqueNumericIdGenerator(pid=pid, parts=op[1], randomize=op[3])
                        meta = {"kind": "num", "alphabet": None, "randomize": op[3], "min_chars": None}
                    else:
                        obj = U.AlphaUniquifier(pid=pid, parts=op[1], alphabet=op[3], min_chars=op[4], randomize_codes=op[5])
                        meta = {"kind": "alpha", "alphabet": op[3] or DEFAULT_ALPHABET, "randomize": op[5], "min_chars": op[4]}
                    inst = created[before]
                    gens.append(dict(meta, obj=obj, inst=inst, k=0, idx=n_ok, template=op[1]))
                    outs.append(["created", n_ok])
                    n_ok += 1
                except Exception as e:  # noqa
                    gens.append(None)
                    outs.append(["failed", _create_error(e)])
            else:
                g = gens[op[1]] if op[1] < len(gens) else None
                if g is None:
                    outs.append(["nosuchgen"])
                    continue
                k = g["k"]
                g["k"] += 1
                try:
                    v = g["obj"].unique_id
                except AssertionError as e:
                    outs.append(["failed", _assert_kind(e)])
                    continue
                outs.append(["value", g["idx"], v])
                info = {"gen": g["inst"]._verif_serial, "k": k, "tuple": tuple_of(g["inst"], k), "template": str(g["inst"].parts),
                        "kind": g["kind"], "alphabet": g["alphabet"], "randomize": g["randomize"]}
                seen.add(rep, case, v, info)
                if g["kind"] == "alpha":
                    check_alpha_shape(rep, case, v, g["alphabet"], g["min_chars"], f"AlphaUniquifier({g['template']!r})")
    return first, outs


def model_proc_req(case, first):
    ops = []
    pp = pid_parts(case.get("pid"))
    for op in expand_ops(case["ops"]):
        if op[0] == "num":
            ops.append(["num", op[1], pp, bool(op[3])])
        elif op[0] == "alpha":
            ops.append(["alpha", op[1], pp, op[3], op[4], bool(op[5])])
        else:
            ops.append(["draw", op[1]])
    return {"m": "c13.proc", "first_ctx": 1 if first is None else first, "ops": ops}


def canon_model_outs(outs):
    res = []
    for o in outs:
        if o[0] == "value":
            res.append(["value", o[1], o[3]])
        else:
            res.append(o)
    return res


# ------------------------------------------------------------------ recipes


def recipe_text(case):
    lines = []
    if case.get("version") == 3:
        lines.append("- snowfakery_version: 3")
    lines.append("- plugin: snowfakery.standard_plugins.UniqueId")
    for j, t in enumerate(case.get("holders", [])):
        # a generator object stored in a hidden field of a just_once row (persisted by a continuation)
        lines += [f"- object: H{j}", "  just_once: True", "  fields:", "    __gen:", "      UniqueId.NumericIdGenerator:"]
        if t is not None:
            lines.append(f"        template: \"{t}\"")
        lines.append("    first: ${{__gen.unique_id}}")
    for i, g in enumerate(case["gens"]):
        lines.append(f"- var: G{i}")
        lines.append("  value:")
        if g["type"] == "num":
            lines.append("    UniqueId.NumericIdGenerator:")
            if g.get("template") is not None:
                lines.append(f"      template: \"{g['template']}\"")
        else:
            lines.append("    UniqueId.AlphaCodeGenerator:")
            if g.get("template") is not None:
                lines.append(f"      template: \"{g['template']}\"")
            if g.get("alphabet") is not None:
                lines.append(f"      alphabet: \"{g['alphabet']}\"")
            if g.get("min_chars") is not None:
                lines.append(f"      min_chars: {g['min_chars']}")
            if g.get("randomize") is not None:
                lines.append(f"      randomize_codes: {'True' if g['randomize'] else 'False'}")
    lines.append("- object: A")
    lines.append(f"  count: {case['count']}")
    lines.append("  fields:")
    for j, f in enumerate(case["fields"]):
        if f[0] == "g":
            expr = f"G{f[1]}.unique_id"
        elif f[0] == "h":
            expr = f"H{f[1]}.__gen.unique_id"
        elif f[0] == "builtin_id":
            expr = "unique_id"
        elif f[0] == "plugin_id":
            expr = "UniqueId.unique_id"
        else:
            expr = "unique_alpha_code"
        lines.append(f"    f{j}: ${{{{{expr}}}}}")
    return "\n".join(lines) + "\n"


def recipe_ops(case, defaults, reps=None, restored=None):
    """The create/draw sequence the interpreter performs for this recipe shape: every `var` is
    re-evaluated in every iteration (a new generator each time); the builtin / plugin default
    generators are created at first use and live for the whole run. just_once holders are
    created (and drawn from once) in the first iteration of a fresh run; in a resumed run
    (`restored` = what the model says was persisted, per holder) they are rebuilt while the
    continuation file is loaded, before anything else."""
    big = bool(case.get("big_ids"))
    pp = pid_parts(case.get("pid"))
    ops, meta = [], []  # meta: per handle dict(template, kind, alphabet, min_chars, randomize)
    persistent = {}
    draws = []  # (handle) per produced field value, in row order

    def create(kind, template, alphabet=None, min_chars=None, randomize=None):
        if kind == "num":
            t = template if template else (defaults["numeric_big"] if big else defaults["numeric_small"])
            ops.append(["num", t, pp, True])
            meta.append({"kind": "num", "template": t, "alphabet": None, "min_chars": None, "randomize": True})
        else:
            t = template if template else (defaults["alpha_big"] if big else defaults["alpha_small"])
            mc = defaults["min_chars"] if min_chars is None else min_chars
            rz = True if randomize is None else randomize
            ops.append(["alpha", t, pp, alphabet, mc, rz])
            meta.append({"kind": "alpha", "template": t, "alphabet": alphabet or defaults["alphabet"], "min_chars": mc, "randomize": rz})
        return len(meta) - 1

    holders = []
    if restored is not None:
        for sv in restored:
            t = ",".join(str(x) for x in sv["parts"])
            # `cls(**state)` passes no pid: a restored generator ignores the pid option and falls
            # back to the clock / os pid of the resuming process
            ops.append(["restore", t, pid_parts(None), bool(sv["randomize"]), sv["start"]])
            meta.append({"kind": "num", "template": t, "alphabet": None, "min_chars": None, "randomize": bool(sv["randomize"])})
            holders.append(len(meta) - 1)
    for it in range(case["reps"] if reps is None else reps):
        if it == 0 and restored is None:
            for t in case.get("holders", []):
                h = create("num", t)
                holders.append(h)
                ops.append(["draw", h])
                draws.append(h)
        hs = []
        for g in case["gens"]:
            if g["type"] == "num":
                hs.append(create("num", g.get("template")))
            else:
                hs.append(create("alpha", g.get("template"), g.get("alphabet"), g.get("min_chars"), g.get("randomize")))
        for _row in range(case["count"]):
            for f in case["fields"]:
                if f[0] == "g":
                    h = hs[f[1]]
                elif f[0] == "h":
                    h = holders[f[1]]
                else:
                    if f[0] not in persistent:
                        persistent[f[0]] = create("alpha" if f[0] == "builtin_alpha" else "num", None)
                    h = persistent[f[0]]
                ops.append(["draw", h])
                draws.append(h)
    return ops, meta, draws


def real_recipe(case):
    opts = {}
    if case.get("pid") is not None:
        opts["pid"] = str(case["pid"])
    if case.get("big_ids") is not None:
        opts["big_ids"] = "True" if case["big_ids"] else "False"
    with instrumented() as created:
        first = peek_ctx()
        r = common.run_recipe(recipe_text(case), reps=case["reps"], plugin_options=opts)
        created = list(created)
    return first, r, created


# ------------------------------------------------------------------ continuation resumed in a fresh process


def run_child(job, timeout=120):
    """One recipe run in a fresh Python process (harness/c13_child.py)."""
    env = dict(os.environ)
    env["VERIF_REPO"] = common.REPO
    env["PYTHONPATH"] = common.ROOT + os.pathsep + common.REPO
    env.setdefault("PYTHONHASHSEED", "0")
    p = subprocess.run([sys.executable, "-m", "harness.c13_child"], cwd=common.ROOT, env=env,
                       input=json.dumps(dict(job, repo=common.REPO)).encode(), stdout=subprocess.PIPE,
                       stderr=subprocess.PIPE, timeout=timeout)
    lines = [ln for ln in p.stdout.decode(errors="replace").splitlines() if ln.startswith("{")]
    if p.returncode != 0 or not lines:
        return {"outcome": "child-failed", "error": p.stderr.decode(errors="replace")[-1500:], "rows": [], "created": [],
                "continuation": None, "first_ctx": None}
    return json.loads(lines[-1])


def resume_pair(case):
    """Run 1 (fresh process, writes a continuation file) and run 2 (another fresh process that
    resumes from it)."""
    opts = {}
    if case.get("pid") is not None:
        opts["pid"] = str(case["pid"])
    if case.get("big_ids") is not None:
        opts["big_ids"] = "True" if case["big_ids"] else "False"
    text = recipe_text(case)
    r1 = run_child({"recipe": text, "reps": case["reps1"], "plugin_options": opts, "want_continuation": True})
    if r1.get("outcome") != "ok" or not r1.get("continuation"):
        return r1, None
    r2 = run_child({"recipe": text, "reps": case["reps2"], "plugin_options": opts, "continuation": r1["continuation"]})
    return r1, r2


def persisted_generators(continuation_text):
    """[{key: scalar text}] for every UniqueNumericIdGenerator node of a continuation file, in file order."""
    import yaml

    out = []

    def walk(node):
        if isinstance(node, yaml.SequenceNode):
            if str(node.tag).endswith("UniqueId.UniqueNumericIdGenerator") and node.value and isinstance(node.value[0], yaml.MappingNode):
                out.append({k.value: (None if v.tag.endswith(":null") else v.value) for k, v in node.value[0].value})
                return
            for c in node.value:
                walk(c)
        elif isinstance(node, yaml.MappingNode):
            for k, v in node.value:
                walk(v)

    walk(yaml.compose(continuation_text))
    return out


def child_values(res):
    vals = []
    for _t, fields in res.get("rows") or []:
        for name, v in fields:
            if name != "id" and not name.startswith("__"):
                vals.append(v)
    return vals


def oracle_process(rep, case, label, res, gmeta, draws):
    """All values produced within ONE process (a child) are pairwise distinct."""
    from types import SimpleNamespace

    seen = SeenAll()
    created = res["created"]
    values = child_values(res)
    if len(created) != len(gmeta) or len(values) != len(draws):
        return False
    ks = {}
    for h, v in zip(draws, values):
        k = ks.get(h, 0)
        ks[h] = k + 1
        gm, c = gmeta[h], created[h]
        if c.get("parts") is None or c.get("pid") is None or c.get("ctx") is None or c.get("start") is None:
            return False
        inst = SimpleNamespace(parts=c["parts"], pid=c["pid"], start=c["start"], unique_identifer=c["ctx"])
        if gm["kind"] == "alpha" and isinstance(v, dict) and v.get("t") == "float":
            rep.violation("C13:code-reinterpreted-as-float", f"{label}: alphabetic code came out as the float {v['v']}", case,
                          "a string over the alphabet", v)
            continue
        v = _plain(v)
        info = {"gen": (label, c["serial"]), "k": k, "tuple": tuple_of(inst, k), "template": c["parts"], "kind": gm["kind"],
                "alphabet": gm["alphabet"], "randomize": gm["randomize"], "process": label}
        seen.add(rep, case, v, info)
        if gm["kind"] == "alpha":
            check_alpha_shape(rep, case, v if isinstance(v, str) else str(v), gm["alphabet"], gm["min_chars"], label)
    return True


def check_resume_cases(cases, rep, defaults, workers=8):
    """Scenario family "continuation resumed in a fresh process" (each run is its own process)."""
    from concurrent.futures import ThreadPoolExecutor

    if not cases:
        return
    with ThreadPoolExecutor(max_workers=workers) as ex:
        pairs = list(ex.map(resume_pair, cases))
    # model, run 1
    plans1 = [recipe_ops(c, defaults, reps=c["reps1"]) for c in cases]
    res1 = model_eval([{"m": "c13.proc", "first_ctx": (r1.get("first_ctx") or 1), "ops": pl[0]} for (r1, _), pl in zip(pairs, plans1)])
    reqs2, plans2 = [], []
    for case, (r1, r2), pl1, (st, m1) in zip(cases, pairs, plans1, res1):
        nh = len(case.get("holders", []))
        rep.case(case, nontrivial=nh >= 1 and r2 is not None and r2.get("outcome") == "ok")
        rep.count("resume:pairs")
        rep.count("resume:run1:" + str(r1.get("outcome")))
        rep.traces_validated += 1
        if r1.get("outcome") != "ok" or r2 is None:
            rep.disagreement("c13.resume-run1", case, "ok", {"outcome": r1.get("outcome"), "error": r1.get("error")})
            plans2.append(None)
            continue
        if st != "ok" or [o for o in m1["outs"] if o[0] == "failed"]:
            rep.disagreement("c13.resume-run1", case, {"model": str(m1)[:300]}, "ok")
            plans2.append(None)
            continue
        ops1, gmeta1, draws1 = pl1
        if not oracle_process(rep, case, "run 1", r1, gmeta1, draws1):
            rep.disagreement("c13.resume-shape", case, {"run": 1, "generators": len(gmeta1), "values": len(draws1)},
                             {"generators": len(r1["created"]), "values": len(child_values(r1))})
            plans2.append(None)
            continue
        mv1 = [o[3] for o in m1["outs"] if o[0] == "value"]
        v1 = child_values(r1)
        if len(mv1) != len(v1) or not all(_same(a, b) for a, b in zip(mv1, v1)):
            rep.disagreement("c13.resume-run1-values", case, mv1[:6], [_plain(v) for v in v1[:6]])
        # what was persisted: the file against the model's `reduceGen` of the holder generators
        # (holders are the first generators created in run 1)
        msaved = [m1["gens"][j]["saved"] for j in range(nh)]
        fsaved = persisted_generators(r1["continuation"])
        fs_canon = []
        for d in fsaved:
            fs_canon.append({"keys": sorted(d), "parts": d.get("parts"), "randomize": d.get("randomize"), "start": d.get("start")})
        prs = model_eval([{"m": "c13.parse", "template": d.get("parts") or ""} for d in fsaved])
        ok = len(fsaved) == nh
        if ok:
            for d, (pst, pv), ms in zip(fsaved, prs, msaved):
                ok = ok and sorted(d) == ["min_chars", "parts", "randomize", "start"] and pst == "ok" and ms is not None \
                    and pv.get("parts") == ms["parts"] and str(d.get("randomize")).lower() == str(ms["randomize"]).lower() \
                    and str(d.get("start")) == str(ms["start"])
        if not ok:
            rep.disagreement("c13.resume-persisted-state", case, msaved, fs_canon)
        pl2 = recipe_ops(case, defaults, reps=case["reps2"], restored=msaved if all(m is not None for m in msaved) else [])
        plans2.append(pl2)
        reqs2.append({"m": "c13.proc", "first_ctx": (r2.get("first_ctx") or 1), "ops": pl2[0]})
    res2 = iter(model_eval(reqs2))
    for case, (r1, r2), pl2 in zip(cases, pairs, plans2):
        if pl2 is None:
            continue
        st, m2 = next(res2)
        rep.count("resume:run2:" + str(r2.get("outcome")))
        nh = len(case.get("holders", []))
        ops2, gmeta2, draws2 = pl2
        if r2.get("outcome") != "ok":
            rep.disagreement("c13.resume-run2", case, "ok", {"outcome": r2.get("outcome"), "error": r2.get("error")})
            continue
        rep.count("resume:values-run2", len(draws2))
        if not oracle_process(rep, case, "run 2 (resumed in a fresh process)", r2, gmeta2, draws2):
            rep.disagreement("c13.resume-shape", case, {"run": 2, "generators": len(gmeta2), "values": len(draws2)},
                             {"generators": len(r2["created"]), "values": len(child_values(r2))})
            continue
        if st != "ok":
            rep.disagreement("c13.resume-run2", case, {"driver-error": m2}, "ok")
            continue
        # restored generator state: context number and start, against the model's `Op.restore`
        mstate = [[g["ctx"], g["start"]] for g in m2["gens"][:nh]]
        cstate = [[c["ctx"], c["start"]] for c in r2["created"][:nh]]
        if mstate != cstate:
            rep.disagreement("c13.resume-restored-state", case, {"ctx,start": mstate}, {"ctx,start": cstate})
        mv2 = [o[3] for o in m2["outs"] if o[0] == "value"]
        v2 = child_values(r2)
        if [o for o in m2["outs"] if o[0] == "failed"] or len(mv2) != len(v2) or not all(_same(a, b) for a, b in zip(mv2, v2)):
            idx = next((i for i, (a, b) in enumerate(zip(mv2, v2)) if not _same(a, b)), -1)
            rep.disagreement("c13.resume-run2-values", case, {"first_difference_at_value": idx, "model": mv2[idx : idx + 3] if idx >= 0 else len(mv2)},
                             {"code": [_plain(v) for v in v2[idx : idx + 3]] if idx >= 0 else len(v2)})


def gen_resume_case(rng):
    """A generator object stored in the hidden field of a just_once row and drawn from by later
    templates, next to the builtins / plugin default / `var` generators; run 2 resumes in a
    fresh process and usually runs longer than run 1."""
    big = rng.random() < 0.4
    base = "pid,context,index" if big else "context,index"
    holders = []
    for _ in range(rng.choice([1, 1, 2])):
        r = rng.random()
        holders.append(None if r < 0.5 else base if r < 0.7 else respell(base, rng).replace("\t", " ") if r < 0.85
                       else rng.choice(["5,context,index", "context,pid,index", "pid,index"]))
    gens = []
    for _ in range(rng.choice([0, 0, 1, 2])):
        if rng.random() < 0.7:
            gens.append({"type": "num", "template": rng.choice([None, None, base, "5,context,index"])})
        else:
            gens.append({"type": "alpha", "template": rng.choice([None, "context,index"]), "alphabet": rng.choice([None, "ACGT"])})
    fields = [["h", j] for j in range(len(holders))] + [["g", i] for i in range(len(gens))]
    fields += [["builtin_id"]] if rng.random() < 0.85 else []
    fields += [["plugin_id"]] if rng.random() < 0.6 else []
    fields += [["builtin_alpha"]] if rng.random() < 0.3 else []
    rng.shuffle(fields)
    reps1 = rng.randint(1, 2)
    return {"kind": "resume", "pid": rng.choice([None, 3, 111, 3333333333333333]), "big_ids": big, "version": rng.choice([2, 3]),
            "holders": holders, "gens": gens, "fields": fields, "count": rng.randint(1, 4),
            "reps1": reps1, "reps2": reps1 + rng.randint(0, 3), "reps": reps1}


# ------------------------------------------------------------------ case evaluation


def check_cases(cases, rep, seen, defaults):
    S, U = _S(), _U()
    reqs, meta = [], []
    flat = []
    for case in cases:
        flat += case["cases"] if case["kind"] == "multi" else [case]
    resume = [c for c in flat if c["kind"] == "resume"]
    check_resume_cases(resume, rep, defaults)
    cases = [c for c in flat if c["kind"] != "resume"]
    for case in cases:
        kind = case["kind"]
        if kind == "tuple":
            ps = case["ps"]
            try:
                g = U.UniqueNumericIdGenerator(pid=1, parts=",".join(str(p) for p in ps), randomize=False)
                code = ["ok", g.unique_id]
            except Exception as e:  # noqa
                code = ["exc", type(e).__name__]
            rep.case(case, nontrivial=len(ps) >= 2)
            rep.count(f"tuple:len{min(len(ps), 5)}")
            if 0 in ps:
                rep.count("tuple:has-zero")
            if code[0] == "ok":
                old = seen.tuples.get(code[1])
                if old is not None and old[0] != tuple(ps):
                    rep.violation("C13:oct9-collision", f"tuples {list(old[0])} and {ps} are both encoded as {code[1]}",
                                  {"kind": "multi", "cases": [old[1], case]}, "injective", {"value": code[1], "other": list(old[0])})
                seen.tuples[code[1]] = (tuple(ps), case)
            reqs.append({"m": "c13.encode_tuple", "ps": ps})
            meta.append((case, code))
        elif kind == "scramble":
            n, b = case["number"], case["minbits"]
            try:
                v = S.scramble_number(n, b)
                code = {"value": v}
                try:
                    back = S.unscramble_number(v)
                except Exception as e:  # noqa
                    back = "exc:" + type(e).__name__
                if back != n:
                    rep.violation("C13:scramble-not-reversible", f"unscramble_number(scramble_number({n}, {b})) = {back}",
                                  case, n, back)
                old = seen.scr.get(v)
                if old is not None and old[0] != n:
                    rep.violation("C13:scramble-collision", f"scramble_number maps {old[0]} and {n} to {v}",
                                  {"kind": "multi", "cases": [old[1], case]}, "injective", v)
                seen.scr[v] = (n, case)
            except AssertionError as e:
                code = {"error": _assert_kind(e)}
            rep.case(case, nontrivial=n >= 10)
            rep.count("scramble:" + ("ok" if "value" in code else code["error"]))
            rep.count("scramble:bits<=32" if n < 2**32 else "scramble:bits<=128" if n < 2**128 else "scramble:bits>128")
            if n >= 10 and std_lg(n // 10) != (n // 10).bit_length() - 1:
                rep.count("scramble:float-log-off-by-one")
            reqs.append({"m": "c13.scramble", "number": n, "minbits": b})
            meta.append((case, code))
        elif kind == "mask":
            first, second = {}, {}
            for k, nb in case["pairs"]:
                first[(k, nb)] = S.mask_for_key(k, nb)
            for k, nb in reversed(case["pairs"]):
                second[(k, nb)] = S.mask_for_key(k, nb)
            rep.case(case, nontrivial=len(set(map(tuple, case["pairs"]))) > 128)
            rep.count("mask:pairs", len(case["pairs"]))
            for key, m in first.items():
                if second[key] != m:
                    rep.violation("C13:mask-not-a-function", f"mask_for_key{key} returned {m} and later {second[key]}",
                                  case, m, second[key])
                    break
                if m >> key[1]:
                    rep.violation("C13:mask-too-wide", f"mask_for_key{key} = {m} has more than {key[1]} bits", case)
                    break
                if m != std_mask(*key):
                    rep.disagreement("c13.mask", {"kind": "mask", "pairs": [list(key)]}, std_mask(*key), m)
                    break
            rep.traces_validated += 1
        elif kind == "alpha_code":
            al, mc, n = case["alphabet"], case["min_chars"], case["n"]
            try:
                a = U.AlphaUniquifier(pid=1, parts="index", alphabet=al, min_chars=mc, randomize_codes=False)

                class Stub:
                    unique_id = n

                a.number_generator = Stub()
                code = a.unique_id
            except Exception as e:  # noqa
                code = "exc:" + type(e).__name__
            rep.case(case, nontrivial=n >= len(al))
            rep.count(f"alpha_code:base{'2' if len(al) == 2 else '<=16' if len(al) <= 16 else '<=62' if len(al) <= 62 else '>62'}")
            if isinstance(code, str) and not code.startswith("exc:"):
                check_alpha_shape(rep, case, code, al, mc, "alpha code")
                old = seen.codes.get((al, code))
                if old is not None and old[0] != n:
                    rep.violation("C13:baseN-collision", f"alphabet {al!r}: numbers {old[0]} and {n} both give {code!r}",
                                  {"kind": "multi", "cases": [old[1], case]}, "injective", code)
                seen.codes[(al, code)] = (n, case)
            reqs.append({"m": "c13.alpha_code", "alphabet": al, "min_chars": mc, "n": n})
            meta.append((case, code))
        elif kind in ("proc", "ctxpos"):
            if kind == "ctxpos":
                n = probe_ctx() + 2
                case = dict(case, kind="proc", ops=[["num", "context,index", None, True], ["num", "index,context", None, True],
                                                    ["draw", 0, n], ["draw", 1, n]])
            first, outs = real_proc(case, rep, seen)
            kinds = {o[0] for o in outs}
            ndraw = sum(1 for o in outs if o[0] == "value")
            ngen = sum(1 for o in outs if o[0] == "created")
            rep.case(case, nontrivial=ngen >= 2 and ndraw >= 4)
            for k in kinds:
                rep.count("proc:out:" + k)
            rep.count("proc:draws", ndraw)
            rep.count("proc:generators", ngen)
            for op in case["ops"]:
                if op[0] == "alpha":
                    rep.count("proc:alpha:" + ("rand" if op[5] else "plain"))
                    rep.count("proc:alphabet-size:" + str(len(op[3] or DEFAULT_ALPHABET)))
                elif op[0] == "num":
                    rep.count("proc:num")
            reqs.append(model_proc_req(case, first))
            meta.append((case, outs))
        elif kind == "recipe":
            first, r, created = real_recipe(case)
            ops, gmeta, draws = recipe_ops(case, defaults)
            rep.case(case, nontrivial=len(draws) >= 4 and len(gmeta) >= 2)
            rep.count("recipe:outcome:" + str(r.outcome))
            rep.count("recipe:mode:" + ("big" if case.get("big_ids") else "small"))
            rep.count("recipe:pid:" + ("given" if case.get("pid") is not None else "time-based"))
            rep.count("recipe:draws", len(draws))
            values = []  # canonical captured values (typed), in row/field order
            for _t, fields in r.rows:
                for name, v in fields:
                    if name != "id" and not name.startswith("__"):
                        values.append(v)
            if r.outcome == "ok":
                if len(created) != len(gmeta) or len(values) != len(draws):
                    rep.disagreement("c13.recipe-shape", case,
                                     {"generators": len(gmeta), "values": len(draws)},
                                     {"generators": len(created), "values": len(values)})
                else:
                    ks = {}
                    for h, v in zip(draws, values):
                        k = ks.get(h, 0)
                        ks[h] = k + 1
                        gm, inst = gmeta[h], created[h]
                        if gm["kind"] == "alpha" and isinstance(v, dict) and v.get("t") == "float":
                            # the v3 dialect re-reads a rendered code such as "15E5" as a Python literal
                            rep.count("recipe:code-read-as-float")
                            rep.violation(
                                "C13:code-reinterpreted-as-float",
                                f"AlphaCodeGenerator({inst.parts!r}, alphabet {gm['alphabet']!r}): the field value is the float "
                                f"{v['v']} instead of a code (snowfakery_version {case.get('version')})",
                                case, "a string over the alphabet", v)
                            continue
                        v = _plain(v)
                        info = {"gen": inst._verif_serial, "k": k, "tuple": tuple_of(inst, k), "template": str(inst.parts),
                                "kind": gm["kind"], "alphabet": gm["alphabet"], "randomize": gm["randomize"]}
                        seen.add(rep, case, v, info)
                        if gm["kind"] == "alpha":
                            check_alpha_shape(rep, case, v if isinstance(v, str) else str(v), gm["alphabet"],
                                              gm["min_chars"], f"AlphaCodeGenerator({gm['template']!r})")
            reqs.append({"m": "c13.proc", "first_ctx": 1 if first is None else first, "ops": ops})
            meta.append((case, (r, values)))
        else:
            raise ValueError(f"unknown case kind {kind}")
    res = model_eval(reqs)
    for (case, real), (st, val) in zip(meta, res):
        rep.traces_validated += 1
        kind = case["kind"]
        if st != "ok":
            rep.disagreement("c13." + kind, case, {"driver-error": val}, str(real)[:500])
            continue
        if kind == "tuple":
            if real != ["ok", val]:
                rep.disagreement("c13.encode_tuple", case, val, real)
        elif kind == "scramble":
            model = val["result"]
            if model != real:
                rep.disagreement("c13.scramble", case, model, real)
            elif "value" in model and (val.get("unscrambled") != case["number"] or val.get("assert_qty") != 0):
                rep.disagreement("c13.unscramble", case, val, case["number"])
        elif kind == "alpha_code":
            if val["code"] != real:
                rep.disagreement("c13.alpha_code", case, val["code"], real)
        elif kind == "proc":
            model = canon_model_outs(val["outs"])
            if model != real:
                idx = next((i for i, (a, b) in enumerate(zip(model, real)) if a != b), min(len(model), len(real)))
                rep.disagreement("c13.proc", case, {"first_difference_at_op": idx, "model": model[idx : idx + 3]},
                                 {"code": real[idx : idx + 3]})
        elif kind == "recipe":
            r, values = real
            mouts = val["outs"]
            mfailed = [o for o in mouts if o[0] == "failed"]
            if r.outcome != "ok":
                if not mfailed or not r.outcome == "recipe_error":
                    rep.disagreement("c13.recipe", case, {"model_failed": mfailed[:1]}, {"outcome": r.outcome, "error": r.error})
                    continue
                # rows completed before the failing create/draw were written: their values must agree
                before = []
                for o in mouts:
                    if o[0] == "failed":
                        break
                    if o[0] == "value":
                        before.append(o[3])
                nf = len(case["fields"])
                before = before[: (len(before) // nf) * nf]
                got = [str(_plain(v)) for v in values]
                if len(got) != len(before) or not all(_same(m, c) for m, c in zip(before, values)):
                    rep.disagreement("c13.recipe-prefix", case, {"values_before_failure": before[:6], "n": len(before)},
                                     {"values": got[:6], "n": len(got), "error": r.error})
                continue
            mvals = [o[3] for o in mouts if o[0] == "value"]
            if mfailed or len(values) != len(mvals) or not all(_same(m, c) for m, c in zip(mvals, values)):
                idx = next((i for i, (a, b) in enumerate(zip(mvals, values)) if not _same(a, b)), -1)
                rep.disagreement("c13.recipe", case, {"failed": mfailed[:1], "first_difference_at_value": idx, "model": mvals[idx : idx + 3] if idx >= 0 else len(mvals)},
                                 {"code": values[idx : idx + 3] if idx >= 0 else len(values)})


def _plain(v):
    """captured canonical value -> Python value"""
    if isinstance(v, dict):
        if v.get("t") == "int":
            return int(v["v"])
        if "v" in v:
            return v["v"]
    return v


def _same(model_value, captured):
    """model value (int or code string) against a captured canonical value. A code that the v3
    dialect re-read as a float literal (reported by the oracle as C13:code-reinterpreted-as-float)
    corresponds when the float is the value of that literal."""
    if isinstance(captured, dict) and captured.get("t") == "float":
        return (isinstance(model_value, str) and re.fullmatch(r"\d+[eE]\d+", model_value) is not None
                and repr(float(model_value)) == captured["v"])
    return str(model_value) == str(_plain(captured))


class SeenAll(Seen):
    def __init__(self):
        super().__init__()
        self.tuples = {}
        self.scr = {}
        self.codes = {}


# ------------------------------------------------------------------ generators

TEMPLATE_POOL = [
    "context,index", "pid,context,index", "index", "pid,index", "index,context", "context,pid,index",
    "5,index", "5,context,index", "context,5,index", "007,index", "0,index", "index,0", "0,0,index",
    "context, index", " PID , Context , INDEX ", "Index", "9,index", "8,index", "64,context,index",
    "index,index", "context,index,context", "pid,pid,index", "123456789,index",
]
NOINDEX_POOL = ["5,context", "context", "pid", "7", "pid,context"]
BAD_POOL = ["foo,index", "index,", ",index", "", "9.7,index", "-3,index", "ind ex", "context;index", "index,+5"]
ALPHABETS = [
    None, None, "ACGT", "01", "AB", "0123456789", "01234567", "0123456789A", "abcdefghijklmnopqrstuvwxyz",
    "0123456789ABCDEFGHIJKLMNOPQRSTUVWXYZabcdefghijklmnopqrstuvwxyz", "ABC123!", "XYZ", "0123456789ABCDEF",
    "ZYXWVUTSRQPONMLKJIHGFEDCBA9876543210", "éèàùç", "ab",
]
BAD_ALPHABETS = ["A", "AB-", "-"]


def gen_template(rng):
    r = rng.random()
    if r < 0.55:
        t = rng.choice(TEMPLATE_POOL)
        return respell(t, rng) if rng.random() < 0.3 else t
    if r < 0.62:
        return rng.choice(NOINDEX_POOL)
    if r < 0.67:
        return rng.choice(BAD_POOL)
    parts = []
    for _ in range(rng.randint(1, 5)):
        parts.append(rng.choice(["index", "context", "pid", str(rng.choice([0, 1, 7, 8, 9, 63, 64, 511, 512, rng.randint(0, 10**6)]))]))
    if rng.random() < 0.8 and "index" not in parts:
        parts.insert(rng.randint(0, len(parts)), "index")
    sep = rng.choice([",", ",", ", ", " ,"])
    return sep.join(parts)


def respell(template, rng, fresh=False):
    """Another spelling of the same template: whitespace around the commas and at both ends, mixed
    case (`_convert` receives `part.strip().lower()`, so the id layout is the same). With `fresh`
    the amount of whitespace is drawn from a large range, so that the exact string has almost
    surely not been used before in this process."""
    hi = 9 if fresh else 2
    out = []
    for part in template.split(","):
        part = part.strip()
        part = "".join(ch.upper() if rng.random() < 0.4 else ch.lower() for ch in part)
        ws = lambda: "".join(rng.choice("  \t" if fresh else " ") for _ in range(rng.randint(0, hi)))  # noqa
        out.append(ws() + part + ws())
    return ",".join(out)


CONTEXT_TEMPLATES = ["context,index", "pid,context,index", "context,index", "pid,context,index", "5,context,index",
                     "context,pid,index", "index,context"]


def gen_spelling_case(rng):
    """Several generators whose templates are spelling variants of one template containing
    `context` (incl. the canonical spelling the defaults use): same id layout, so only the
    process-wide counter keeps them apart."""
    base = rng.choice(CONTEXT_TEMPLATES)
    spellings = [base] + [respell(base, rng, fresh=True) for _ in range(rng.randint(1, 3))]
    if rng.random() < 0.5:
        spellings.append(respell(base, rng))
    rng.shuffle(spellings)
    alpha = rng.random() < 0.4
    al, mc, rz = rng.choice([None, "ACGT", "0123456789ABCDEF"]), rng.choice([4, 8, 12]), rng.random() < 0.6
    ops = []
    for t in spellings:
        ops.append(["alpha", t, None, al, mc, rz] if alpha else ["num", t, None, True])
    for h in range(len(spellings)):
        ops.append(["draw", h, rng.randint(1, 6)])
    return {"kind": "proc", "pid": rng.choice([None, 3, 111, 3333333333333333]), "ops": ops}


def gen_spelling_recipe(rng):
    """The builtins / plugin defaults of a mode next to `var` generators whose template is the
    mode's default written with other spacing and case."""
    big = rng.random() < 0.5
    base = "pid,context,index" if big else "context,index"
    gens = []
    for _ in range(rng.randint(1, 3)):
        t = respell(base, rng, fresh=rng.random() < 0.8).replace("\t", " ")
        if rng.random() < 0.6:
            gens.append({"type": "num", "template": t})
        else:
            # in big-id mode this is also the default template of unique_alpha_code
            gens.append({"type": "alpha", "template": t if big else respell("context,index", rng, fresh=True).replace("\t", " ")})
    if rng.random() < 0.5:
        gens.append({"type": "num", "template": None})
    fields = [["g", i] for i in range(len(gens))] + [["builtin_id"], ["plugin_id"]]
    if big or rng.random() < 0.3:
        fields.append(["builtin_alpha"])
    rng.shuffle(fields)
    return {"kind": "recipe", "pid": rng.choice([None, 3, 111, 3333333333333333]), "big_ids": big,
            "version": rng.choice([2, 3]), "gens": gens, "fields": fields, "count": rng.randint(1, 4), "reps": rng.randint(1, 2)}


def gen_pid(rng):
    return rng.choice([None, 0, 1, 3, 5, 7, 8, 9, 64, 111, 3333333333333333, rng.randint(0, 10**9), rng.randint(0, 10**25)])


def gen_alpha_args(rng, allow_bad=True):
    al = rng.choice(ALPHABETS)
    if allow_bad and rng.random() < 0.04:
        al = rng.choice(BAD_ALPHABETS)
    mc = rng.choice([0, 1, 3, 4, 5, 6, 8, 8, 8, 10, 12, 20, 40, rng.randint(0, 64)])
    rz = rng.random() < 0.65
    return al, mc, rz


def gen_proc_case(rng, big=False):
    pid = gen_pid(rng)
    ops, handles = [], 0
    ngen = rng.randint(1, 6)
    shared = gen_template(rng) if rng.random() < 0.5 else None
    for _ in range(ngen):
        t = shared if (shared is not None and rng.random() < 0.7) else gen_template(rng)
        if rng.random() < 0.5:
            ops.append(["num", t, None, True])
        else:
            al, mc, rz = gen_alpha_args(rng)
            ops.append(["alpha", t, None, al, mc, rz])
        handles += 1
    budget = rng.choice([20, 60, 200]) if not big else rng.choice([2000, 6000, 20000])
    for _ in range(rng.randint(ngen, 3 * ngen)):
        ops.append(["draw", rng.randrange(handles), rng.randint(1, max(1, budget // ngen))])
    if rng.random() < 0.3:
        ops.append(["num", gen_template(rng), None, True])
        ops.append(["draw", handles, rng.randint(1, 10)])
    return {"kind": "proc", "pid": pid, "ops": ops}


def gen_recipe_case(rng):
    gens = []
    for _ in range(rng.randint(0, 4)):
        r = rng.random()
        if r < 0.3:
            t = None  # the default template of the mode
        elif r < 0.95:
            t = rng.choice(TEMPLATE_POOL[:14] + NOINDEX_POOL[:2])
        else:
            t = rng.choice(BAD_POOL[:2])
        if rng.random() < 0.5:
            gens.append({"type": "num", "template": t})
        else:
            al, mc, rz = gen_alpha_args(rng, allow_bad=False)
            if al is not None and (al.isdigit() or not al.isascii() or "!" in al):
                al = "ACGT"  # keep clear of YAML / v2 number re-interpretation: not what this property is about
            g = {"type": "alpha", "template": t}
            if al is not None:
                g["alphabet"] = al
            if rng.random() < 0.7:
                g["min_chars"] = mc
            if rng.random() < 0.6:
                g["randomize"] = rz
            gens.append(g)
    fields = [["g", i] for i in range(len(gens))]
    for b in ("builtin_id", "plugin_id", "builtin_alpha"):
        if rng.random() < 0.7:
            fields.append([b])
    if not fields:
        fields = [["builtin_id"]]
    rng.shuffle(fields)
    if rng.random() < 0.3:
        fields.append(rng.choice(fields))
    return {
        "kind": "recipe", "pid": rng.choice([None, None, 3, 111, 3333333333333333, rng.randint(0, 10**12)]),
        "big_ids": rng.choice([None, False, True, True]), "version": rng.choice([2, 3]),
        "gens": gens, "fields": fields, "count": rng.randint(1, 6), "reps": rng.randint(1, 3),
    }


def gen_tuple_case(rng):
    n = rng.choice([1, 1, 2, 2, 3, 3, 4, 6])
    pool = [0, 0, 1, 7, 8, 9, 15, 63, 64, 72, 73, 511, 512, 585, 4095, 4096]
    ps = [rng.choice(pool) if rng.random() < 0.7 else rng.randint(0, rng.choice([100, 10**6, 10**18, 10**40])) for _ in range(n)]
    return {"kind": "tuple", "ps": ps}


def gen_tuple_confusables(rng):
    """A tuple and the tuples it would be confused with if the separator were an octal digit or if
    `int()` dropping a leading zero mattered."""
    a = rng.choice([0, 1, 7, 8, 15, 63, 64, rng.randint(0, 5000)])
    b = rng.choice([0, 1, 7, 8, 15, 63, 64, rng.randint(0, 5000)])
    c = rng.randint(0, 100)
    oa, ob = oct(a)[2:], oct(b)[2:]
    out = [[a, b], [b], [0, b], [a, b, c], [a, int(ob + oct(c)[2:], 8)]]
    for d in "01234567":
        out.append([int(oa + d + ob, 8)])
    out.append([int(oa + ob, 8)])
    return [{"kind": "tuple", "ps": ps} for ps in out]


def gen_alpha_confusables(rng):
    """Codes that coincide if padding used another character than the zero digit."""
    al = rng.choice([a for a in ALPHABETS if a])
    m = rng.choice([2, 3, 4, 8])
    b = len(al)
    ns = [0] + [b**j - 1 for j in range(1, m + 1)] + [b**j for j in range(1, m + 1)] + [(b**j - 1) // (b - 1) for j in range(1, m + 1)]
    return [{"kind": "alpha_code", "alphabet": al, "min_chars": m, "n": n} for n in ns]


def gen_scramble_case(rng):
    bits = rng.choice([1, 3, 4, 7, 10, 13, 14, 20, 33, 47, 48, 49, 52, 53, 54, 63, 64, 65, 100, 200, 500, 990, 996, 997, 998, 999, 1000, 1001, 1003, 1010])
    r = rng.random()
    if r < 0.25:
        n = (1 << bits) * 10 + rng.randrange(10)  # number // 10 is exactly a power of two
    elif r < 0.5:
        n = ((1 << bits) - 1) * 10 + rng.randrange(10)  # … or one below (float log rounds up from ~2**48)
    else:
        n = rng.getrandbits(bits)
    b = rng.choice([10, 10, 10, 11, 12, 20, 23, 24, 25, 30, 40, 64, 100, 500, 1012, 1013, 1014, 2000, 0, 5, 9])
    return {"kind": "scramble", "number": n, "minbits": b}


def gen_alpha_code_case(rng):
    al = rng.choice([a for a in ALPHABETS if a])
    n = rng.choice([0, 1, len(al) - 1, len(al), len(al) ** 2 - 1, len(al) ** 2, len(al) ** 7, len(al) ** 8 - 1,
                    rng.getrandbits(rng.choice([8, 30, 64, 200]))])
    return {"kind": "alpha_code", "alphabet": al, "min_chars": rng.choice([0, 1, 2, 4, 8, 8, 9, 20, 100]), "n": n}


def gen_mask_case(rng, n=200):
    pairs = set()
    while len(pairs) < n:
        pairs.add((rng.randrange(10), rng.choice([10, 11, 12, 13, 20, 40, 64, 100, rng.randint(10, 999)])))
    pairs = [list(p) for p in pairs]
    rng.shuffle(pairs)
    return {"kind": "mask", "pairs": pairs}


FIXED = [
    # the witnesses of the refutation theorems (also listed as known-finding inputs)
    {"kind": "tuple", "ps": [0, 15]}, {"kind": "tuple", "ps": [0]}, {"kind": "tuple", "ps": [0, 0]},
    {"kind": "tuple", "ps": [127, 99, 0, 1]}, {"kind": "tuple", "ps": [9]}, {"kind": "tuple", "ps": [1, 1]}, {"kind": "tuple", "ps": [73]},
    {"kind": "scramble", "number": 0, "minbits": 10}, {"kind": "scramble", "number": 9, "minbits": 10},
    {"kind": "scramble", "number": 10, "minbits": 10}, {"kind": "scramble", "number": 1751, "minbits": 10},
    {"kind": "scramble", "number": 2**1005, "minbits": 10}, {"kind": "scramble", "number": 5, "minbits": 9},
    {"kind": "alpha_code", "alphabet": "ACGT", "min_chars": 6, "n": 27},
    {"kind": "alpha_code", "alphabet": "01", "min_chars": 0, "n": 2},
    {"kind": "alpha_code", "alphabet": "0123456789", "min_chars": 0, "n": 10},
    # small alphabets with the default min_chars trip `assert minbits >= 10` (outcome compared with the model)
    {"kind": "proc", "pid": 3, "ops": [["alpha", "index", None, "AB", 8, True], ["draw", 0, 2], ["alpha", "index", None, "AB", 10, True], ["draw", 1, 3]]},
    {"kind": "proc", "pid": None, "ops": [["num", "pid,context,index", None, True], ["num", "pid,context,index", None, True], ["draw", 0, 5], ["draw", 1, 5]]},
]


RESUME_FIXED = [
    # smallest shape: one stored default generator, the builtin next to it, run 2 longer than run 1
    {"kind": "resume", "pid": None, "big_ids": False, "version": 3, "holders": [None], "gens": [],
     "fields": [["h", 0], ["builtin_id"]], "count": 2, "reps1": 1, "reps2": 2, "reps": 1},
    {"kind": "resume", "pid": 111, "big_ids": True, "version": 2, "holders": [None, "pid, Context, index"],
     "gens": [{"type": "num", "template": None}], "fields": [["builtin_id"], ["h", 1], ["g", 0], ["h", 0], ["plugin_id"]],
     "count": 3, "reps1": 1, "reps2": 3, "reps": 1},
]


def run(ctx, rep, findings):
    rep.rule = (
        "tuple codings (1-6 components, biased to 0 / 7 / 8 / 9 / 63 / 64 and huge values); scramble_number on numbers of "
        "1..1010 bits around powers of two with minbits 0..2000 (both asserts reachable); mask_for_key on > 128 distinct "
        "(key, numbits) pairs in two orders; alphabet codes over 14 alphabets (size 2..62, non-ASCII) x min_chars 0..100; "
        "spelling variants of one context-bearing template (extra blanks/tabs around commas, mixed case) mixed with the "
        "canonical/default spelling in one process, at function level and in recipes of both modes; "
        "function-level processes (1-7 generators, numeric / alphabetic, templates over pid/context/index/literals incl. "
        "malformed ones, pid None / small / 25 digits, <= 200 draws each, thorough: <= 20000) and recipes (plugin UniqueId, "
        "vars re-created per iteration, builtins unique_id / unique_alpha_code, small-id and big-id mode, pid option or "
        "time-based pid with a fixed clock, v2 and v3 dialect, 1-3 iterations). Non-trivial: tuple of >= 2 components, "
        "number >= 10, > 128 mask pairs, code of >= 2 digits, process / recipe with >= 2 generators and >= 4 draws."
    )
    seen = SeenAll()
    d = common.model_batch([{"m": "c13.defaults"}])[0]
    if d[0] != "ok":
        raise common.DriverError(f"c13.defaults: {d[1]}")
    defaults = d[1]
    cases = [f["input"] for f in findings if f.get("input")]
    cases += ctx.corpus()
    cases += FIXED
    rng = ctx.rng
    cases.append(gen_mask_case(rng, 200))
    for _ in range(ctx.scale(1200, 8000)):
        cases.append(gen_tuple_case(rng))
    for _ in range(ctx.scale(100, 600)):
        cases += gen_tuple_confusables(rng)
    for _ in range(ctx.scale(60, 400)):
        cases += gen_alpha_confusables(rng)
    for _ in range(ctx.scale(1500, 10000)):
        cases.append(gen_scramble_case(rng))
    for _ in range(ctx.scale(800, 5000)):
        cases.append(gen_alpha_code_case(rng))
    procs = [gen_proc_case(rng) for _ in range(ctx.scale(400, 2500))]
    recipes = [gen_recipe_case(rng) for _ in range(ctx.scale(350, 2500))]
    big = [gen_proc_case(rng, big=True) for _ in range(ctx.scale(4, 40))]
    procs += [gen_spelling_case(rng) for _ in range(ctx.scale(80, 600))]
    recipes += [gen_spelling_recipe(rng) for _ in range(ctx.scale(60, 500))]
    resumes = [gen_resume_case(rng) for _ in range(ctx.scale(12, 60, search_factor=1))]
    mixed = procs + recipes
    rng.shuffle(mixed)
    cases += mixed + big
    cases.append(gen_mask_case(rng, 300))
    check_cases(RESUME_FIXED + resumes, rep, seen, defaults)
    for i in range(0, len(cases), 300):
        check_cases(cases[i : i + 300], rep, seen, defaults)
        if ctx.time_left() < 60:
            rep.notes.append("stopped early: time budget")
            break
    rep.extra["values_checked_for_distinctness"] = len(seen.by_value)


def _fails(case, signature):
    r = common.Report("C13")
    seen = SeenAll()
    d = common.model_batch([{"m": "c13.defaults"}])[0][1]
    try:
        check_cases([case], r, seen, d)
    except Exception:  # noqa
        return False
    return any(v["signature"] == signature for v in r.violations)


def shrink(case, signature):
    """Minimise a failing process case (fewer ops, fewer draws), keeping the oracle signature."""
    if case.get("kind") != "proc":
        return case
    ops = list(case["ops"])
    creates = [o for o in ops if o[0] != "draw"]
    draws = [o for o in ops if o[0] == "draw"]
    if not _fails(dict(case, ops=creates + draws), signature):
        return case
    draws = common.shrink_list(draws, lambda ds: _fails(dict(case, ops=creates + ds), signature), max_rounds=40)
    for i, dr in enumerate(draws):
        n = dr[2] if len(dr) > 2 else 1
        while n > 1:
            cand = draws[:i] + [["draw", dr[1], n // 2]] + draws[i + 1 :]
            if _fails(dict(case, ops=creates + cand), signature):
                n //= 2
                draws = cand
            else:
                break
    return dict(case, ops=creates + draws)


def replay(case, rep):
    d = common.model_batch([{"m": "c13.defaults"}])[0][1]
    check_cases([case], rep, SeenAll(), d)
