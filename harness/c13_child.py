"""Child process of the C13 scenario family "continuation resumed in a fresh process".

Reads one JSON job on stdin, runs one recipe through `snowfakery.data_generator.generate` in
*this* (fresh) process — optionally from / to a continuation file — and prints one JSON line:
the captured rows, the continuation text, and the numeric generator instances in creation order
(context number, template text, start, randomize, pid string), observed by wrapping `__init__`.
Run as `python -m harness.c13_child` with cwd = framework root and VERIF_REPO set.
"""
import json
import os
import sys


def main():
    job = json.loads(sys.stdin.read())
    repo = job["repo"]
    if repo in sys.path:
        sys.path.remove(repo)
    sys.path.insert(0, repo)
    os.environ["VERIF_REPO"] = repo
    from harness import c13, common
    import snowfakery

    with c13.instrumented() as created:
        first = c13.peek_ctx()
        r = common.run_recipe(
            job["recipe"], reps=job["reps"], plugin_options=job.get("plugin_options") or {},
            continuation=job.get("continuation"), want_continuation=bool(job.get("want_continuation")),
        )
        insts = []
        for g in created:
            d = g.__dict__  # (PluginResult.__getattr__ must not be triggered on half-built objects)
            insts.append({
                "serial": d.get("_verif_serial"),
                "ctx": d.get("unique_identifer"),
                "parts": d.get("parts") if isinstance(d.get("parts"), str) else None,
                "start": d.get("start"),
                "randomize": d.get("randomize"),
                "pid": d.get("pid") if isinstance(d.get("pid"), str) else None,
            })
    out = {
        "file": snowfakery.__file__, "first_ctx": first, "outcome": r.outcome, "error": r.error,
        "rows": r.rows, "continuation": r.continuation, "created": insts,
    }
    sys.stdout.write(json.dumps(out, default=str) + "\n")


if __name__ == "__main__":
    main()
