"""Which Lean modules, pin groups and harness module decide each property.

Each harness module `harness/cNN.py` carries its own `SPEC` dict:
  lean: theorem modules to build and audit; pins: pin groups (tools/pins); harness: module name;
  technique / level_text / level_note: MANIFEST texts; assumptions: evidence assumptions;
  budget: {"quick": seconds, "thorough": seconds} (optional).
"""
import importlib
import os
import re

PROPS = {}
_here = os.path.dirname(os.path.abspath(__file__))
for _fn in sorted(os.listdir(_here)):
    _m = re.fullmatch(r"c(\d\d)\.py", _fn)
    if _m:
        _mod = importlib.import_module(f"harness.c{_m.group(1)}")
        if getattr(_mod, "SPEC", None):
            PROPS[f"C{_m.group(1)}"] = dict(_mod.SPEC, harness=f"harness.c{_m.group(1)}")

# properties not (yet) claimed, with the reason that goes into MANIFEST.not_applicable
NOT_CLAIMED = {}

# fix: commits made in /repo (genuine defects repaired)
FIX_COMMITS = ["218cffc", "2a51dc3"]
