"""Which Lean modules, pin groups and harness module decide each property.

Each harness module `harness/cNN.py` carries its own `SPEC` dict:
  lean: theorem modules to build and audit; pins: pin groups (tools/pins); harness: module name;
  technique / level_text / level_note: MANIFEST texts; assumptions: evidence assumptions;
  budget: {"quick": seconds, "thorough": seconds} (optional).
"""
import importlib
import os
import re

PROPS = {}
_here = os.path.dirname(os.path.abspath(__file__))
for _fn in sorted(os.listdir(_here)):
    _m = re.fullmatch(r"c(\d\d)\.py", _fn)
    if _m:
        _mod = importlib.import_module(f"harness.c{_m.group(1)}")
        if getattr(_mod, "SPEC", None):
            PROPS[f"C{_m.group(1)}"] = dict(_mod.SPEC, harness=f"harness.c{_m.group(1)}")

# properties not (yet) claimed, with the reason that goes into MANIFEST.not_applicable
NOT_CLAIMED = {}

# fix: commits made in /repo (genuine defects repaired); none of them is a hook
FIX_COMMITS = ['218cffc', '2a51dc3', 'ae1111e', '3997a0f', 'd660dab', '96e00ac', '6604eb0', '9826fcb', 'cfed176', 'f914bf1', 'e0d1353', '5a30154', 'bc0f717', 'a90df5d', '6b5b124', '8e9f95d', '6b35a3e', 'd8c74a2', '5da9efa', 'cf894eb', '70277f6', '97f2c27', '6931335', 'eef84fd', '885750c', '043066e', '7f47b5f', '919a3ea', '2d62050', 'a876aa4', 'faf67d0', 'f9d6080', '6ccffd4', '8788294', '292eb44', '00d5484', 'f5a8180', 'a5a821f', '66ecebf', 'a6412d5', 'a42b384', '0295108', '2865b43', '8a555f7', '6be3bcb', 'ea86b8c', 'e8cf4d3', '07a822a', 'b940bd9']
