"""C20 — invalid recipes are rejected with a recipe error, not an internal failure.

Documents (harness/c20docs.py):
  * every *single structural edit* of a corpus of valid recipes (tests/*.yml, examples/**/*.yml that run
    without network / Salesforce, and a dozen generated ones that together use every construct of the
    modelled layer, two of them with include files): replace any node by each other shape from a pool
    (null, true, 5, 1.5, "x", [], [1, 2], {}, {a: b}, a date, plus a second pool of boundary shapes),
    delete any key / list item, rename any key (to an unknown name, the empty string, a non-string scalar, a
    dotted name, or another known key);
  * grammar-free random YAML built from the recipe vocabulary, and raw text (invalid YAML, aliases that make
    the loaded value cyclic, tags, control characters, 400-deep nesting).
quick: a seeded sample of the edits; thorough: all of them.

Correspondence (tie C).  The Lean model `ParseCheck.check` decides, for a YAML value, what everything that
runs before the interpreter does with it: `ok` (with the parsed statements), `recipe_error <DataGenError
subclass>`, `stuck <exception type>@<function>` (an operation the code performs unguarded in place; proved
unreachable since the repairs), or `fuel` (nested deeper than the recursion budget: a DataGenSyntaxError on the code).  For every document the model covers
(plain YAML values, flat include files, plugin names the environment can decide) the real run must agree on
the outcome class, the error class, the stage (parse / options / refs) and the raising site, and — when both
accept — on the parsed statements (`parse_recipe` is run once more and its ObjectTemplate / VariableDefinition
/ StructuredValue tree is compared with the model's, macro expansion and de-duplication included).

Direct oracle (model independent), on every document: the run ends within 5 s; what escapes from
`snowfakery.data_generator.generate` is a DataGenError (with a non-empty message) or nothing; an error raised by
one of the passes that precede the interpreter leaves the captured row list empty.  A violation is keyed by
(exception type, innermost Snowfakery function) so that a new escape site is a new violation.
"""
import datetime
import os
import re

from . import common
from . import c20docs as D

SPEC = {
    "lean": ["SnowModel.Props.C20", "SnowModel.Props.C20Bridge"],
    "pins": ["ParseTables", "GenerateOrder", "PluginResolve"],
    "harness": "harness.c20",
    "technique": "Lean 4 theorems about an executable model of the validation layer (parse_recipe incl. include files, macros, the declaration loop, versions across files; merge_options; the random_reference static pass) over arbitrary YAML values, with an explicit `stuck site` outcome for every operation the code still performs unguarded in place + key/type tables, isinstance tuples, collection rules, every raise with its condition and class, the cycle stacks, the RecursionError guard and the call order of generate() regenerated from the AST + mutation-based differential of outcome class, error class, stage, site and parsed statements + a direct oracle on the escaping exception and on the location of recipe errors",
    "level_text": "Machine-checked proof, for every YAML value, every set of include files and every amount of fuel, that the model of the validation layer (a) never gets stuck — every document is accepted, rejected with a recipe error, and beyond an explicit budget never runs out of fuel (parse_never_stuck, parse_terminates, accepted_or_rejected at full strength: the 16 escape sites that refuted it have been repaired in the repository and the model follows the repaired code; the operations that remain unguarded in place are proved unreachable); (b) only accepts documents whose parsed form satisfies the shape invariant the interpreter relies on; (c) rejects include_file cycles and macro cycles through nested templates for every amount of fuel (witness families); (d) produces no row before a structural fault.  The model is tied to the source by bridging lemmas over tables regenerated from the AST on every run and by differential runs over every single structural edit of a corpus of valid recipes.",
    "level_note": "Trusted: Lean kernel; py2lean + tools/pins/parse_tables.py; the harness (PyYAML as the loader of the document for the model; conversion of the loaded value); CPython isinstance / dict / truthiness semantics as modelled. The universal negative over arbitrary YAML is decided by proof only for the modelled checks; plugin argument checking, formula evaluation and everything that happens once the interpreter runs are covered by the direct oracle only (differential exploration). Termination is proved with an explicit budget (parse_terminates); on the code the budget is Python's recursion limit and exceeding it is a recipe error too (pinned).",
    "assumptions": [
        "yaml.safe_load builds the same value for the harness (which converts it for the model) and for Snowfakery's line-number loader; a user-written `__line__` key is overwritten by the loader and is dropped before the model sees the value",
        "plugin names: whether a dotted name resolves to a plugin class is a fact of the environment, given to the model as a list (checked against the real resolve_plugin at start-up); no ParserMacroPlugin is loaded in covered documents",
        "include files live next to the recipe (flat names); the model sees the loaded value of each",
        "Python's recursion limit is the fuel of the code: a document nested deeper than 40 levels is outside the compared fragment (the oracle still applies)",
    ],
    "budget": {"quick": 420, "thorough": 900},
}

FUEL = 3000
STATIC_STAGES = ("parse", "options", "refs")
PLUGIN_CANDIDATES = [
    "snowfakery.standard_plugins.Math",
    "snowfakery.standard_plugins.Counters",
    "snowfakery.standard_plugins.UniqueId",
    "snowfakery.standard_plugins.Schedule",
    "snowfakery.standard_plugins.base64.Base64",
    "snowfakery.standard_plugins.file.File",
    "snowfakery.standard_plugins.datasets.Dataset",
    "snowfakery.standard_plugins.statistical_distributions.StatisticalDistributions",
    "snowfakery.standard_plugins.SnowfakeryVersion.SnowfakeryVersion",
    "faker_microservice.Provider",
]
_known_plugins = None


def known_plugins():
    """Dotted names that the real `resolve_plugin` turns into plugin classes none of which is a ParserMacroPlugin."""
    global _known_plugins
    if _known_plugins is None:
        from snowfakery.plugins import resolve_plugin, ParserMacroPlugin, LineTracker

        out = []
        for name in PLUGIN_CANDIDATES:
            try:
                cats = resolve_plugin(name, LineTracker("x", 1))
            except Exception:  # noqa
                continue
            if cats and all(base is not ParserMacroPlugin for base, _ in cats):
                out.append(name)
        _known_plugins = out
    return _known_plugins


# ----------------------------------------------------------------------------- document -> model value


class NotCovered(Exception):
    pass


_PENDING = object()


PLAIN_NAME = re.compile(r"^[A-Za-z0-9_][A-Za-z0-9_.\-]*$")
DOTTED = re.compile(r"^[A-Za-z_][A-Za-z_0-9]*(\.[A-Za-z_][A-Za-z_0-9]*)+$")
ASCII_INCLUDE = re.compile(r"^[\x20-\x7e]*$")


def to_model(v, depth=0, seen=None):
    seen = seen if seen is not None else set()
    if depth > 40:
        raise NotCovered("deep")
    if v is None or isinstance(v, bool) or isinstance(v, str):
        if isinstance(v, str):
            try:
                v.encode("utf-8")
            except UnicodeEncodeError:
                raise NotCovered("surrogate")
        return v
    if isinstance(v, int):
        return v
    if isinstance(v, float):
        return {"f": repr(v)}
    if isinstance(v, (datetime.date, datetime.datetime)):
        return {"d": v.isoformat()}
    if isinstance(v, (list, dict)):
        if id(v) in seen:
            raise NotCovered("cyclic")
        seen = seen | {id(v)}
        if isinstance(v, list):
            return [to_model(x, depth + 1, seen) for x in v]
        out = []
        for k, x in v.items():
            if isinstance(k, str) and k == "__line__":
                continue  # overwritten by Snowfakery's loader
            if isinstance(k, (list, dict, tuple, set, bytes)):
                raise NotCovered("key")
            out.append([to_model(k, depth + 1, seen), to_model(x, depth + 1, seen)])
        return {"m": out}
    raise NotCovered("type:" + type(v).__name__)


def _import_root_exists(name, directory):
    """Could `import <root of name>` succeed with the search path `resolve_plugins` builds?"""
    import importlib.util

    root = name.split(".")[0]
    try:
        if importlib.util.find_spec(root) is not None:
            return True
    except Exception:  # noqa
        return True
    extra = [os.path.join(directory, "plugins") if directory else None, "./plugins", os.path.expanduser("~/.snowfakery/plugins")]
    for d in extra:
        if d and (os.path.exists(os.path.join(d, root + ".py")) or os.path.isdir(os.path.join(d, root))):
            return True
    return False


def scan_env(doc, directory, files, budget):
    """Coverage conditions that depend on the world: plugin names and include files of one loaded file.
    Fills `files` {relative name: model value | "yaml_error"} (flat names only)."""
    if not isinstance(doc, list):
        return
    for obj in doc:
        if not isinstance(obj, dict):
            continue
        p = obj.get("plugin")
        if isinstance(p, str) and "." in p:
            if p not in known_plugins():
                if not DOTTED.match(p) or _import_root_exists(p, directory):
                    raise NotCovered("plugin")
        inc = obj.get("include_file")
        if isinstance(inc, str) and inc and not inc.startswith("/"):
            if inc in (".", ".."):
                continue  # a directory: not a file for the code, not a file for the model
            if not PLAIN_NAME.match(inc):
                raise NotCovered("include-name")
            if inc in files:
                continue
            path = os.path.join(directory, inc) if directory else None
            if path is None or not os.path.exists(path):
                continue  # the model finds no such file either
            if not os.path.isfile(path):
                continue  # a directory: `is_file()` is false, the code reports it like a missing file
            budget[0] -= 1
            if budget[0] < 0:
                raise NotCovered("include-many")
            try:
                with open(path) as f:
                    text = f.read()
            except Exception:  # noqa
                raise NotCovered("include-read")
            try:
                sub = D.load(text)
            except Exception:  # noqa
                files[inc] = "yaml_error"
                continue
            files[inc] = _PENDING  # placeholder against cycles
            files[inc] = to_model(sub)
            scan_env(sub, directory, files, budget)
        for v in obj.values():
            pass
    # include strings with exotic white space are outside the model's `strip`
    for obj in doc:
        if isinstance(obj, dict):
            _scan_includes(obj, 0)


def _scan_includes(v, depth):
    if depth > 45:
        return
    if isinstance(v, dict):
        inc = v.get("include")
        if isinstance(inc, str) and not ASCII_INCLUDE.match(inc):
            raise NotCovered("include-chars")
        for x in v.values():
            _scan_includes(x, depth + 1)
    elif isinstance(v, list):
        for x in v:
            _scan_includes(x, depth + 1)


def model_request(case):
    """The driver request for a case, or None when the model does not cover the document."""
    try:
        doc = D.load(case["text"])
    except Exception:  # noqa: not YAML at all -- no model value
        return None
    try:
        files = {}
        if case.get("files") is not None:
            # temp-dir cases: the files are given
            for name, text in list(case["files"].items()) + [("main.recipe.yml", case["text"])]:
                if not PLAIN_NAME.match(name):
                    raise NotCovered("file-name")
                try:
                    files[name] = to_model(D.load(text))
                except NotCovered:
                    raise
                except Exception:  # noqa
                    files[name] = "yaml_error"
            for name, text in case["files"].items():
                try:
                    scan_env(D.load(text), None, dict(files), [0])
                except NotCovered:
                    raise
                except Exception:  # noqa
                    pass
            scan_env(doc, None, files, [0])
        else:
            directory = os.path.dirname(os.path.join(D.REPO, case["name"])) if case.get("name") else os.getcwd()
            scan_env(doc, directory, files, [8])
        mdoc = to_model(doc)
    except NotCovered:
        return None
    except RecursionError:
        return None
    return {
        "m": "c20.check",
        "fuel": FUEL,
        "plugins": known_plugins(),
        "files": [[k, v] for k, v in files.items() if v is not _PENDING],
        "doc": mdoc,
    }


# ----------------------------------------------------------------------------- real side: digest of parse_recipe


def _digest(x):
    from snowfakery.data_generator_runtime_object_model import (
        ObjectTemplate,
        VariableDefinition,
        SimpleValue,
        StructuredValue,
    )

    if isinstance(x, ObjectTemplate):
        fe = x.for_each_expr
        return [
            "T",
            x.tablename,
            x.nickname or None,
            bool(x.just_once),
            x.update_key or None,
            [[f.name, _digest(f.definition)] for f in x.fields],
            [_digest(f) for f in x.friends],
            _digest(x.count_expr) if x.count_expr is not None else None,
            [fe.varname, _digest(fe.expression)] if fe is not None else None,
        ]
    if isinstance(x, VariableDefinition):
        return ["V", x.varname, _digest(x.expression)]
    if isinstance(x, StructuredValue):
        return ["F", x.function_name, [_digest(a) for a in x.args], [[k, _digest(v)] for k, v in x.kwargs.items()]]
    if isinstance(x, SimpleValue):
        return ["S"]
    return ["?", type(x).__name__]


def real_parse_digest(case):
    """parse_recipe on the same document: the statements as the model's digest."""
    import io
    import shutil
    import tempfile
    from snowfakery.parse_recipe_yaml import parse_recipe

    tmpdir = None
    src = None
    try:
        with D.time_limit(D.CASE_TIMEOUT):
            if case.get("files") is not None:
                tmpdir = tempfile.mkdtemp(prefix="verif_c20_")
                for name, text in case["files"].items():
                    with open(os.path.join(tmpdir, name), "w") as f:
                        f.write(text)
                path = os.path.join(tmpdir, "main.recipe.yml")
                with open(path, "w") as f:
                    f.write(case["text"])
                src = open(path)
            else:
                src = D._NamedStringIO(case["text"])
                if case.get("name"):
                    src.name = os.path.join(D.REPO, case["name"])
            pr = parse_recipe(src)
            return {
                "statements": [_digest(s) for s in pr.statements],
                "version": pr.version if pr.version is None else int(pr.version),
                "options": len(pr.options),
                "refs": len(pr.random_references),
            }
    except BaseException as e:  # noqa
        if isinstance(e, (KeyboardInterrupt, SystemExit)):
            raise
        return {"error": f"{type(e).__name__}: {str(e)[:200]}"}
    finally:
        if src is not None:
            try:
                src.close()
            except Exception:  # noqa
                pass
        if tmpdir:
            shutil.rmtree(tmpdir, ignore_errors=True)


# ----------------------------------------------------------------------------- evaluation of one case


def evaluate(case):
    """Runs in a worker: the real run + (when the document may be covered) the real parse digest."""
    res = D.run_case(case)
    if res["outcome"] in ("ok", "capped") or (res["stage"] == "run"):
        # the static passes accepted the document: the parsed statements can be compared
        res["digest"] = real_parse_digest(case) if case.get("want_digest", True) else None
    return res


_BASES = []  # [(base case, parsed doc, {file name: parsed doc})], set before the pool forks


def materialize(case):
    """A case given as {"spec": (base index, file name | None, edit)} -> the full case (text, files, origin)."""
    if "spec" not in case:
        return case
    bi, fname, edit = case["spec"]
    b, doc, fdocs = _BASES[bi]
    if fname is None:
        text = D.dump(D.apply_edit(doc, edit))
        return {"text": text, "name": b["name"], "files": b["files"], "origin": b["origin"] + " :: " + D.describe(edit),
                "kind": case.get("kind_override") or ("edit:" + edit[0])}
    t2 = D.dump(D.apply_edit(fdocs[fname], edit))
    return {"text": b["text"], "name": None, "files": dict(b["files"], **{fname: t2}),
            "origin": b["origin"] + f" [{fname}] :: " + D.describe(edit), "kind": "edit-included:" + edit[0]}


def _worker(case):
    try:
        try:
            case = materialize(case)
        except Exception:  # noqa: an edit PyYAML cannot write down
            return {"skip": True}
        res = evaluate(case)
        res["case"] = {k: case.get(k) for k in ("text", "name", "files", "origin", "kind", "probe")}
        res["rq"] = model_request(case)
        return res
    except BaseException as e:  # noqa  (a crash of the harness itself must be visible)
        import traceback

        if isinstance(e, (KeyboardInterrupt, SystemExit)):
            raise
        return {"crash": traceback.format_exc()[-1500:]}


def evaluate_all(cases):
    import multiprocessing as mp

    n = min(14, max(1, (os.cpu_count() or 2) - 2))
    if len(cases) < 8:
        return [_worker(c) for c in cases]
    known_plugins()  # resolve once, before forking
    ctx = mp.get_context("fork")
    with ctx.Pool(n) as pool:
        return pool.map(_worker, cases, chunksize=16)


# Recipe errors that carry no file/line on the recorded tree (480f922 + fix commits): raised by code that has no
# template / statement at hand (a non-mapping top-level element, the option merge, the static random_reference
# pass, the row history, conversions inside plugins, anything that reaches the user through a `var`, which adds no
# location).  A DataGenError without location raised anywhere else is reported: the second half of the property
# ("and, where the fault is attributable, the file and line").
NO_LOCATION_BASELINE = {
    "DataGenSyntaxError@parse_recipe_yaml.categorize_top_level_objects",
    "DataGenNameError@data_generator.merge_options",
    "DataGenSyntaxError@data_generator_runtime.get_referent_name",
    "DataGenError@row_history.random_row_reference",
    "DataGenError@row_history.next",
    "DataGenError@Schedule._normalize_frequency",
    "DataGenTypeError@Schedule._normalize_until",
    "DataGenValueError@UniqueId._convert",
    "DataGenSyntaxError@parse_recipe_yaml.parse_recipe",  # "nested too deeply": the RecursionError guard has no node at hand
    "DataGenValueError@fake_data_generator.__init__",  # "Unknown locale" (fix a42b384): raised where Faker is built, no statement at hand
}


def oracle(res, case=None):
    """Model-independent: [(signature, what)] for one real run."""
    out = []
    oc = res["outcome"]
    if oc == "hang":
        out.append(("C20:" + str(res["site"]), f"the run did not end within {D.CASE_TIMEOUT}s (interrupted in {str(res['site']).split('@', 1)[-1]})"))
    elif oc.startswith("internal:"):
        out.append(("C20:escape:" + str(res["site"]), f"{res['error']} escaped from generate() [{res['stage']} stage]"))
        if res.get("family"):
            out.append(("C20:escape:" + res["family"], f"{res['error']} escaped through the evaluation of a `var` value [{res['stage']} stage]"))
    elif oc == "recipe_error":
        if res.get("has_message") is False:
            out.append(("C20:error-without-message", f"{res['errtype']} carries no message"))
        if res["stage"] in STATIC_STAGES and res["rows"] > 0:
            out.append(("C20:rows-before-structural-error", f"{res['rows']} rows were written before {res['error']}"))
        if not res.get("has_line") and str(res["site"]) not in NO_LOCATION_BASELINE:
            out.append(("C20:error-without-location@" + str(res["site"]).split("@", 1)[-1],
                        f"{res['error']!r} carries no file/line (raised in {res['site']}, which is not one of the places known to have no location at hand)"))
    if oc.startswith("internal:") and res["stage"] in STATIC_STAGES and res["rows"] > 0:
        out.append(("C20:rows-before-structural-error", f"{res['rows']} rows were written before {res['error']}"))
    probe = (case or {}).get("probe")
    if probe and oc == "recipe_error":
        # an uncompilable template that is evaluated first thing: the fault is attributable to its own line
        where = f"{res.get('file')}:{res.get('line')}"
        if not res.get("line") or not res.get("file"):
            out.append(("C20:template-error-location:" + probe["position"],
                        f"the error for the uncompilable template {probe['template']!r} (line {probe['line']}) carries no complete location ({where})"))
        elif probe["strict"] and res["line"] != probe["line"]:
            out.append(("C20:template-error-location:" + probe["position"],
                        f"the error for the uncompilable template {probe['template']!r} on line {probe['line']} is reported at {where}"))
    return out


ERR_CLASS = {"DataGenYamlSyntaxError": "DataGenSyntaxError"}


def compare(model, res):
    """None if model and code agree, else a description."""
    cls = model["class"]
    oc = res["outcome"]
    code_static = res["stage"] in STATIC_STAGES
    if cls == "ok":
        if oc in ("ok", "capped", "hang") or not code_static:
            dg = res.get("digest")
            if dg is None:
                return None
            if "error" in dg:
                return f"model accepts, parse_recipe alone fails: {dg['error']}"
            for k in ("statements", "version", "options", "refs"):
                if dg[k] != model[k]:
                    return f"parsed {k} differ: model {str(model[k])[:300]} code {str(dg[k])[:300]}"
            return None
        return f"model accepts, code fails in the {res['stage']} stage: {res['error']}"
    if cls == "recipe_error":
        if oc != "recipe_error" or not code_static:
            return f"model: {model['err']} in {model['stage']}; code: {oc} ({res['stage']}) {res['error']}"
        if ERR_CLASS.get(res["errtype"], res["errtype"]) != model["err"]:
            return f"error class: model {model['err']} code {res['errtype']}"
        if res["stage"] != model["stage"]:
            return f"stage: model {model['stage']} code {res['stage']}"
        if res["rows"]:
            return "rows before a structural error"
        return None
    if cls == "stuck":
        if not oc.startswith("internal:") or res["site"] != model["site"]:
            return f"model: stuck at {model['site']}; code: {oc} {res['site']} {res['error']}"
        if res["stage"] != model["stage"]:
            return f"stage: model {model['stage']} code {res['stage']}"
        if res["rows"]:
            return "rows before a structural error"
        return None
    if cls == "fuel":
        # beyond the recursion budget: `parse_recipe` turns the RecursionError into a DataGenSyntaxError
        if oc != "recipe_error" or res["errtype"] != "DataGenSyntaxError" or not str(res["site"]).endswith("parse_recipe_yaml.parse_recipe"):
            return f"model: nested beyond the budget; code: {oc} {res['site']} {res['error']}"
        return None
    return f"unknown model class {cls}"


def check_cases(cases, rep, findings_by_sig=None):
    results = [r for r in evaluate_all(cases) if not r.get("skip")]
    reqs, idx = [], []
    for i, res in enumerate(results):
        if "crash" in res:
            raise RuntimeError("harness worker crashed: " + res["crash"])
        if res["rq"] is not None:
            reqs.append(res["rq"])
            idx.append(i)
    mres = common.model_batch(reqs)
    models = {}
    for i, (st, val) in zip(idx, mres):
        if st != "ok":
            raise common.DriverError(f"driver rejected a document: {val}")
        models[i] = val
    for i, res in enumerate(results):
        case = res["case"]
        kind = case.get("kind") or "edit"
        oc = res["outcome"]
        rep.count("kind:" + kind)
        rep.count("outcome:" + (oc if not oc.startswith("internal:") else "internal"))
        if oc == "recipe_error":
            rep.count("error-class:" + str(res["errtype"]))
            rep.count("error-stage:" + str(res["stage"]))
            rep.count("error-has-line:" + str(bool(res["has_line"])))
            if res["rows"] and res["errtype"] in ("DataGenSyntaxError",):
                rep.count("note:syntax-error-after-rows(run stage, interpretation)")
        model = models.get(i)
        nontrivial = oc != "ok"
        slim = {k: case.get(k) for k in ("text", "name", "files", "origin")}
        if case.get("probe"):
            slim["probe"] = case["probe"]
            rep.count("probe:" + case["probe"]["position"] + ":" + (res["errtype"] or oc))
        rep.case(slim, nontrivial=nontrivial)
        for sig, what in oracle(res, case):
            rep.violation(sig, what, slim, expected="a DataGenError or a successful run", observed=res["error"])
            rep.count("oracle:" + sig)
        if model is None:
            rep.count("model:not-covered")
            continue
        rep.traces_validated += 1
        rep.count("model:" + model["class"] + (":" + model["stage"] if model["class"] != "ok" else ""))
        if model["class"] == "stuck":
            rep.count("model-site:" + model["site"])
        diff = compare(model, res)
        if diff:
            rep.disagreement("C20 model vs code: " + diff[:200], slim, model, {k: res.get(k) for k in ("outcome", "site", "stage", "rows", "error", "errtype")})


# ----------------------------------------------------------------------------- case generation


def valid_bases(rep=None):
    bases = D.base_cases()
    results = evaluate_all([dict(b, want_digest=False) for b in bases])
    good = []
    for b, r in zip(bases, results):
        if r.get("skip"):
            continue
        if "crash" in r:
            raise RuntimeError("harness worker crashed: " + r["crash"])
        if r["outcome"] == "ok" and r["secs"] < 1.5:
            good.append(b)
        elif rep is not None:
            rep.count("base-rejected:" + r["outcome"].split(":")[0])
    return good


def edit_cases(bases, rng, per_base, extra=True):
    """Specs of single structural edits (materialised in the workers); fills _BASES."""
    global _BASES
    _BASES = []
    cases = []
    for b in bases:
        try:
            doc = D.load(b["text"])
            fdocs = {fn: D.load(ft) for fn, ft in (b["files"] or {}).items()}
        except Exception:  # noqa
            continue
        bi = len(_BASES)
        _BASES.append((b, doc, fdocs))
        eds = D.edits_of(doc, extra=extra)
        if per_base is not None and len(eds) > per_base:
            eds = rng.sample(eds, per_base)
        cases.extend({"spec": (bi, None, e)} for e in eds)
        # edits inside the include files of a generated base
        for fname, fdoc in fdocs.items():
            feds = D.edits_of(fdoc, extra=False)
            if per_base is not None and len(feds) > per_base // 2:
                feds = rng.sample(feds, per_base // 2)
            cases.extend({"spec": (bi, fname, e)} for e in feds)
    return cases


def inject_cases(bases, rng, per_base):
    """Every (sampled) scalar value position of every base x every broken / failing template (uses _BASES)."""
    cases = []
    templates = D.BROKEN_TEMPLATES + D.FAILING_TEMPLATES
    for bi, (b, doc, fdocs) in enumerate(_BASES):
        combos = [(path, t) for path in D.scalar_value_positions(doc) for t in templates]
        if b["origin"].startswith("gen/positions"):
            pass  # the bases written for this: everything
        elif len(combos) > per_base:
            combos = rng.sample(combos, per_base)
        cases.extend({"spec": (bi, None, ("replace", path, t)), "kind_override": "inject"} for path, t in combos)
    return cases


HAND_CASES = [
    # one version declaration per file, different versions: a conflict (fix 6931335)
    {"text": "- include_file: b.yml\n- object: A\n  fields:\n    x: ${{1 + 1}}\n", "name": None, "files": {"b.yml": "- snowfakery_version: 3\n- object: B\n"}, "origin": "hand/version-from-included-file", "kind": "hand"},
    {"text": "- include_file: b.yml\n- include_file: c.yml\n- object: A\n", "name": None, "files": {"b.yml": "- snowfakery_version: 3\n- object: B\n", "c.yml": "- snowfakery_version: 2\n- object: C\n"}, "origin": "hand/versions-differ-between-included-files", "kind": "hand"},
    # a macro that includes itself through a nested template (fix 97f2c27), through a friend, and a legitimate re-use
    {"text": "- macro: m\n  fields:\n    x:\n      - object: B\n        include: m\n- object: A\n  include: m\n", "name": None, "files": None, "origin": "hand/macro-cycle-through-nested-template", "kind": "hand"},
    {"text": "- macro: m\n  friends:\n    - object: B\n      include: m\n- object: A\n  include: m\n", "name": None, "files": None, "origin": "hand/macro-cycle-through-friend", "kind": "hand"},
    {"text": "- macro: m\n  fields:\n    x: 1\n- macro: n\n  fields:\n    y:\n      - object: B\n        include: m\n- object: A\n  include: m, n\n", "name": None, "files": None, "origin": "hand/macro-reused-in-nested-template", "kind": "hand"},
    {"text": "- include_file: .\n- object: A\n", "name": None, "files": {}, "origin": "hand/include-directory", "kind": "hand"},
    {"text": "- snowfakery_version: 2\n- include_file: b.yml\n- object: A\n", "name": None, "files": {"b.yml": "- snowfakery_version: 3\n- object: B\n"}, "origin": "hand/versions-differ-across-files", "kind": "hand"},
    {"text": "- include_file: b.yml\n- snowfakery_version: 3\n- object: A\n", "name": None, "files": {"b.yml": "- snowfakery_version: 2\n- snowfakery_version: 2\n- object: B\n"}, "origin": "hand/versions-differ-across-files-2", "kind": "hand"},
    {"text": "- include_file: b.yml\n- snowfakery_version: 3\n- snowfakery_version: 2\n- object: A\n", "name": None, "files": {"b.yml": "- snowfakery_version: 2\n- object: B\n"}, "origin": "hand/versions-conflict-in-one-file", "kind": "hand"},
    # two files that include each other (fix 70277f6)
    {"text": "- include_file: b.yml\n- object: A\n", "name": None, "files": {"b.yml": "- include_file: main.recipe.yml\n- object: B\n"}, "origin": "hand/include-cycle", "kind": "hand"},
    {"text": "- include_file: b.yml\n- object: A\n", "name": None, "files": {"b.yml": "- object: [\n"}, "origin": "hand/include-bad-yaml", "kind": "hand"},
    {"text": "- include_file: b.yml\n- object: A\n", "name": None, "files": {"b.yml": "a: b\n"}, "origin": "hand/include-not-list", "kind": "hand"},
    {"text": "- include_file: b.yml\n- object: A\n  include: m\n", "name": None, "files": {"b.yml": "- macro: m\n  fields:\n    x: [1, 2]\n"}, "origin": "hand/include-macro-hole", "kind": "hand"},
    {"text": "- macro: a\n  include: b\n- macro: b\n  include: a\n- object: A\n  include: a\n", "name": None, "files": None, "origin": "hand/macro-cycle", "kind": "hand"},
    {"text": "- macro: m\n  fields:\n    x: 1\n- macro: m\n  fields:\n    y: 2\n- object: A\n  include: m, m\n  fields:\n    y: 3\n    x: 4\n    y: 5\n", "name": None, "files": None, "origin": "hand/macro-redefined-dedupe", "kind": "hand"},
]


def run(ctx, rep, findings):
    rep.rule = (
        "documents = every single structural edit (replace a node by another shape / delete / rename a key) of a corpus of "
        "valid recipes (quick: seeded sample), grammar-free random YAML, raw text; non-trivial = the real run does not "
        "simply succeed; traces = documents on which the Lean model's outcome (class, error class, stage, site, parsed "
        "statements) was compared with the real run"
    )
    # 1 known-finding inputs and the corpus of minimised past failures
    first = []
    for f in findings:
        inp = f.get("input") or {}
        if "text" in inp:
            first.append({"text": inp["text"], "name": inp.get("name"), "files": inp.get("files"), "origin": "finding " + f["id"], "kind": "finding"})
    for c in ctx.corpus():
        first.append(dict(c, kind="corpus"))
    first.extend(HAND_CASES)
    for t in D.RAW_TEXTS:
        first.append({"text": t, "name": None, "files": None, "origin": "raw", "kind": "raw"})
    first.extend(D.probe_cases())
    check_cases(first, rep)

    # 2 bases
    bases = valid_bases(rep)
    rep.extra["valid_bases"] = len(bases)
    check_cases([dict(b, kind="base") for b in bases], rep)
    # a generated base is valid by construction: if it stops running it is not dropped but reported
    valid_origins = {b["origin"] for b in bases}
    lost = [dict(b, kind="base-lost") for b in D.base_cases() if b["origin"].startswith("gen/") and b["origin"] not in valid_origins]
    if lost:
        check_cases(lost, rep)

    # 3 single structural edits
    thorough = ctx.tier == "thorough"
    per_base = None if thorough else ctx.scale(300, 300, search_factor=2)  # thorough: every edit
    cases = edit_cases(bases, ctx.rng, per_base, extra=True)
    rep.extra["edit_cases"] = len(cases)
    rep.extra["edits_exhaustive"] = bool(thorough)
    chunk = 6000
    for i in range(0, len(cases), chunk):
        if ctx.time_left() < 60:
            rep.notes.append(f"time budget: stopped after {i} of {len(cases)} edit cases")
            break
        check_cases(cases[i : i + chunk], rep)

    # 3b formulas that do not compile / fail when rendered, injected into scalar value positions
    inj = inject_cases(bases, ctx.rng, ctx.scale(40, 600))
    rep.extra["inject_cases"] = len(inj)
    for i in range(0, len(inj), chunk):
        if ctx.time_left() < 45:
            rep.notes.append(f"time budget: stopped after {i} of {len(inj)} template injections")
            break
        check_cases(inj[i : i + chunk], rep)

    # 4 grammar-free random YAML
    n = ctx.scale(6000, 20000)
    rnd = [{"text": D.dump(D.random_doc(ctx.rng)), "name": None, "files": None, "origin": f"random{i}", "kind": "random"} for i in range(n)]
    for i in range(0, len(rnd), chunk):
        if ctx.time_left() < 30:
            rep.notes.append(f"time budget: stopped after {i} of {len(rnd)} random documents")
            break
        check_cases(rnd[i : i + chunk], rep)


def replay(case, rep):
    check_cases([dict(case, kind="replay")], rep)


def shrink(case, signature):
    """Delete list items / keys of the document while the same oracle signature persists."""

    def fails(text):
        r = common.Report("C20")
        try:
            res = evaluate(dict(case, text=text, want_digest=False))
        except Exception:  # noqa
            return False
        return any(sig == signature for sig, _ in oracle(res, case))

    if case.get("probe"):
        return case  # already minimal; the expected line belongs to this exact text
    try:
        doc = D.load(case["text"])
    except Exception:  # noqa
        return case
    if not fails(D.dump(doc)):
        return case
    changed = True
    rounds = 0
    while changed and rounds < 200:
        changed = False
        rounds += 1
        for path, node in list(D.walk(doc)):
            if not path:
                continue
            try:
                cand = D.delete_at(doc, path)
                text = D.dump(cand)
            except Exception:  # noqa
                continue
            if fails(text):
                doc = cand
                changed = True
                break
    return dict(case, text=D.dump(doc), origin=str(case.get("origin")) + " (shrunk)")
