"""C11 — bounded random functions stay inside their bounds and can reach both ends.

Correspondence: `random_number`, `random_choice`, `date_between`, `datetime_between` of the real
code — driven through recipes (`common.run_recipe`) *and* at function level
(`StandardFuncs.Functions()`), with every random draw controlled from the harness — against the
Lean model `SnowModel.Bounded` through the driver.  Draws are forced to both extremes and to
harness-chosen interior points by replacing `random._inst._randbelow`, `random._inst.random` and
the `random` object of the Faker generator used for dates; CPython's `randrange` / `choice` /
`choices` arithmetic and Faker's date code run unmodified on top of those primitive draws.

Direct oracle (model-independent), on controlled and on completely unpatched runs:
value in [min, max] on the step lattice, both lattice ends observed under extreme draws, empty
range is an error; picked option is listed, has positive weight, is the one holding all the
weight; date / datetime between the bounds *as the instants the user wrote*, both ends observed
under extreme draws, reversed bounds never give a value.
"""
import contextlib
import datetime as _dt
import re
import time

from . import common

SPEC = {
    "lean": ["SnowModel.Props.C11", "SnowModel.Props.C11Bridge"],
    "pins": ["BoundedFuncs", "TemplateUtils"],
    "harness": "harness.c11",
    "technique": "Lean 4 theorems over an executable model of random_number / random_choice / date_between / "
    "datetime_between with explicit draws (lattice, support, exact selection intervals, bounds, attainability of "
    "both ends, error cases) + pins of the randrange arguments, weight parsing, `probability or when`, "
    "replace-vs-astimezone regenerated from the AST + differential correspondence with forced and chosen draws "
    "at recipe and function level + direct oracle on unpatched runs",
    "level_text": "Machine-checked proof, for every (min,max,step), every weight vector, every pair of date / datetime "
    "bounds and every admissible draw, that the model's results lie on the lattice / in the support / between the "
    "bounds and that both ends are attained (for random_number also for every way a recipe can write the arguments, "
    "6be3bcb / D54); after the fix commits cfed176 / f914bf1 / e0d1353 the statements about "
    "zero probabilities, written UTC offsets, cache aliasing and equal bounds are proved at full strength (D09, D08, "
    "D39, D37 are regression inputs); after 919a3ea and a6412d5 the two-sided bound start <= v <= end holds for every "
    "spec, offset, fraction and draw (D38, D50 are regression inputs); no C11 finding is open; the model is tied to the source by bridging lemmas over pins regenerated on every "
    "run and by draw-for-draw differential runs.",
    "level_note": "Trusted: Lean kernel; py2lean; the harness; CPython random.randrange/choice/choices and Faker's "
    "date_between/date_time_between are modelled (their arithmetic runs unmodified in the correspondence, only the "
    "primitive draws are replaced); floats are not modelled (weights are integers in the model; date draws are whole "
    "seconds or eighths of a second); calendar <-> day-number conversion is Python's datetime.",
    "assumptions": [
        "Random._randbelow(n) returns an int in [0, n); Random.random() in [0, 1); Random.uniform(a, b) in [a, b]",
        "date <-> ordinal conversion and ISO parsing are done by Python's datetime / dateutil (not modelled)",
        "weights are modelled as integers; fractional weights are covered by the direct oracle only",
        "the process time zone is UTC for `today` (date.today()); wall-clock `now` is frozen per controlled case (datetime.now inside template_funcs returns one instant)",
        "datetime() is modelled for the default target zone (UTC), which is what datetime_between uses for its bounds",
    ],
    "budget": {"quick": 240, "thorough": 1500},
}

EPOCH = _dt.date(1970, 1, 1)
EPOCH_DT = _dt.datetime(1970, 1, 1, tzinfo=_dt.timezone.utc)
US = 1000000
PROCESS_START = _dt.datetime.now(_dt.timezone.utc)


def _tf():
    import snowfakery.template_funcs as tf

    return tf


def _functions():
    return _tf().StandardFuncs.Functions()


# ------------------------------------------------------------------ draw control


def _pick(policy, lo, hi, rng, grain=1):
    """An integer in [lo, hi] according to the policy ('lo' | 'hi' | 'mid')."""
    if policy == "lo" or hi <= lo:
        return lo
    if policy == "hi":
        return hi
    v = rng.randint(lo, hi)
    if grain > 1:
        v = lo + ((v - lo) // grain) * grain
    return v


class DrawCtl:
    """Replaces the primitive draws underneath `random.*` and the date Faker.

    policies: list of 'lo' | 'hi' | 'mid' consumed one per primitive draw ('mid' forever after).
    total: (for random.choices) the integer total weight, so that `random()` can be forced to
           `(x + 0.5) / total` for an integer x in [0, total).
    Records: below = [(n, k)], rand = [x or frac], uniform = [(a, b, offset_us)].
    """

    def __init__(self, policies, rng, total=None, subsecond=False):
        self.policies = list(policies)
        self.rng = rng
        self.total = total
        self.subsecond = subsecond
        self.below, self.rand, self.uniform = [], [], []
        self.i = 0

    def _policy(self):
        p = self.policies[self.i] if self.i < len(self.policies) else "mid"
        self.i += 1
        return p

    # random._inst._randbelow
    def _randbelow(self, n):
        k = _pick(self._policy(), 0, n - 1, self.rng)
        self.below.append((n, k))
        return k

    # random._inst.random  (random.choices)
    def _random(self):
        total = self.total
        if isinstance(total, list):  # one total per draw (weights that change from row to row)
            total = total[len(self.rand)] if len(self.rand) < len(total) else None
        if not total:
            self.rand.append(None)
            return 0.0
        x = _pick(self._policy(), 0, total - 1, self.rng)
        self.rand.append(x)
        return (x + 0.5) / total

    # Faker generator.random
    class _FakerRandom:
        def __init__(self, ctl, real):
            self._ctl, self._real = ctl, real

        def uniform(self, a, b):
            c = self._ctl
            grain = 125000 if c.subsecond else US
            off = _pick(c._policy(), 0, int(b - a) * US, c.rng, grain=grain)
            c.uniform.append((a, b, off))
            return a + off / US

        def random(self):
            c = self._ctl
            off = _pick(c._policy(), 0, US - 125000, c.rng, grain=125000)
            c.uniform.append((None, None, off))
            return off / US

        def __getattr__(self, name):
            return getattr(self._real, name)

    def __enter__(self):
        import random as _r

        self._inst = _r._inst
        self._inst._randbelow = self._randbelow
        self._inst.random = self._random
        self._gen = None
        try:
            fk = _tf().StandardFuncs.Functions._faker_for_dates
            self._gen = fk.factories[0]
            self._saved = self._gen.random
            self._gen.random = DrawCtl._FakerRandom(self, self._saved)
        except Exception:  # noqa: the date Faker moved; date cases then run unforced and disagree
            self._gen = None
        return self

    def __exit__(self, *a):
        for name in ("_randbelow", "random"):
            try:
                delattr(self._inst, name)
            except AttributeError:
                pass
        if self._gen is not None:
            self._gen.random = self._saved


class NoCtl:
    """Unpatched run (real randomness)."""

    below = rand = uniform = ()

    def __enter__(self):
        return self

    def __exit__(self, *a):
        pass


def _ctl(case, rng, **kw):
    if case["draws"] and case["draws"][0] == "real":
        return NoCtl()
    return DrawCtl(case["draws"], rng, **kw)


# ------------------------------------------------------------------ error classification


def _chain(e):
    seen = []
    while e is not None and e not in seen:
        seen.append(e)
        e = e.__cause__ or e.__context__
    return seen


def classify_error(e):
    """Canonical error kind of an exception raised by a function or a recipe run."""
    msgs = " | ".join(str(x) for x in _chain(e))
    if "empty range in randrange" in msgs or "empty range for randrange" in msgs:
        return "empty_range"
    if "zero step" in msgs:
        return "zero_step"
    if "Total of weights must be greater than zero" in msgs:
        return "total_not_positive"
    if "invalid literal for int()" in msgs:
        return "value_error"
    if ("unsupported operand type" in msgs or "can only concatenate str" in msgs
            or "cannot be interpreted as an integer" in msgs or any(isinstance(x, TypeError) for x in _chain(e))):
        return "type_error"
    if "End date is before start date" in msgs:
        return "order_error"
    if "invalid literal for int()" in msgs:
        return "value_error"
    if "No choices supplied" in msgs:
        return "no_choices"
    return "other:" + type(e).__name__ + ":" + str(e)[:120].replace("\n", " ")


# ------------------------------------------------------------------ recipe building


def _recipe(field_yaml_lines, count, v3=False):
    head = "- snowfakery_version: 3\n" if v3 else ""
    body = "\n".join("    " + ln for ln in field_yaml_lines)
    return f"{head}- object: A\n  count: {count}\n  fields:\n{body}\n"


def _field_values(res, field="x"):
    out = []
    for table, fields in res.rows:
        if table == "A":
            out.append(dict(fields).get(field, "<missing>"))
    return out


def _as_int(v):
    if isinstance(v, bool):
        return None
    if isinstance(v, int):
        return v
    if isinstance(v, dict) and v.get("t") == "int":
        return int(v["v"])
    if isinstance(v, dict) and v.get("t") == "str" and re.fullmatch(r"-?\d+", v["v"]):
        return int(v["v"])
    return None


# ------------------------------------------------------------------ random_number


_POWERS = [(2, 31), (2, 53), (2, 63), (2, 64), (10, 20)]


def _fexpr(v, form, big=None):
    """Text of a formula expression denoting the integer v (never starting with `-`: `${{-5}}` is
    Jinja's whitespace-control `{{-` followed by 5)."""
    if form == "var" and big is not None:
        d = v - big
        return f"big + {d}" if d >= 0 else f"big - {-d}"
    if form == "pow":
        b, e = min(_POWERS, key=lambda p: abs(abs(v) - p[0] ** p[1]))
        p = b ** e
        if v >= 0:
            d = v - p
            return f"{b}**{e} + {d}" if d >= 0 else f"{b}**{e} - {-d}"
        d = -v - p  # v = -(p + d)
        return f"0 - {b}**{e} - {d}" if d >= 0 else f"0 - {b}**{e} + {-d}"
    return str(v) if v >= 0 else f"0 - {-v}"


def _rn_recipe(case, n):
    """Recipe text for the recipe-level ways of writing random_number:
    via 'recipe'  : YAML function field, literal YAML ints
    via 'fargs'   : YAML function field, every argument a `${{formula}}` (rendered before the call)
    via 'formula' : inline `${{random_number(min=…, max=…, step=…)}}` (the result is re-rendered)"""
    mn, mx, st = case["min"], case["max"], case["step"]
    via, form, big = case["via"], case.get("argform", "lit"), case.get("big")
    omit = st == 1 and case.get("omit_step")
    head = "- snowfakery_version: 3\n" if case.get("v3") else ""
    if form == "var" and big is not None:
        bigtext = str(big) if case.get("big_literal") else "${{" + _fexpr(big, "pow") + "}}"
        head += f"- var: big\n  value: {bigtext}\n"
    if via == "formula":
        fx = (lambda v: _fexpr(v, form, big)) if form != "lit" else (lambda v: str(v))
        args = f"min={fx(mn)}, max={fx(mx)}" + ("" if omit else f", step={fx(st)}")
        lines = [f"x: ${{{{random_number({args})}}}}"]
    elif via == "fargs":
        fx = lambda v: "${{" + _fexpr(v, form, big) + "}}"  # noqa
        lines = ["x:", "  random_number:", f"    min: {fx(mn)}", f"    max: {fx(mx)}"]
        if not omit:
            lines.append(f"    step: {fx(st)}")
    elif case.get("raw"):
        a, b, c = [x if isinstance(x, int) else f'"{x}"' for x in _raw_args(case)]
        lines = ["x:", "  random_number:", f"    min: {a}", f"    max: {b}", f"    step: {c}"]
    else:
        lines = ["x:", "  random_number:", f"    min: {mn}", f"    max: {mx}"]
        if not omit:
            lines.append(f"    step: {st}")
    body = "\n".join("    " + ln for ln in lines)
    return f"{head}- object: A\n  count: {n}\n  fields:\n{body}\n"


def _value_type(v):
    if isinstance(v, int) and not isinstance(v, bool):
        return "int"
    if isinstance(v, dict) and v.get("t") in ("int", "str"):
        return v["t"]
    return "other"


def _raw_args(case):
    """The three Python objects handed over when the case says how each argument is written:
    'int' | 'str' (the decimal text of the integer) | 'bad:<text>' (a non-numeric string)."""
    out = []
    for v, kind in zip((case["min"], case["max"], case["step"]), case["raw"]):
        out.append(v if kind == "int" else str(v) if kind == "str" else kind[4:])
    return out


def real_rn(case, rng):
    """-> {'outs': [['value', x] | ['error', kind]], 'draws': [(n, k)]}"""
    mn, mx, st = case["min"], case["max"], case["step"]
    n = len(case["draws"])
    via = case["via"]
    with _ctl(case, rng) as ctl:
        if via == "func":
            f = _functions()
            outs = []
            for _ in range(n):
                try:
                    if case.get("raw"):
                        v = f.random_number(*_raw_args(case))
                    elif st == 1 and case.get("omit_step"):
                        v = f.random_number(mn, mx)
                    else:
                        v = f.random_number(mn, mx, st)
                    outs.append(["value", v] if isinstance(v, int) and not isinstance(v, bool) else ["value?", repr(v)])
                except Exception as e:  # noqa
                    outs.append(["error", classify_error(e)])
        else:
            res = common.run_recipe(_rn_recipe(case, n))
            types = []
            if res.outcome == "ok":
                outs = []
                for v in _field_values(res):  # the value THE OUTPUT STREAM RECEIVES
                    iv = _as_int(v)
                    outs.append(["value", iv] if iv is not None else ["value?", repr(v)])
                    types.append(_value_type(v))
            elif res.outcome == "recipe_error":
                outs = [["error", classify_error(res.exc)]]
            else:
                outs = [["error", res.outcome]]
            return {"outs": outs, "draws": [list(d) for d in ctl.below], "types": types}
        return {"outs": outs, "draws": [list(d) for d in ctl.below], "types": []}


def oracle_rn(rep, case, real):
    mn, mx, st = case["min"], case["max"], case["step"]
    outs = real["outs"]
    if any(k.startswith("bad:") for k in case.get("raw") or []):
        rep.count("rn:non-numeric-string-argument")
        for o in outs:
            if o[0] != "error" or o[1].startswith("internal"):
                rep.violation("C11:random-number-nonnumeric-argument-not-rejected",
                              f"random_number with arguments {_raw_args(case)} gave {o} instead of a recipe error",
                              case, "a recipe error", o)
                return
        return
    if st < 1:
        rep.count("rn:step<1 (property silent)")
        return
    if mx < mn:
        for o in outs:
            if o[0] != "error" or o[1].startswith("internal"):
                rep.violation("C11:random-number-empty-range-no-error",
                              f"random_number(min={mn}, max={mx}, step={st}) with max < min gave {o} instead of a recipe error",
                              case, "error", o)
                return
        return
    top = mx - (mx - mn) % st
    nonpos_fargs = case["via"] == "fargs" and not case.get("v3") and (mn <= 0 or mx <= 0)
    for i, o in enumerate(outs):
        if o[0] != "value" and nonpos_fargs and o == ["error", "type_error"]:
            rep.violation("C11:random-number-nonpositive-formula-argument",
                          f"random_number with formula-valued arguments min={mn}, max={mx}, step={st} in the default dialect "
                          "fails with a TypeError: look_for_number leaves `0` and negative numbers strings", case,
                          "an integer on the lattice", o)
            return
        if o[0] != "value":
            rep.violation("C11:random-number-fails",
                          f"random_number(min={mn}, max={mx}, step={st}) gave {o} on a non-empty range",
                          case, "an integer on the lattice", o)
            return
        x = o[1]
        if not (mn <= x <= mx) or (x - mn) % st != 0:
            rep.violation("C11:random-number-off-lattice",
                          f"random_number(min={mn}, max={mx}, step={st}) returned {x}: outside [min, max] or not min + k*step",
                          case, f"min <= x <= max and (x - min) % step == 0", x)
            return
        pol = case["draws"][i] if i < len(case["draws"]) else "mid"
        if pol == "lo" and x != mn:
            rep.violation("C11:random-number-low-end-unreachable",
                          f"random_number(min={mn}, max={mx}, step={st}) under the smallest draw returned {x}, not min",
                          case, mn, x)
            return
        if pol == "hi" and x != top:
            rep.violation("C11:random-number-high-end-unreachable",
                          f"random_number(min={mn}, max={mx}, step={st}) under the largest draw returned {x}, not the top lattice point {top}",
                          case, top, x)
            return
    if len(outs) != len(case["draws"]):
        rep.violation("C11:random-number-fails", "fewer values than rows requested", case, len(case["draws"]), outs)


def model_reqs_rn(case, real):
    reqs = []
    draws = real["draws"]
    for i in range(len(case["draws"])):
        k = draws[i][1] if i < len(draws) else 0
        req = {"m": "c11.random_number", "min": case["min"], "max": case["max"], "step": case["step"], "k": k}
        if case["via"] == "fargs" and not case.get("v3"):
            req["mode"] = "formula_v2"
        if case.get("raw"):
            req["raw"] = _raw_args(case)
        reqs.append(req)
    return reqs


def compare_rn(rep, case, real, answers):
    outs, draws = real["outs"], real["draws"]
    recipe_failed = case["via"] != "func" and len(outs) == 1 and outs[0][0] == "error" and len(case["draws"]) > 1
    for i, (st, val) in enumerate(answers):
        if st != "ok":
            rep.disagreement("c11.random_number", case, val, outs)
            return
        m = val["out"]
        code = outs[0] if recipe_failed else (outs[i] if i < len(outs) else ["missing"])
        if m[0] == "value":
            model = ["value", m[1]]
            if i < len(draws) and draws[i][0] != val["n"]:
                rep.disagreement("c11.random_number:lattice-size", case, val["n"], draws[i][0])
                return
        else:
            model = ["error", m[0]]
        if model != code:
            rep.disagreement("c11.random_number", case, model, code)
            return
        if recipe_failed:
            return
        # the Python type the output stream receives: an inline v2 formula is re-rendered (`0` and
        # negative results arrive as strings), every other path delivers a native int
        types = real.get("types") or []
        if m[0] == "value" and i < len(types):
            want = val["rendered_v2"][0] if (case["via"] == "formula" and not case.get("v3")) else "int"
            if types[i] != want:
                rep.disagreement("c11.random_number:output-type", case, want, types[i])
                return


# ------------------------------------------------------------------ random_choice


def _raw_yaml(raw):
    if raw is None:
        return None
    t, v = raw
    if t == "int":
        return str(v)
    if t == "pct":
        return f"{v}%"
    if t == "str":
        return f'"{v}"'
    if t == "float":  # oracle-only stream
        return str(v)
    if t == "fpct":
        return f"{v}%"
    raise ValueError(raw)


def _raw_weight(raw):
    """Independent reading of a written weight (what the user means)."""
    if raw is None:
        return None
    return float(raw[1])


def real_choice(case, rng):
    form = case["form"]
    if form == "items_rows":
        return real_choice_rows(case, rng)
    n = len(case["draws"])
    if form == "list":
        k = case["n"]
        lines = ["x:", "  random_choice:"] + [f"    - o{i}" for i in range(k)]
        total = None
    else:
        ws = case["weights"]
        k = len(ws)
        ints = [w[1] for w in ws if w is not None and w[0] in ("int", "pct", "str")]
        total = sum(ints) if len(ints) == len([w for w in ws if w is not None]) else None
        lines = ["x:", "  random_choice:"]
        if form == "items":
            for i, w in enumerate(ws):
                lines.append("    - choice:")
                if w is not None:
                    lines.append(f"        probability: {_raw_yaml(w)}")
                lines.append(f"        pick: o{i}")
        else:
            for i, w in enumerate(ws):
                lines.append(f"    o{i}: {_raw_yaml(w)}")
    with _ctl(case, rng, total=total) as ctl:
        res = common.run_recipe(_recipe(lines, n, v3=case.get("v3", False)))
        if res.outcome == "ok":
            outs = []
            for v in _field_values(res):
                m = re.fullmatch(r"o(\d+)", v["v"]) if isinstance(v, dict) and v.get("t") == "str" else None
                outs.append(["picked", int(m.group(1))] if m and int(m.group(1)) < k else ["value?", repr(v)])
        elif res.outcome == "recipe_error":
            outs = [["error", classify_error(res.exc)]]
        else:
            outs = [["error", res.outcome]]
        return {"outs": outs, "below": [list(d) for d in ctl.below], "rand": list(ctl.rand)}


# ---- `choice:` items whose probabilities are formulas: the weight vector changes from row to row


def _rows_index(case, r):
    """Which row of the weight matrix applies to the r-th generated row (0-based over all iterations)."""
    n = case["count"]
    if case["style"] == "id":
        return r
    if case["style"] == "var":
        return (r % n + case["k"]) % n
    return r % n


def _rows_weights(case, r):
    return case["rows"][_rows_index(case, r)]


def _rows_recipe(case):
    n, cols = case["count"], len(case["rows"][0])
    index = {"child_index": "child_index", "id": "id - 1", "var": f"(child_index + k) % {n}"}[case["style"]]
    head = "- snowfakery_version: 3\n" if case.get("v3") else ""
    if case["style"] == "var":
        head += f"- var: k\n  value: {case['k']}\n"
    lines = ["x:", "  random_choice:"]
    for j in range(cols):
        col = [row[j] for row in case["rows"]]
        lines.append("    - choice:")
        if j in case.get("literal", []):
            lines.append(f"        probability: {col[0]}{'%' if case.get('pct') else ''}")
        else:
            lines.append(f"        probability: \"${{{{{col}[{index}]}}}}{'%' if case.get('pct') else ''}\"")
        lines.append(f"        pick: o{j}")
    body = "\n".join("    " + ln for ln in lines)
    return f"{head}- object: A\n  count: {n}\n  fields:\n{body}\n"


def real_choice_rows(case, rng):
    n_rows = len(case["draws"])
    cols = len(case["rows"][0])
    totals = [sum(_rows_weights(case, r)) for r in range(n_rows)]
    with _ctl(case, rng, total=totals) as ctl:
        res = common.run_recipe(_rows_recipe(case), reps=case["reps"])
        if res.outcome == "ok":
            outs = []
            for v in _field_values(res):
                m = re.fullmatch(r"o(\d+)", v["v"]) if isinstance(v, dict) and v.get("t") == "str" else None
                outs.append(["picked", int(m.group(1))] if m and int(m.group(1)) < cols else ["value?", repr(v)])
        elif res.outcome == "recipe_error":
            outs = [["error", classify_error(res.exc)]]
        else:
            outs = [["error", res.outcome]]
        return {"outs": outs, "below": [], "rand": list(ctl.rand)}


def oracle_choice_rows(rep, case, real):
    outs = real["outs"]
    if len(outs) != len(case["draws"]):
        rep.violation("C11:choice-fails",
                      f"random_choice with per-row formula weights produced {outs[:3]} for {len(case['draws'])} rows", case,
                      "one listed option per row", outs[:5])
        return
    for r, o in enumerate(outs):
        ws = _rows_weights(case, r)
        positive = [j for j, w in enumerate(ws) if w > 0]
        where = f"row {r} (iteration {r // case['count']}, child_index {r % case['count']}) with current weights {ws}"
        if o[0] != "picked":
            rep.violation("C11:choice-fails", f"random_choice failed at {where}: {o}", case, positive, o)
            return
        if ws[o[1]] <= 0:
            rep.violation("C11:choice-zero-weight-picked",
                          f"random_choice returned option {o[1]} whose weight is 0 at {where}", case, positive, o[1])
            return
        if len(positive) == 1 and o[1] != positive[0]:
            rep.violation("C11:choice-all-weight-not-picked",
                          f"option {positive[0]} holds all the weight at {where} but option {o[1]} was returned", case,
                          positive[0], o[1])
            return
        pol = case["draws"][r]
        if (pol == "lo" and o[1] != positive[0]) or (pol == "hi" and o[1] != positive[-1]):
            rep.violation("C11:choice-end-unreachable",
                          f"extreme draw ({pol}) at {where} picked option {o[1]}", case,
                          positive[0] if pol == "lo" else positive[-1], o[1])
            return


def model_reqs_choice_rows(case, real):
    reqs = []
    for r in range(len(case["draws"])):
        x = real["rand"][r] if r < len(real["rand"]) and real["rand"][r] is not None else 0
        kind = "pct" if case.get("pct") else "int"
        reqs.append({"m": "c11.choice_items", "weights": [[kind, w] for w in _rows_weights(case, r)], "x": x})
    return reqs


def gen_choice_rows(rng, forced=True):
    n = rng.choice([2, 3, 4, 5])
    reps = rng.choice([1, 2, 2, 3])
    cols = rng.choice([2, 2, 3, 4])
    style = rng.choice(["child_index", "child_index", "id", "var"])
    n_matrix = n * reps if style == "id" else n
    literal = [j for j in range(cols) if rng.random() < 0.25]
    if len(literal) == cols:
        literal = literal[:-1]
    const = {j: rng.choice([0, 0, 10, 50]) for j in literal}
    rows = []
    for i in range(n_matrix):
        kind = rng.random()
        if kind < 0.45:      # one option holds all the weight of the formula columns
            row = [0] * cols
            free = [j for j in range(cols) if j not in literal]
            row[rng.choice(free)] = rng.choice([1, 50, 100])
        elif kind < 0.75:    # some zeros
            row = [rng.choice([0, 0, 5, 30, 100]) for _ in range(cols)]
        else:
            row = [rng.choice([1, 10, 20, 30, 60, rng.randint(1, 500)]) for _ in range(cols)]
        for j in literal:
            row[j] = const[j]
        if sum(row) == 0:
            free = [j for j in range(cols) if j not in literal]
            row[rng.choice(free)] = 100
        rows.append(row)
    draws = ["real"] * (n * reps) if not forced else [rng.choice(["lo", "hi", "mid", "mid"]) for _ in range(n * reps)]
    case = {"kind": "choice", "form": "items_rows", "count": n, "reps": reps, "style": style, "rows": rows,
            "literal": literal, "pct": rng.random() < 0.4, "v3": rng.random() < 0.6, "draws": draws}
    if style == "var":
        case["k"] = rng.randint(0, n - 1)
    return case



def oracle_choice(rep, case, real):
    outs = real["outs"]
    form = case["form"]
    if form == "items_rows":
        return oracle_choice_rows(rep, case, real)
    if form == "list":
        k = case["n"]
        for i, o in enumerate(outs):
            if o[0] != "picked":
                rep.violation("C11:choice-not-listed", f"random_choice over {k} plain options gave {o}", case, "a listed option", o)
                return
            pol = case["draws"][i] if i < len(case["draws"]) else "mid"
            if (pol == "lo" and o[1] != 0) or (pol == "hi" and o[1] != k - 1):
                rep.violation("C11:choice-end-unreachable",
                              f"random_choice over {k} plain options under an extreme draw ({pol}) picked index {o[1]}",
                              case, 0 if pol == "lo" else k - 1, o[1])
                return
        return
    ws = [_raw_weight(w) for w in case["weights"]]
    if any(w is None for w in ws):
        rep.count("choice:missing-probability (property silent)")
        return
    total = sum(ws)
    positive = [i for i, w in enumerate(ws) if w > 0]
    if total <= 0:
        rep.count("choice:all-zero (property silent)")
        return
    for i, o in enumerate(outs):
        if o[0] == "error":
            if any(w == 0 for w in ws):
                rep.violation(
                    "C11:choice-zero-probability-error",
                    f"random_choice ({form} form) with weights {case['weights']}: an option with probability 0 makes the "
                    f"whole function fail ({o[1]}) instead of never being picked",
                    case, "one of the options with positive weight", o)
            else:
                rep.violation("C11:choice-fails", f"random_choice ({form} form) with positive weights failed: {o}", case,
                              "a listed option", o)
            return
        if o[0] != "picked":
            rep.violation("C11:choice-not-listed", f"random_choice returned {o}", case, "a listed option", o)
            return
        if ws[o[1]] <= 0:
            rep.violation("C11:choice-zero-weight-picked",
                          f"random_choice returned option {o[1]} whose weight is 0 (weights {case['weights']})",
                          case, positive, o[1])
            return
        if len(positive) == 1 and o[1] != positive[0]:
            rep.violation("C11:choice-all-weight-not-picked",
                          f"option {positive[0]} holds all the weight but option {o[1]} was returned", case, positive[0], o[1])
            return
        pol = case["draws"][i] if i < len(case["draws"]) else "mid"
        if pol == "lo" and o[1] != positive[0]:
            rep.violation("C11:choice-end-unreachable",
                          f"smallest draw should select the first option with positive weight ({positive[0]}), got {o[1]}",
                          case, positive[0], o[1])
            return
        if pol == "hi" and o[1] != positive[-1]:
            rep.violation("C11:choice-end-unreachable",
                          f"largest draw should select the last option with positive weight ({positive[-1]}), got {o[1]}",
                          case, positive[-1], o[1])
            return


def _model_raw(w):
    return None if w is None else [w[0], w[1]]


def model_reqs_choice(case, real):
    if case["form"] == "items_rows":
        return model_reqs_choice_rows(case, real)
    reqs = []
    n = len(case["draws"])
    if case["form"] == "list":
        for i in range(n):
            k = real["below"][i][1] if i < len(real["below"]) else 0
            reqs.append({"m": "c11.choice_list", "n": case["n"], "k": k})
    else:
        m = "c11.choice_items" if case["form"] == "items" else "c11.choice_kw"
        for i in range(n):
            x = real["rand"][i] if i < len(real["rand"]) and real["rand"][i] is not None else 0
            reqs.append({"m": m, "weights": [_model_raw(w) for w in case["weights"]], "x": x})
    return reqs


def compare_choice(rep, case, real, answers):
    outs = real["outs"]
    failed = len(outs) == 1 and outs[0][0] == "error"
    for i, (st, val) in enumerate(answers):
        if st != "ok":
            rep.disagreement("c11.random_choice", case, val, outs)
            return
        model = ["picked", val[1]] if val[0] == "picked" else ["error", val[0]]
        code = outs[0] if failed else (outs[i] if i < len(outs) else ["missing"])
        if model != code:
            rep.disagreement("c11.random_choice:" + case["form"], case, model, code)
            return
        if failed:
            return
    if case["form"] == "list":
        for n, _k in real["below"]:
            if n != case["n"]:
                rep.disagreement("c11.random_choice:list-size", case, case["n"], n)
                return


# ------------------------------------------------------------------ date_between


def _rel_string(r):
    out = ""
    for v, unit in zip(r, ("y", "M", "w", "d", "h", "m", "s")):
        if v:
            out += ("+" if v > 0 else "-") + str(abs(v)) + unit
    return out


def _date_arg(spec, for_yaml):
    """The value handed to the function / its YAML text."""
    if spec[0] == "today":
        return "today"
    if spec[0] == "rel":
        return _rel_string(spec[1:8])
    iso, fmt = spec[1], spec[2]
    if fmt == "aware":
        # ['abs', date, 'aware', 'HH:MM:SS', offset_minutes]: an aware datetime whose *written* date is `date`
        if for_yaml:
            return f"{iso}T{spec[3]}{_offset_text(spec[4])}"
        return _dt.datetime.fromisoformat(f"{iso}T{spec[3]}").replace(tzinfo=_dt.timezone(_dt.timedelta(minutes=spec[4])))
    if for_yaml:
        return {"date": iso, "str": f'"{iso}"', "datetime": f"{iso}T10:30:00"}[fmt]
    d = _dt.date.fromisoformat(iso)
    if fmt == "date":
        return d
    if fmt == "datetime":
        return _dt.datetime(d.year, d.month, d.day, 10, 30)
    return iso


def real_date(case, rng):
    n = len(case["draws"])
    today0 = _dt.date.today()
    with _ctl(case, rng) as ctl:
        if case["via"] == "func":
            f = _functions()
            outs = []
            for sp in case.get("prime") or []:
                try:
                    f.date(_date_arg(sp, False))
                except Exception:  # noqa
                    pass
            for _ in range(n):
                try:
                    v = f.date_between(start_date=_date_arg(case["start"], False), end_date=_date_arg(case["end"], False))
                    if v is None:
                        outs.append(["null"])
                    elif isinstance(v, _dt.date) and not isinstance(v, _dt.datetime):
                        outs.append(["value", (v - EPOCH).days])
                    else:
                        outs.append(["value?", repr(v)])
                except Exception as e:  # noqa
                    outs.append(["error", classify_error(e)])
        else:
            lines = []
            for j, sp in enumerate(case.get("prime") or []):
                lines += [f"p{j}:", f"  date: {_date_arg(sp, True)}"]
            lines += ["x:", "  date_between:", f"    start_date: {_date_arg(case['start'], True)}",
                     f"    end_date: {_date_arg(case['end'], True)}"]
            res = common.run_recipe(_recipe(lines, n, v3=case.get("v3", False)))
            if res.outcome == "ok":
                outs = []
                for v in _field_values(res):
                    if v is None:
                        outs.append(["null"])
                    elif isinstance(v, dict) and v.get("t") == "date":
                        outs.append(["value", (_dt.date.fromisoformat(v["v"]) - EPOCH).days])
                    else:
                        outs.append(["value?", repr(v)])
            elif res.outcome == "recipe_error":
                outs = [["error", classify_error(res.exc)]]
            else:
                outs = [["error", res.outcome]]
        if _dt.date.today() != today0:
            return None  # midnight passed during the case: discard
        return {"outs": outs, "uniform": [list(u) for u in ctl.uniform], "today": (today0 - EPOCH).days}


def _date_bound_window(spec, today):
    """(earliest, latest) day number the written bound can mean (exact for abs/today/d/w/h/m/s-free specs;
    a month is 28..31 days, a year 365..366 days)."""
    if spec[0] == "today":
        return today, today
    if spec[0] == "abs":
        d = (_dt.date.fromisoformat(spec[1]) - EPOCH).days
        return d, d
    y, mo, w, d, h, mi, s = spec[1:8]
    lo = hi = today + 7 * w + d
    lo += min(365 * y, 366 * y) + min(28 * mo, 31 * mo)
    hi += max(365 * y, 366 * y) + max(28 * mo, 31 * mo)
    secs = 3600 * h + 60 * mi + s
    if secs:
        # sub-day parts: the bound may fall on either neighbouring day
        lo += secs // 86400 - (1 if secs % 86400 else 0)
        hi += secs // 86400 + 1
    return lo, hi


def oracle_date(rep, case, real):
    today = real["today"]
    slo, shi = _date_bound_window(case["start"], today)
    elo, ehi = _date_bound_window(case["end"], today)
    exact = slo == shi and elo == ehi
    for i, o in enumerate(real["outs"]):
        if o[0] == "value":
            v = o[1]
            if ehi < slo:
                rep.violation("C11:date-between-value-from-empty-range",
                              f"date_between returned a date although end ({case['end']}) is before start ({case['start']})",
                              case, "null / error", o)
                return
            if not (slo <= v <= ehi):
                rep.violation("C11:date-between-out-of-bounds",
                              f"date_between({case['start']}, {case['end']}) returned {EPOCH + _dt.timedelta(days=v)}: outside the bounds",
                              case, [slo, ehi], v)
                return
            pol = case["draws"][i] if i < len(case["draws"]) else "mid"
            if exact and pol == "lo" and v != slo:
                rep.violation("C11:date-between-start-unreachable",
                              "the smallest draw does not give the start date", case, slo, v)
                return
            if exact and pol == "hi" and v != ehi:
                rep.violation("C11:date-between-end-unreachable",
                              "the largest draw does not give the end date", case, ehi, v)
                return
        elif o[0] == "null" or o[0] == "error":
            if shi <= elo:
                rep.violation("C11:date-between-no-value",
                              f"date_between({case['start']}, {case['end']}) gave {o} although start <= end",
                              case, "a date between the bounds", o)
                return
        else:
            rep.violation("C11:date-between-not-a-date", f"date_between returned {o}", case, "a date", o)
            return


def _model_date_spec(spec):
    if spec[0] == "today":
        return ["today"]
    if spec[0] == "rel":
        return ["rel"] + list(spec[1:8])
    return ["abs", (_dt.date.fromisoformat(spec[1]) - EPOCH).days]


def model_reqs_date(case, real):
    reqs = []
    for i in range(len(case["draws"])):
        k = real["uniform"][i][2] // US if i < len(real["uniform"]) else 0
        reqs.append({"m": "c11.date_between", "today": real["today"], "start": _model_date_spec(case["start"]),
                     "end": _model_date_spec(case["end"]), "k": k})
    return reqs


def compare_date(rep, case, real, answers):
    outs = real["outs"]
    failed = case["via"] != "func" and len(outs) == 1 and outs[0][0] == "error"
    for i, (st, val) in enumerate(answers):
        if st != "ok":
            rep.disagreement("c11.date_between", case, val, outs)
            return
        m = val["out"]
        model = ["value", m[1]] if m[0] == "value" else [m[0]]
        code = outs[0] if failed else (outs[i] if i < len(outs) else ["missing"])
        if model != code:
            rep.disagreement("c11.date_between", case, {"model": model, "lo": val["lo"], "hi": val["hi"]}, code)
            return
        if i < len(real["uniform"]):
            a, b, _ = real["uniform"][i]
            if a is not None and (a != 86400 * val["lo"] or b != 86400 * val["hi"]):
                rep.disagreement("c11.date_between:resolved-bounds", case, [val["lo"], val["hi"]], [a, b])
                return
        if failed:
            return


# ------------------------------------------------------------------ datetime_between


def _stamp_parts(spec):
    """spec = ['stamp', 'YYYY-MM-DDTHH:MM:SS', microseconds, offset_minutes | None, fmt]"""
    base = _dt.datetime.fromisoformat(spec[1]).replace(microsecond=spec[2])
    return base, spec[3]


def _offset_text(minutes):
    sign = "+" if minutes >= 0 else "-"
    m = abs(minutes)
    return f"{sign}{m // 60:02d}:{m % 60:02d}"


def _dt_arg(spec, for_yaml):
    if spec[0] in ("today", "now"):
        return spec[0]
    if spec[0] == "date":
        iso, fmt = spec[1], spec[2]
        if for_yaml:
            return iso if fmt == "date" else f'"{iso}"'
        return _dt.date.fromisoformat(iso) if fmt == "date" else iso
    base, off = _stamp_parts(spec)
    fmt = spec[4]
    sep = " " if fmt == "iso-space" else "T"
    text = base.strftime(f"%Y-%m-%d{sep}%H:%M:%S") + (f".{base.microsecond:06d}" if base.microsecond else "")
    if off is not None:
        text += _offset_text(off)
    if fmt == "obj" and not for_yaml:
        return base.replace(tzinfo=None if off is None else _dt.timezone(_dt.timedelta(minutes=off)))
    if for_yaml:
        return f'"{text}"' if fmt == "quoted" else text
    return text


def _written_instant(spec, today, now_window):
    """(earliest, latest) aware datetimes the written bound can mean."""
    if spec[0] == "now":
        return now_window
    if spec[0] == "today":
        d = _dt.datetime.combine(today, _dt.time(), tzinfo=_dt.timezone.utc)
        return d, d
    if spec[0] == "date":
        d = _dt.datetime.combine(_dt.date.fromisoformat(spec[1]), _dt.time(), tzinfo=_dt.timezone.utc)
        return d, d
    base, off = _stamp_parts(spec)
    d = base.replace(tzinfo=_dt.timezone(_dt.timedelta(minutes=off or 0)))
    return d, d


def _to_us(d):
    delta = d - EPOCH_DT
    return (delta.days * 86400 + delta.seconds) * US + delta.microseconds


class _ClockMeta(type):
    def __instancecheck__(cls, obj):
        return isinstance(obj, _dt.datetime)


@contextlib.contextmanager
def _frozen_clock(active):
    """The clock is an input like the draws: in controlled cases `datetime.now()` inside
    template_funcs returns one frozen instant (since 885750c `now` is evaluated afresh at every use;
    before, the first value was cached for the life of the process).  Yields that instant."""
    now = _dt.datetime.now(_dt.timezone.utc)
    tf = _tf()
    if not active or getattr(tf, "datetime", None) is not _dt.datetime:
        yield now
        return

    class Frozen(_dt.datetime, metaclass=_ClockMeta):
        @classmethod
        def now(cls, tz=None):
            return now.astimezone(tz) if tz is not None else now.replace(tzinfo=None)

    tf.datetime = Frozen
    try:
        yield now
    finally:
        tf.datetime = _dt.datetime


def real_dt(case, rng):
    n = len(case["draws"])
    today0 = _dt.date.today()
    tz = case.get("tz")
    sub = bool(case.get("subsecond"))
    prime = case.get("prime") or []
    controlled = not (case["draws"] and case["draws"][0] == "real")
    with _ctl(case, rng, subsecond=sub) as ctl, _frozen_clock(controlled) as cached_now:
        if case["via"] == "func":
            f = _functions()
            outs = []
            kw = {}
            if tz is not None:
                from dateutil.relativedelta import relativedelta

                kw["timezone"] = relativedelta(hours=tz)
            for sp in prime:
                try:
                    f.datetime(_dt_arg(sp, False))
                except Exception:  # noqa
                    pass
            for _ in range(n):
                try:
                    v = f.datetime_between(start_date=_dt_arg(case["start"], False), end_date=_dt_arg(case["end"], False), **kw)
                    if isinstance(v, _dt.datetime) and v.tzinfo is not None:
                        outs.append(["value", _to_us(v)])
                    else:
                        outs.append(["value?", repr(v)])
                except Exception as e:  # noqa
                    outs.append(["error", classify_error(e)])
        else:
            lines = []
            for j, sp in enumerate(prime):
                lines += [f"p{j}:", f"  datetime: {_dt_arg(sp, True)}"]
            lines += ["x:", "  datetime_between:", f"    start_date: {_dt_arg(case['start'], True)}",
                      f"    end_date: {_dt_arg(case['end'], True)}"]
            if tz is not None:
                lines += ["    timezone:", "      relativedelta:", f"        hours: {tz}"]
            res = common.run_recipe(_recipe(lines, n, v3=case.get("v3", False)))
            if res.outcome == "ok":
                outs = []
                for v in _field_values(res):
                    if isinstance(v, dict) and v.get("t") == "datetime":
                        d = _dt.datetime.fromisoformat(v["v"])
                        outs.append(["value", _to_us(d)] if d.tzinfo else ["value?", repr(v)])
                    else:
                        outs.append(["value?", repr(v)])
            elif res.outcome == "recipe_error":
                outs = [["error", classify_error(res.exc)]]
            else:
                outs = [["error", res.outcome]]
        after = _dt.datetime.now(_dt.timezone.utc)
        if _dt.date.today() != today0:
            return None
        return {"outs": outs, "uniform": [list(u) for u in ctl.uniform], "today": (today0 - EPOCH).days,
                "now_us": _to_us(cached_now), "now_window": [_to_us(PROCESS_START) - US, _to_us(after) + US]}


def oracle_dt(rep, case, real):
    today = EPOCH + _dt.timedelta(days=real["today"])
    nw = tuple(EPOCH_DT + _dt.timedelta(microseconds=u) for u in real["now_window"])
    s_lo, s_hi = (_to_us(x) for x in _written_instant(case["start"], today, nw))
    e_lo, e_hi = (_to_us(x) for x in _written_instant(case["end"], today, nw))
    offsets = [sp[3] for sp in (case["start"], case["end"]) if sp[0] == "stamp" and sp[3]]
    fractional = [sp for sp in (case["start"], case["end"]) if sp[0] == "stamp" and sp[2]]
    wall_clock = any(sp[0] == "now" for sp in (case["start"], case["end"]))
    primed = bool(case.get("prime")) and not offsets
    for i, o in enumerate(real["outs"]):
        if o[0] == "value":
            v = o[1]
            ok = s_lo <= v <= e_hi
            if ok:
                pol = case["draws"][i] if i < len(case["draws"]) else "mid"
                if not wall_clock and not fractional and not offsets and e_lo - s_lo >= 2 * US:
                    if pol == "lo" and v != s_lo:
                        rep.violation("C11:datetime-cache-aliasing" if primed else "C11:datetime-between-start-unreachable",
                                      "the smallest draw does not give the start instant", case, s_lo, v)
                        return
                    if pol == "hi" and v != e_lo:
                        rep.violation("C11:datetime-cache-aliasing" if primed else "C11:datetime-between-end-unreachable",
                                      "the largest draw does not give the end instant", case, e_lo, v)
                        return
                continue
            what = (f"datetime_between({_dt_arg(case['start'], False)!s}, {_dt_arg(case['end'], False)!s}) returned "
                    f"{(EPOCH_DT + _dt.timedelta(microseconds=v)).isoformat()}")
            if s_lo == e_lo == s_hi == e_hi and 0 < v - e_hi < US:
                rep.violation("C11:datetime-equal-bounds-overshoot",
                              what + ": after the end although start == end", case, [s_lo, e_hi], v)
            elif fractional and 0 < s_lo - v < US:
                rep.violation("C11:datetime-fractional-bound-truncated",
                              what + ": a start with fractional seconds is truncated to a whole second", case, [s_lo, e_hi], v)
            elif fractional and 0 < v - e_hi < US and s_lo // US == e_hi // US:
                rep.violation("C11:datetime-same-second-end-overshoot",
                              what + ": both bounds lie in the same whole second and the value passes the end", case,
                              [s_lo, e_hi], v)
            elif offsets:
                rep.violation("C11:datetime-offset-discarded",
                              what + ": outside the bounds as instants (the written UTC offset is ignored)",
                              case, [s_lo, e_hi], v)
            elif primed:
                rep.violation("C11:datetime-cache-aliasing",
                              what + ": outside the bounds; an equal-instant datetime with another UTC offset, evaluated "
                              "earlier, is served from parse_datetimespec's lru_cache and its wall clock is used",
                              case, [s_lo, e_hi], v)
            else:
                rep.violation("C11:datetime-between-out-of-bounds", what + ": outside the bounds", case, [s_lo, e_hi], v)
            return
        elif o[0] == "error":
            if s_hi <= e_lo:
                if offsets:
                    rep.violation("C11:datetime-offset-discarded",
                                  f"datetime_between raised {o[1]} although start <= end as instants (the written UTC offset is ignored)",
                                  case, "a value between the bounds", o)
                elif primed:
                    rep.violation("C11:datetime-cache-aliasing",
                                  f"datetime_between raised {o[1]} although start <= end; an equal-instant datetime with another "
                                  "UTC offset, evaluated earlier, is served from parse_datetimespec's lru_cache",
                                  case, "a value between the bounds", o)
                else:
                    rep.violation("C11:datetime-between-no-value",
                                  f"datetime_between gave {o} although start <= end", case, "a value between the bounds", o)
                return
        else:
            rep.violation("C11:datetime-between-not-a-datetime", f"datetime_between returned {o}", case, "an aware datetime", o)
            return


def _aware_object(spec, via):
    """Does the bound reach parse_datetimespec as an aware datetime *object* (function argument, or an
    unquoted YAML timestamp)?  Such keys hit the lru_cache by instant (D39, repaired by f914bf1: the
    normalisation is now a function of the instant, so these cases are compared with the model like
    any other; the caches are deliberately NOT cleared between cases)."""
    if spec[0] != "stamp" or spec[3] is None:
        return False
    return spec[4] == "obj" or (via != "func" and spec[4] != "quoted")


def _self_aliasing(case):
    s, e = case["start"], case["end"]
    if not (_aware_object(s, case["via"]) and _aware_object(e, case["via"])) or s[3] == e[3]:
        return False
    return _written_instant(s, None, None) == _written_instant(e, None, None)


def _model_dt_spec(spec):
    if spec[0] in ("today", "now"):
        return [spec[0]]
    if spec[0] == "date":
        return ["date", (_dt.date.fromisoformat(spec[1]) - EPOCH).days]
    base, off = _stamp_parts(spec)
    wall = _to_us(base.replace(tzinfo=_dt.timezone.utc))
    return ["stamp", wall, None if off is None else off * 60]


def model_reqs_dt(case, real):
    reqs = []
    for i in range(len(case["draws"])):
        d = real["uniform"][i][2] if i < len(real["uniform"]) else 0
        reqs.append({"m": "c11.datetime_between", "today": real["today"], "now_us": real["now_us"],
                     "start": _model_dt_spec(case["start"]), "end": _model_dt_spec(case["end"]), "d": d})
    return reqs


def compare_dt(rep, case, real, answers):
    outs = real["outs"]
    failed = case["via"] != "func" and len(outs) == 1 and outs[0][0] == "error"
    for i, (st, val) in enumerate(answers):
        if st != "ok":
            rep.disagreement("c11.datetime_between", case, val, outs)
            return
        m = val["out"]
        model = ["value", m[1]] if m[0] == "value" else ["error", m[0]]
        code = outs[0] if failed else (outs[i] if i < len(outs) else ["missing"])
        if model != code:
            rep.disagreement("c11.datetime_between", case, {"model": model, "s": val["s"], "e": val["e"]}, code)
            return
        if i < len(real["uniform"]):
            a, b, _ = real["uniform"][i]
            if a is not None and (a != val["s"] // US or b != val["e"] // US):
                rep.disagreement("c11.datetime_between:normalised-bounds", case, [val["s"], val["e"]], [a, b])
                return
        if failed:
            return


# ------------------------------------------------------------------ generators

_EXT = ["lo", "hi"]


def _draws(rng, forced=True, n=None):
    if not forced:
        return ["real"] * (n or rng.choice([2, 3, 5]))
    d = ["lo", "hi"] + ["mid"] * rng.choice([1, 2, 3])
    rng.shuffle(d)
    return d


_BIG_BASES = [2**31, 2**53, 2**63, 2**64, 10**20]


def gen_rn(rng, forced=True):
    kind = rng.random()
    big = rng.random() < 0.3
    if big:
        # around 2**31, 2**53 +- small, 2**63, 2**64, 10**20 and their negative mirrors
        base = rng.choice(_BIG_BASES) + rng.choice([-9, -2, -1, 0, 1, 1, 2, 3, 9])
        if rng.random() < 0.35:
            base = -base
    else:
        base = rng.choice([0, 1, -1, 5, -7, 12, 100, -100, 10**6])
    if kind < 0.12:
        mn = mx = base  # equal
    elif kind < 0.22:
        mn, mx = base, base - rng.randint(1, 5)  # empty
    else:
        if big:
            width = rng.choice([1, 2, 7, 8, 9, 16, 17, 100, 2**40, 10**20])
        else:
            width = rng.choice([1, 2, 3, 4, 9, 10, 11, 99, 100, 1000, rng.randint(1, 10**6)])
        mn, mx = base, base + width
    r = rng.random()
    if r < 0.3:
        st = 1
    elif r < 0.9:
        width = max(mx - mn, 1)
        # odd / even / large steps
        st = rng.choice([2, 2, 3, 4, 5, 7, 10, width, width + 1, max(1, width - 1), max(1, width // 2),
                         rng.randint(1, max(2, width)), 2**32 + 1 if big else 6, 2**54 if big else 8])
    elif r < 0.96:
        st = -rng.choice([1, 2, 3, 5])
        if rng.random() < 0.7:
            mn, mx = mx, mn - rng.choice([0, 1, 2])  # a range that is non-empty going down
    else:
        st = 0
    if rng.random() < 0.06:
        # arguments that arrive as strings: the decimal text of the integer (converted since 6be3bcb) or a
        # non-numeric string (ValueError -> recipe error)
        raw = [rng.choice(["int", "str", "str"]) for _ in range(3)]
        if rng.random() < 0.35:
            raw[rng.randrange(3)] = "bad:" + rng.choice(["abc", "1.5", "x1", "12a", "--3"])
        if "str" not in raw and not any(k.startswith("bad:") for k in raw):
            raw[0] = "str"
        via = rng.choice(["func", "recipe"])
        if via == "recipe":
            # `"1.5"` would become a float in the default dialect (look_for_number): not a string argument
            raw = ["bad:x15" if k == "bad:1.5" else k for k in raw]
        return {"kind": "rn", "via": via, "min": mn, "max": mx, "step": st, "raw": raw,
                "v3": rng.random() < 0.5, "draws": _draws(rng, forced)}
    # the ways a recipe can write it: function call, literal YAML ints, formula-valued arguments, inline call
    via = rng.choice(["func", "func", "recipe", "fargs", "fargs", "formula", "formula"])
    case = {"kind": "rn", "via": via, "min": mn, "max": mx, "step": st, "draws": _draws(rng, forced)}
    if st == 1 and rng.random() < 0.6:
        case["omit_step"] = True
    if via != "func":
        case["v3"] = rng.random() < 0.4
    if via in ("fargs", "formula"):
        case["argform"] = rng.choice(["lit", "pow", "var"] if big else ["lit", "lit", "var"])
        if case["argform"] == "var":
            case["big"] = rng.choice(_BIG_BASES) if big else rng.choice([1, 10, 1000])
            if mn < 0:
                case["big"] = -case["big"] if rng.random() < 0.5 else case["big"]
            case["big_literal"] = rng.random() < 0.5
            if case["big"] <= 0:
                case["big_literal"] = True  # a v2 var holding `0`/negative would itself be a string
    return case


def gen_choice(rng, forced=True, fractional=False):
    form = rng.choice(["list", "items", "items", "kw", "kw"])
    case = {"kind": "choice", "form": form, "draws": _draws(rng, forced), "v3": rng.random() < 0.5}
    if form == "list":
        case["n"] = rng.choice([1, 2, 2, 3, 5, 8, 13])
        return case
    k = rng.choice([1, 2, 2, 3, 3, 4, 6])
    style = rng.random()
    ws = []
    for i in range(k):
        t = rng.choice(["int", "pct", "pct", "str"]) if form == "kw" else rng.choice(["int", "pct", "pct", "str"])
        if style < 0.25:
            v = rng.choice([0, 0, 1, 5, 100])  # many zeros
        elif style < 0.4:
            v = 0  # single positive filled in below
        else:
            v = rng.choice([1, 2, 3, 10, 20, 30, 40, 50, 60, 100, rng.randint(1, 1000)])
        if fractional and rng.random() < 0.5:
            ws.append([rng.choice(["float", "fpct"]), rng.choice([0.5, 12.5, 0.25, 33.3, 7.75])])
        else:
            ws.append([t, v])
    if 0.25 <= style < 0.4:
        j = rng.randrange(k)
        ws[j] = [ws[j][0], rng.choice([1, 50, 100])]
    if form == "items" and rng.random() < 0.06:
        ws[rng.randrange(k)] = None  # no probability at all
    case["weights"] = ws
    return case


_DATES = ["2024-02-29", "2024-02-28", "2024-03-01", "2023-02-28", "2000-02-29", "1999-12-31", "2000-01-01", "1970-01-01",
          "1969-12-31", "2038-01-19", "2100-02-28", "2100-03-01", "1900-03-01", "2525-01-01", "2024-12-31", "2025-01-01",
          "2022-01-31", "2022-12-31"]


def _gen_abs_date(rng):
    if rng.random() < 0.6:
        return rng.choice(_DATES)
    return (EPOCH + _dt.timedelta(days=rng.randint(-30000, 60000))).isoformat()


def _gen_date_spec(rng, near=None):
    r = rng.random()
    if r < 0.15:
        return ["today"]
    if r < 0.55:
        parts = [0] * 7
        unit = rng.choice([0, 1, 2, 3, 3, 3])
        parts[unit] = rng.choice([-1, 1]) * rng.choice([1, 2, 3, 7, 10, 12, 25, 30, 50, 100, 180, 365])
        if rng.random() < 0.25:
            parts[rng.choice([0, 1, 2, 3])] = rng.choice([-1, 1]) * rng.randint(1, 40)
        if rng.random() < 0.1:
            parts[rng.choice([4, 5, 6])] = rng.choice([-1, 1]) * rng.choice([1, 12, 23, 24, 25, 36, 47, 48, 49, 1000])
        if not any(parts):
            parts[3] = 1
        return ["rel"] + parts
    if near and rng.random() < 0.6:
        d = _dt.date.fromisoformat(near) + _dt.timedelta(days=rng.choice([0, 0, 1, 1, 2, 27, 28, 29, 30, 31, 365, 366, -1, -30]))
        return ["abs", d.isoformat(), rng.choice(["date", "str", "datetime"])]
    return ["abs", _gen_abs_date(rng), rng.choice(["date", "str", "datetime"])]


def gen_date(rng, forced=True):
    s = _gen_date_spec(rng)
    e = _gen_date_spec(rng, near=s[1] if s[0] == "abs" else None)
    if rng.random() < 0.1:
        e = list(s)
    if s[0] == "abs" and e[0] == "abs" and e[1] < s[1] and rng.random() < 0.75:
        s, e = e, s
    prime = None
    if rng.random() < 0.07:
        # a bound given as an aware datetime near midnight, after an equal-instant datetime with another
        # offset (hence another calendar date) was evaluated: parse_date must not answer from a cache
        # keyed by instant (885750c)
        tgt = rng.choice(["s", "e"])
        sp = s if tgt == "s" else e
        if sp[0] == "abs":
            off = rng.choice([-300, 330, 480, -720])
            tm = "23:30:00" if off < 0 else "00:30:00"
            aware = ["abs", sp[1], "aware", tm, off]
            d0 = _dt.datetime.fromisoformat(f"{sp[1]}T{tm}") - _dt.timedelta(minutes=off)  # the instant in UTC
            prime = [["abs", d0.date().isoformat(), "aware", d0.strftime("%H:%M:%S"), 0]]
            if tgt == "s":
                s = aware
            else:
                e = aware
    if prime:
        return {"kind": "date", "via": rng.choice(["func", "func", "recipe"]), "start": s, "end": e,
                "draws": _draws(rng, forced), "v3": rng.random() < 0.5, "prime": prime}
    return {"kind": "date", "via": rng.choice(["func", "func", "recipe"]), "start": s, "end": e,
            "draws": _draws(rng, forced), "v3": rng.random() < 0.5}


_OFFSETS = [None, None, None, 0, 0, -300, 480, 330, -570, 60, -60, 840, -720]


def _gen_dt_spec(rng, near=None, allow_now=True):
    r = rng.random()
    if r < 0.08:
        return ["today"]
    if r < 0.14 and allow_now:
        return ["now"]
    if r < 0.3:
        return ["date", _gen_abs_date(rng) if not near else near[:10], rng.choice(["date", "str"])]
    if near and rng.random() < 0.7:
        base = _dt.datetime.fromisoformat(near) + _dt.timedelta(
            seconds=rng.choice([0, 0, 1, 1, 2, 3, 59, 60, 3599, 3600, 7200, 10800, 86399, 86400, 86401, -1, -3600, 10**6]))
    else:
        base = _dt.datetime(1970, 1, 1) + _dt.timedelta(seconds=rng.randint(-10**9, 4 * 10**9))
        if rng.random() < 0.5:
            base = _dt.datetime.fromisoformat(rng.choice(_DATES) + "T" + rng.choice(["00:00:00", "23:59:59", "11:59:00", "12:00:00"]))
    us = rng.choice([0, 0, 0, 0, 0, 0, 0, 500000, 900000, 1, 999999])
    return ["stamp", base.strftime("%Y-%m-%dT%H:%M:%S"), us, rng.choice(_OFFSETS), rng.choice(["iso-T", "iso-space", "obj", "quoted"])]


def gen_dt(rng, forced=True):
    s = _gen_dt_spec(rng)
    e = _gen_dt_spec(rng, near=s[1] if s[0] == "stamp" else None)
    if rng.random() < 0.08:
        e = list(s)
    if s[0] == "stamp" and e[0] == "stamp" and e[1] < s[1] and rng.random() < 0.75:
        s, e = [s[0], e[1]] + s[2:], [e[0], s[1]] + e[2:]
    case = {"kind": "dt", "via": rng.choice(["func", "func", "recipe"]), "start": s, "end": e,
            "draws": _draws(rng, forced), "v3": rng.random() < 0.5}
    if rng.random() < 0.3:
        case["subsecond"] = True
    if rng.random() < 0.15:
        case["tz"] = rng.choice([8, -5, 0, 3])
    if rng.random() < 0.08:
        # an equal-instant object with another offset evaluated first (lru_cache aliasing, D39);
        # only datetime *objects* (function argument / unquoted YAML timestamp) go through the cache by value
        tgt = rng.choice(["start", "end"])
        sp = case[tgt]
        if sp[0] == "stamp":
            off = sp[3] or 0
            other = rng.choice([o for o in (-720, -300, 0, 60, 330, 480) if o != off])
            base = _dt.datetime.fromisoformat(sp[1]) + _dt.timedelta(minutes=other - off)
            case[tgt] = sp[:3] + [off, "obj"]
            case["prime"] = [["stamp", base.strftime("%Y-%m-%dT%H:%M:%S"), sp[2], other, "obj"]]
    return case


# ------------------------------------------------------------------ running cases

_KINDS = {
    "rn": (real_rn, oracle_rn, model_reqs_rn, compare_rn),
    "choice": (real_choice, oracle_choice, model_reqs_choice, compare_choice),
    "date": (real_date, oracle_date, model_reqs_date, compare_date),
    "dt": (real_dt, oracle_dt, model_reqs_dt, compare_dt),
}


def _in_model_fragment(case):
    if case["draws"] and case["draws"][0] == "real":
        return False
    if case["kind"] == "choice" and case["form"] == "items_rows":
        return True
    if case["kind"] == "choice" and case["form"] != "list":
        return all(w is None or w[0] in ("int", "pct", "str") for w in case["weights"])
    return True


def _nontrivial(case):
    k = case["kind"]
    if k == "rn":
        return case["max"] > case["min"] and case["step"] >= 1
    if k == "choice":
        if case["form"] == "items_rows":
            return len({tuple(_rows_weights(case, r)) for r in range(len(case["draws"]))}) >= 2
        return (case.get("n") or len(case.get("weights", []))) >= 2
    return case["start"] != case["end"]


def _histogram(rep, case, real):
    k = case["kind"]
    rep.count(f"{k}:via:{case.get('via', 'recipe')}")
    rep.count(f"{k}:draws:" + ("real" if case["draws"][0] == "real" else "controlled"))
    for o in real["outs"]:
        rep.count(f"{k}:out:{o[0]}" + (":" + o[1].split(":")[0] if o[0] == "error" else ""))
    for p in case["draws"]:
        if p in ("lo", "hi"):
            rep.count(f"{k}:extreme-draw")
    if k == "rn":
        rep.count("rn:step=1" if case["step"] == 1 else "rn:step>1" if case["step"] > 1 else "rn:step<1")
        if abs(case["min"]) >= 2**53 or abs(case["max"]) >= 2**53:
            rep.count("rn:big")
            rep.count(f"rn:big:{case['via']}:" + ("func" if case["via"] == "func" else "v3" if case.get("v3") else "v2"))
        if case["via"] in ("fargs", "formula"):
            rep.count("rn:argform:" + case.get("argform", "lit"))
        if case["min"] == case["max"]:
            rep.count("rn:equal")
    elif k == "choice":
        rep.count("choice:form:" + case["form"])
        if case["form"] == "items_rows":
            rep.count("choice:rows:style:" + case["style"])
            rep.count("choice:rows:iterations", case["reps"])
            rows = [_rows_weights(case, r) for r in range(len(case["draws"]))]
            rep.count("choice:rows:row-with-all-weight-on-one", sum(1 for w in rows if sum(1 for x in w if x > 0) == 1))
            rep.count("choice:rows:row-with-zero-weight", sum(1 for w in rows if 0 in w))
            if len({tuple(w) for w in rows}) >= 2:
                rep.count("choice:rows:weights-vary")
        elif case["form"] != "list" and any(w is not None and w[1] == 0 for w in case["weights"]):
            rep.count("choice:has-zero-weight")
    elif k == "date":
        rep.count("date:spec:" + case["start"][0] + "/" + case["end"][0])
        if case.get("prime"):
            rep.count("date:primed-aware-datetime")
    elif k == "dt":
        rep.count("dt:spec:" + case["start"][0] + "/" + case["end"][0])
        if any(sp[0] == "stamp" and sp[3] for sp in (case["start"], case["end"])):
            rep.count("dt:nonzero-offset")
        if case.get("prime"):
            rep.count("dt:primed-cache")
        if _self_aliasing(case):
            rep.count("dt:self-aliasing")


def check_cases(cases, rep, rng):
    reqs, meta = [], []
    for case in cases:
        real_fn, oracle_fn, reqs_fn, _cmp = _KINDS[case["kind"]]
        real = real_fn(case, rng)
        if real is None:
            rep.count("discarded:midnight")
            continue
        rep.case(case, nontrivial=_nontrivial(case))
        _histogram(rep, case, real)
        oracle_fn(rep, case, real)
        if _in_model_fragment(case):
            rs = reqs_fn(case, real)
            meta.append((case, real, len(rs)))
            reqs.extend(rs)
        else:
            rep.count("oracle-only")
    answers = common.model_batch(reqs)
    pos = 0
    for case, real, n in meta:
        rep.traces_validated += 1
        _KINDS[case["kind"]][3](rep, case, real, answers[pos : pos + n])
        pos += n


def fixed_cases():
    out = []
    # documented examples
    out.append({"kind": "rn", "via": "recipe", "min": 12, "max": 23, "step": 5, "draws": ["lo", "hi", "mid"]})
    out.append({"kind": "rn", "via": "recipe", "min": 10, "max": 90, "step": 10, "draws": ["lo", "hi", "mid"]})
    out.append({"kind": "rn", "via": "formula", "min": 5, "max": 10, "step": 1, "omit_step": True, "v3": True, "draws": ["lo", "hi"]})
    out.append({"kind": "rn", "via": "func", "min": -7, "max": -7, "step": 1, "draws": ["lo", "hi"]})
    # above 2**53 through the default dialect: inline call (result re-rendered) and formula-valued arguments
    for via in ("formula", "fargs"):
        for form in ("pow", "var"):
            out.append({"kind": "rn", "via": via, "min": 2**53 + 1, "max": 2**53 + 9, "step": 2, "argform": form,
                        "big": 2**53, "big_literal": False, "v3": False, "draws": ["lo", "hi", "mid"]})
        out.append({"kind": "rn", "via": via, "min": 2**53 + 1, "max": 2**53 + 1, "step": 1, "argform": "pow", "v3": False,
                    "draws": ["lo", "hi"]})
        out.append({"kind": "rn", "via": via, "min": 2**64 + 1, "max": 10**20 + 7, "step": 2**32 + 1, "argform": "pow",
                    "v3": False, "draws": ["lo", "hi", "mid"]})
    out.append({"kind": "rn", "via": "recipe", "min": 1, "max": 3, "step": 1, "raw": ["bad:abc", "int", "int"], "v3": False, "draws": ["lo"]})
    out.append({"kind": "rn", "via": "recipe", "min": 1, "max": 3, "step": 1, "raw": ["bad:abc", "int", "int"], "v3": True, "draws": ["lo"]})
    out.append({"kind": "rn", "via": "func", "min": -5, "max": -3, "step": 1, "raw": ["str", "str", "str"], "draws": ["lo", "hi"]})
    out.append({"kind": "rn", "via": "fargs", "min": 0, "max": 0, "step": 1, "argform": "lit", "v3": False, "draws": ["lo", "hi"]})
    out.append({"kind": "rn", "via": "formula", "min": -(2**53) - 9, "max": -(2**53) - 1, "step": 2, "argform": "pow",
                "v3": False, "draws": ["lo", "hi", "mid"]})
    out.append({"kind": "rn", "via": "func", "min": 5, "max": 3, "step": 1, "draws": ["lo"]})
    out.append({"kind": "rn", "via": "func", "min": 10, "max": 0, "step": -3, "draws": ["lo", "hi", "mid"]})
    out.append({"kind": "rn", "via": "func", "min": 1, "max": 10, "step": 0, "draws": ["lo"]})
    out.append({"kind": "choice", "form": "list", "n": 3, "draws": ["lo", "hi", "mid"]})
    out.append({"kind": "choice", "form": "kw", "weights": [["pct", 60], ["pct", 20], ["pct", 20]], "draws": ["lo", "hi", "mid"]})
    out.append({"kind": "choice", "form": "kw", "weights": [["int", 0], ["int", 10]], "draws": ["lo", "hi", "mid"]})
    out.append({"kind": "choice", "form": "kw", "weights": [["int", 0], ["int", 0]], "draws": ["lo"]})
    out.append({"kind": "choice", "form": "items", "weights": [["pct", 30], ["pct", 30], ["pct", 30]], "draws": ["lo", "hi", "mid"], "v3": True})
    # weights that are formulas of child_index: all the weight moves from option 0 to option 1 after three rows
    out.append({"kind": "choice", "form": "items_rows", "count": 6, "reps": 2, "style": "child_index",
                "rows": [[100, 0], [100, 0], [100, 0], [0, 100], [0, 100], [0, 100]], "literal": [], "pct": False, "v3": True,
                "draws": ["mid"] * 12})
    out.append({"kind": "date", "via": "recipe", "start": ["abs", "2000-01-01", "date"], "end": ["today"], "draws": ["lo", "hi", "mid"]})
    out.append({"kind": "date", "via": "recipe", "start": ["rel", 0, 0, 0, -30, 0, 0, 0], "end": ["rel", 0, 0, 0, 180, 0, 0, 0], "draws": ["lo", "hi", "mid"]})
    out.append({"kind": "date", "via": "func", "start": ["abs", "2024-02-29", "str"], "end": ["abs", "2024-02-29", "str"], "draws": ["lo", "hi"]})
    out.append({"kind": "date", "via": "func", "start": ["abs", "2024-03-01", "date"], "end": ["abs", "2024-02-01", "date"], "draws": ["lo"]})
    for y in (-1, 1, -25, 25, -100, 100):
        out.append({"kind": "date", "via": "func", "start": ["rel", y, 0, 0, 0, 0, 0, 0] if y < 0 else ["today"],
                    "end": ["today"] if y < 0 else ["rel", y, 0, 0, 0, 0, 0, 0], "draws": ["lo", "hi"]})
    out.append({"kind": "dt", "via": "recipe", "start": ["date", "1999-12-31", "date"], "end": ["today"], "draws": ["lo", "hi", "mid"], "v3": True})
    out.append({"kind": "dt", "via": "recipe", "start": ["today"], "end": ["date", "2525-01-01", "date"], "draws": ["lo", "hi", "mid"], "v3": True})
    out.append({"kind": "dt", "via": "recipe", "start": ["stamp", "1999-12-31T11:59:00", 0, None, "iso-space"],
                "end": ["stamp", "2000-01-01T01:01:00", 0, None, "iso-space"], "draws": ["lo", "hi", "mid"], "v3": True})
    out.append({"kind": "dt", "via": "recipe", "start": ["stamp", "1999-12-31T11:59:00", 0, None, "iso-space"], "end": ["now"],
                "draws": ["lo", "hi", "mid"], "tz": 8, "v3": True})
    out.append({"kind": "dt", "via": "func", "start": ["stamp", "2024-01-01T05:00:00", 0, None, "iso-T"],
                "end": ["stamp", "2024-01-01T03:00:00", 0, None, "iso-T"], "draws": ["lo"]})
    return out


def run(ctx, rep, findings):
    rep.rule = (
        "random_number triples (negative / equal / empty / huge ranges around 2**31, 2**53 +- small, 2**63, 2**64, 10**20 and "
        "negative mirrors; steps 1, odd, even, large, > width, negative, 0) written the ways a recipe can write them: function "
        "call, YAML function field with literal ints, YAML function field with formula-valued arguments (`${{2**53 + 1}}`, "
        "`${{big + 1}}` with a var), inline `${{random_number(...)}}` whose result is re-rendered - in both dialects; the "
        "oracle reads the value the output stream receives; random_choice over plain lists, `choice:` items and "
        "`option: weight` mappings (ints, percent strings, zeros, missing probability); `choice:` items whose probability "
        "is a FORMULA of child_index / id / a var, so that the weight vector changes from row to row over 2-5 rows and "
        "1-3 iterations (rows where one option holds all the weight, rows with zero weights; oracle and model per row); date_between over absolute "
        "(leap days, epoch, far future), `today` and relative ±y/M/w/d(+h/m/s) bounds; datetime_between over written "
        "date-times with/without UTC offsets and fractional seconds, dates, today, now, equal and reversed bounds, "
        "optional result timezone. Every case runs 3-5 rows: the two extreme draws (lo, hi) and harness-chosen interior "
        "draws; a second stream runs completely unpatched for the direct oracle only. Non-trivial: max > min with "
        "step >= 1; >= 2 options; start != end. Distinct = distinct case hash."
    )
    cases = [f["input"] for f in findings if f.get("input")]
    cases += ctx.corpus()
    cases += fixed_cases()
    rng = ctx.rng
    n_fast = ctx.scale(1800, 14000)   # per function, controlled
    n_real = ctx.scale(350, 3000)    # per function, unpatched (oracle only)
    gens = [gen_rn, gen_choice, gen_date, gen_dt]
    if ctx.tier == "thorough":
        # every relative year / month count in a wide window (float day arithmetic in Faker vs. the
        # model's exact floor): a test, labelled as such
        for y in range(-300, 301):
            if y:
                cases.append({"kind": "date", "via": "func", "start": ["rel", y, 0, 0, 0, 0, 0, 0] if y < 0 else ["today"],
                              "end": ["today"] if y < 0 else ["rel", y, 0, 0, 0, 0, 0, 0], "draws": ["lo", "hi"]})
        for mo in range(-1200, 1201):
            if mo:
                cases.append({"kind": "date", "via": "func", "start": ["rel", 0, mo, 0, 0, 0, 0, 0] if mo < 0 else ["today"],
                              "end": ["today"] if mo < 0 else ["rel", 0, mo, 0, 0, 0, 0, 0], "draws": ["lo", "hi"]})
        rep.extra["exhaustive_relative_years"] = [-300, 300]
        rep.extra["exhaustive_relative_months"] = [-1200, 1200]
    n_head = len(cases)
    for i in range(n_fast):
        for g in gens:
            cases.append(g(rng))
        if i % 6 == 0:
            cases.append(gen_choice_rows(rng))
    for i in range(n_real):
        for g in gens:
            cases.append(g(rng, forced=False))
        cases.append(gen_choice(rng, forced=False, fractional=True))
        if i % 4 == 0:
            cases.append(gen_choice_rows(rng, forced=False))
    t_budget = 100 if ctx.tier == "quick" else 780
    t0 = time.time()
    # interleave so that an early stop still covers every function
    head, tail = cases[:n_head], cases[n_head:]
    rng.shuffle(tail)
    cases = head + tail
    done = 0
    for i in range(0, len(cases), 400):
        check_cases(cases[i : i + 400], rep, rng)
        done = min(len(cases), i + 400)
        if time.time() - t0 > t_budget or ctx.time_left() < 30:
            rep.notes.append(f"stopped after {done} of {len(cases)} generated cases: time budget")
            break
    rep.extra["cases_generated"] = len(cases)
    rep.extra["cases_run"] = done


def shrink(case, signature):
    """Keep one row (one draw) that still shows the same oracle signature."""
    import random

    for p in list(dict.fromkeys(case.get("draws", []))):
        c = dict(case, draws=[p])
        r = common.Report("C11")
        try:
            real_fn, oracle_fn, _, _ = _KINDS[c["kind"]]
            real = real_fn(c, random.Random(0))
            if real is not None:
                oracle_fn(r, c, real)
        except Exception:  # noqa
            continue
        if any(v["signature"] == signature for v in r.violations):
            return c
    return case


def replay(case, rep):
    import random

    check_cases([case], rep, random.Random(0))
