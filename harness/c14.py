"""C14 — composition features are transparent: include_file, macros and options.

(a) metamorphic, real code: a generated recipe (recipes.L2Gen) is *factored* — a prefix of its top-level
    statements moved into 1–2 include files (nested / sibling includes, include lines at top / middle /
    bottom; the same file listed twice; diamonds: two included files including a shared third one that
    holds statements, or only macros), prefixes of the fields / friends of its templates (also nested ones and friends) moved into
    macros (chains `include: m1, m2`, nested macros, junk fields overridden by later macros / own
    fields, a junk definition of the same macro name in an earlier file) — and compared with the
    *inlined* single-file recipe computed by a small harness-side inliner that implements the property
    statement (fields(m1) ++ … ++ own, first position / last definition, friends concatenated, included
    statements first): equal parse results (`parse_recipe`) and equal captured rows (`generate`);
(b) correspondence: the Lean model (`c14.parse`) on the factored multi-file recipe against the real
    `parse_recipe` (statements with macros expanded, option declarations, version), plus a malformed
    stream (unknown macro, cyclic macros, missing file, bad / conflicting versions) compared by outcome;
(c) options: cells user value x default through `generate(..., user_options)` and `${{o}}` against the
    model-independent reference `${{p[0]}}` with `p=[value]`, and `merge_options` against the model
    instantiated with the *pinned* test kinds (`c14.merge`);
(c') option visibility: option names drawn from the interpreter's own namespace (built-ins `id count
    child_index this today now fake template`, table / nickname names, variable names, field names of the
    reading row, standard function names) read at a field of a top-level / nested / friend template, in
    `count:`, in a top-level var, inside a macro body, in an included file, declared in the main or an
    included file: value read == supplied value else default unless a *nearer* layer binds the name — the
    order of the layers is the pinned order of `simple_field_vars` / `field_vars`;
(d) known inputs: D12 (option truthiness — repaired by d8c74a2, kept as a regression case: a failing
    cell with a falsy value is reported as a plain VIOLATION with the recorded signature), D45
    (include_file cycle, repaired by 70277f6), D46 (macro cycle through a nested template, 97f2c27), D47
    (snowfakery_version declared in an included file is lost, 6931335) — all kept as regression inputs
    with their recorded signatures; a RecursionError counts as such also when parse_recipe wraps it;
(e) stateful definitions: macros whose fields keep per-definition run-time state (Counters.NumberCounter,
    Counters.DateCounter, Dataset.iterate over a small CSV) included by >= 2 templates — directly, through
    a wrapper macro, twice in one chain — must count per template exactly as the inlined recipe does.
"""
import copy
import io
import json
import os
import re
import shutil
import tempfile

from . import common, recipes

SPEC = {
    "lean": ["SnowModel.Props.C14", "SnowModel.Props.C14Bridge"],
    "pins": ["Compose"],
    "technique": "Lean 4 proofs over a parse-layer model (Python-dict de-duplication, recursive macro expansion with the cycle check, depth-first include flattening, option decision table parameterised by the pinned tests) + pins of merge_options' two tests, the de-dup expression, the step order of parse_top_level_elements / parse_object_template / include_macro + real-run metamorphic refactoring (factored recipe vs spec-inlined recipe) and model/parse_recipe correspondence",
    "level_text": "Machine-checked: de-dup = first position / last definition (dedupe_spec) and intermediate de-dups are invisible; a template with `include:` equals the template with the macros' raw fields / friends written first (macro_inline_equiv), own fields override all macros and later macros earlier ones; macro expansion terminates for every macro table and template within #macros·(deepest body+2)+depth+2 steps, every cycle — through `include:` lines, friends or object-valued fields — being a recipe error (macro_expansion_terminates, macro_cycle_is_error, macro_nested_cycle_detected); include_file = depth-first prepend independent of the position of the include lines, the includer's macro wins (include_prepend, include_position_independent, includer_macro_wins), a file reached several times contributes every time (include_twice_contributes_twice, diamond_contributes_twice), reading terminates for every file map within #files+2 steps, a file that is still open being a recipe error (flatten_terminates, include_cycle_is_error), every declared snowfakery_version is honoured and conflicts are errors (include_version_honoured, include_versions_agree); option decision table for the repaired tests (option_decision, merge_supplied), and for the pinned code (option_decision_pinned, merge_supplied_pinned; the old truthiness tests are characterised by truthyGet_decision_exact). On the real code every generated factoring must give the same parse result and the same rows as its inlining, and every option cell must evaluate to the supplied value.",
    "level_note": "Trusted: Lean kernel, py2lean, harness (YAML emitter, canonicalisation of ParseResult, the 40-line spec inliner). Field definitions other than nested templates and the template attributes are opaque payloads in the model; parse_element's key/type checks, plugins and line numbers are outside it (C20). D12, D45, D46, D47 are repaired (d8c74a2, 70277f6, 97f2c27, 6931335) and kept as regression inputs. The identity of parsed definition objects (per-site run-time state) is not part of the parse model: it is covered by the row comparison on recipes with stateful fields in shared macros.",
    "assumptions": [
        "transparency is checked at the boundary parse_recipe -> interpreter: equal ParseResult (statements, option declarations, version) plus equal captured rows of the real runs",
        "include files live in one flat directory (names, not paths)",
    ],
    "budget": {"quick": 600, "thorough": 3000},
}

MAIN = "main.recipe.yml"
FUEL = 150

# ----------------------------------------------------------------------------- YAML emission


def fd_yaml(fd, ind):
    k = fd[0]
    pad = " " * ind
    if k == "lit":
        return " " + json.dumps(fd[1]) + "\n"
    if k == "tmpl":
        return " " + json.dumps(recipes.tmpl_src(fd[1])) + "\n"
    if k == "ref":
        return "\n" + pad + "reference: " + fd[1] + "\n"
    if k == "nested":
        return "\n" + stmt_yaml(fd[1], ind)
    if k == "raw":
        return " " + json.dumps(fd[1]) + "\n"
    if k == "struct":
        out = "\n" + pad + fd[1] + ":\n"
        for a, v in fd[2]:
            out += f"{pad}  {a}: {json.dumps(v)}\n"
        return out
    raise ValueError(fd)


def body_yaml(st, pad, ind):
    out = ""
    if st.get("include"):
        out += f"{pad}  include: {json.dumps(st['include'])}\n"
    if st.get("fields"):
        out += f"{pad}  fields:\n"
        for n, fd in st["fields"]:
            out += f"{pad}    {n}:" + fd_yaml(fd, ind + 6)
    if st.get("friends"):
        out += f"{pad}  friends:\n"
        for f in st["friends"]:
            out += stmt_yaml(f, ind + 4)
    return out


def stmt_yaml(st, ind):
    pad = " " * ind
    if "var" in st:
        return f"{pad}- var: {st['var']}\n{pad}  value:" + fd_yaml(st["value"], ind + 4)
    out = f"{pad}- object: {st['object']}\n"
    if st.get("nickname"):
        out += f"{pad}  nickname: {st['nickname']}\n"
    if st.get("just_once"):
        out += f"{pad}  just_once: true\n"
    if st.get("count") is not None:
        out += f"{pad}  count:" + fd_yaml(st["count"], ind + 4)
    return out + body_yaml(st, pad, ind)


def item_yaml(it):
    k = it["k"]
    if k == "include":
        return f"- include_file: {it['name']}\n"
    if k == "version":
        return f"- snowfakery_version: {it['v']}\n"
    if k == "plugin":
        return f"- plugin: {it['name']}\n"
    if k == "option":
        out = f"- option: {it['name']}\n"
        if it["has_default"]:
            out += f"  default: {json.dumps(it['default'])}\n"
        return out
    if k == "macro":
        return f"- macro: {it['name']}\n" + body_yaml(it, "", 0)
    if k == "stmt":
        return stmt_yaml(it["s"], 0)
    raise ValueError(it)


def file_yaml(items):
    return "".join(item_yaml(it) for it in items) or "[]\n"


def texts(files):
    return {name: file_yaml(items) for name, items in files.items()}


# ----------------------------------------------------------------------------- canonical forms


def payload(fd):
    k = fd[0]
    if k == "lit":
        return json.dumps(fd[1])
    if k == "tmpl":
        return json.dumps(recipes.tmpl_src(fd[1]))
    if k == "ref":
        return json.dumps({"reference": fd[1]})
    if k == "raw":
        return json.dumps(fd[1])
    if k == "struct":
        return json.dumps({"structured": fd[1], "args": [], "kwargs": {a: v for a, v in fd[2]}}, sort_keys=True)
    raise ValueError(fd)


def attrs_of(st):
    c = st.get("count")
    return json.dumps([st.get("nickname") or None, bool(st.get("just_once")), payload(c) if c is not None else None])


def m_def(fd):
    return {"nested": m_template(fd[1])} if fd[0] == "nested" else {"val": payload(fd)}


def m_template(st):
    return {"table": st["object"], "attrs": attrs_of(st), "include": st.get("include") or "",
            "fields": [[n, m_def(fd)] for n, fd in st.get("fields") or []],
            "friends": [m_stmt(f) for f in st.get("friends") or []]}


def m_stmt(st):
    if "var" in st:
        return {"var": st["var"], "value": m_def(st["value"])}
    return {"obj": m_template(st)}


def oval(v):
    if v is None:
        return None
    if isinstance(v, bool):
        return {"b": v}
    if isinstance(v, int):
        return v
    if isinstance(v, str):
        return {"s": v}
    return {"other": bool(v), "repr": repr(v)}


def m_item(it):
    k = it["k"]
    if k == "macro":
        return {"k": "macro", "name": it["name"], "include": it.get("include") or "",
                "fields": [[n, m_def(fd)] for n, fd in it.get("fields") or []],
                "friends": [m_stmt(f) for f in it.get("friends") or []]}
    if k == "stmt":
        return {"k": "stmt", "s": m_stmt(it["s"])}
    if k == "option":
        return {"k": "option", "name": it["name"], "has_default": it["has_default"], "default": oval(it.get("default"))}
    return it


def model_request(files, main=MAIN):
    order = [main] + [n for n in files if n != main]
    return {"m": "c14.parse", "files": [[n, [m_item(it) for it in files[n] if it["k"] != "plugin"]] for n in order],
            "main": main, "fuel": FUEL}


def real_payload(d):
    from snowfakery.data_generator_runtime_object_model import ObjectTemplate, SimpleValue, StructuredValue

    if isinstance(d, SimpleValue):
        return json.dumps(d.definition)
    if isinstance(d, StructuredValue):
        if d.function_name == "reference" and len(d.args) == 1 and isinstance(d.args[0], SimpleValue) and not d.kwargs:
            return json.dumps({"reference": d.args[0].definition})
        def plain(x):
            return x.definition if isinstance(x, SimpleValue) else "<" + type(x).__name__ + ">"

        return json.dumps({"structured": d.function_name, "args": [plain(a) for a in d.args],
                           "kwargs": {k: plain(v) for k, v in d.kwargs.items()}}, sort_keys=True)
    if isinstance(d, ObjectTemplate):
        return None
    return json.dumps({"unknown": type(d).__name__})


def real_def(d):
    from snowfakery.data_generator_runtime_object_model import ObjectTemplate

    if isinstance(d, ObjectTemplate):
        return {"nested": real_template(d)}
    return {"val": real_payload(d)}


def real_template(t):
    c = t.count_expr
    return {"table": t.tablename,
            "attrs": json.dumps([t.nickname or None, bool(t.just_once), real_payload(c) if c is not None else None]),
            "fields": [[f.name, real_def(f.definition)] for f in t.fields],
            "friends": [real_stmt(f) for f in t.friends]}


def real_stmt(s):
    from snowfakery.data_generator_runtime_object_model import ObjectTemplate

    if isinstance(s, ObjectTemplate):
        return {"obj": real_template(s)}
    return {"var": s.varname, "value": real_def(s.expression)}


def status_of_exception(e):
    """Outcome class; a `RecursionError` counts as such also when `parse_recipe` has wrapped it into a
    recipe error (commit a5a821f): the interpreter stack was exhausted, the cycle was not *detected*."""
    x, seen = e, 0
    while x is not None and seen < 10:
        if isinstance(x, RecursionError):
            return "internal:RecursionError"
        x, seen = (x.__cause__ or x.__context__), seen + 1
    return common.outcome_of_exception(e)


def real_parse(files, main=MAIN):
    """Run the real `parse_recipe` on the files; canonical {status, statements, options, version}."""
    from snowfakery.parse_recipe_yaml import parse_recipe

    d = tempfile.mkdtemp(prefix="verif_c14_")
    try:
        for name, text in texts(files).items():
            with open(os.path.join(d, name), "w") as f:
                f.write(text)
        try:
            with open(os.path.join(d, main)) as f:
                pr = parse_recipe(f)
        except BaseException as e:  # noqa
            if isinstance(e, (KeyboardInterrupt, SystemExit)):
                raise
            return {"status": status_of_exception(e), "error": f"{type(e).__name__}: {str(e)[:200]}"}
        opts = []
        for o in pr.options:
            has = "default" in o
            opts.append({"name": o["option"], "has_default": has, "default": oval(o.get("default")) if has else None})
        return {"status": "ok", "statements": [real_stmt(s) for s in pr.statements], "options": opts, "version": pr.version}
    finally:
        shutil.rmtree(d, ignore_errors=True)


def real_run(files, reps, options=None, main=MAIN, extra=None):
    t = texts(files)
    fs = {n: x for n, x in t.items() if n != main}
    fs.update(extra or {})
    return common.run_recipe(t[main], reps=reps, options=options, files=fs or {"_unused.yml": "[]\n"})


# ----------------------------------------------------------------------------- the spec inliner
# (harness-side, independent of the model and of the code: the property statement, literally)


class InlineError(Exception):
    pass


def spec_flatten(files, name, seen=()):
    """Items of the included files (depth first, in the order of the include lines) before the own ones."""
    if name in seen:
        raise InlineError("include cycle")
    if name not in files:
        raise InlineError("missing file")
    items = files[name]
    out = []
    for it in items:
        if it["k"] == "include":
            out += spec_flatten(files, it["name"], seen + (name,))
    return out + [it for it in items if it["k"] != "include"]


def spec_dedupe(fields):
    d = {}
    for n, fd in fields:
        d[n] = fd  # first position, last definition
    return [[n, fd] for n, fd in d.items()]


def spec_names(s):
    return [x.strip() for x in (s or "").split(",") if x.strip()]


def spec_macro(macros, name, depth):
    if depth > 30:
        raise InlineError("macro recursion")
    if name not in macros:
        raise InlineError("unknown macro")
    m = macros[name]
    fields, friends = [], []
    for n in spec_names(m.get("include")):
        f2, g2 = spec_macro(macros, n, depth + 1)
        fields += f2
        friends += g2
    return fields + list(m.get("fields") or []), friends + list(m.get("friends") or [])


def spec_stmt(macros, st, depth=0):
    if depth > 30:
        raise InlineError("template recursion")
    if "var" in st:
        return {"var": st["var"], "value": spec_fd(macros, st["value"], depth)}
    fields, friends = [], []
    for n in spec_names(st.get("include")):
        f2, g2 = spec_macro(macros, n, depth)
        fields += f2
        friends += g2
    fields += list(st.get("fields") or [])
    friends += list(st.get("friends") or [])
    out = {k: v for k, v in st.items() if k not in ("include", "fields", "friends")}
    out["fields"] = [[n, spec_fd(macros, fd, depth + 1)] for n, fd in spec_dedupe(fields)]
    fr = [spec_stmt(macros, f, depth + 1) for f in friends]
    if fr:
        out["friends"] = fr
    return out


def spec_fd(macros, fd, depth):
    if fd[0] == "nested":
        return ["nested", spec_stmt(macros, fd[1], depth)]
    return fd


def spec_inline(files, main=MAIN):
    """Single-file recipe without macros and includes (all version declarations first)."""
    items = spec_flatten(files, main)
    macros = {}
    for it in items:
        if it["k"] == "macro":
            macros[it["name"]] = it  # later definition wins
    out = [it for it in items if it["k"] == "version"]  # pulled in like every other declaration
    out += [it for it in items if it["k"] in ("option", "plugin")]
    out += [{"k": "stmt", "s": spec_stmt(macros, it["s"])} for it in items if it["k"] == "stmt"]
    return {main: out}


# ----------------------------------------------------------------------------- generation of factorings

JUNK = [["lit", "JUNK"], ["lit", 99], ["tmpl", [["text", "junk"], ["expr", ["int", 1]]]]]


class Factor:
    def __init__(self, rng):
        self.r = rng
        self.macros = []  # macro items, in definition order
        self.n = 0
        self.features = set()

    def fresh(self):
        self.n += 1
        return f"m{self.n}"

    def junk_fd(self):
        r = self.r
        if r.random() < 0.15:
            self.features.add("junk-nested")
            return ["nested", {"object": "J", "fields": [["f1", ["lit", 1]]]}]
        return copy.deepcopy(r.choice(JUNK))

    def add_macro(self, fields, friends, later_names, depth=0):
        """Define a macro contributing `fields` / `friends` (possibly through a nested macro, possibly with
        junk for names that are defined again later); returns its name."""
        r = self.r
        inc = []
        if depth < 2 and (fields or friends) and r.random() < 0.35:
            i, j = r.randint(0, len(fields)), r.randint(0, len(friends))
            inner_later = [n for n, _ in fields[i:]] + later_names
            inc.append(self.add_macro(fields[:i], friends[:j], inner_later, depth + 1))
            fields, friends = fields[i:], friends[j:]
            self.features.add("nested-macro")
        fields = list(fields)
        if later_names and r.random() < 0.4:
            # junk for names that a later macro / the template itself defines again
            k = r.randint(1, min(2, len(later_names)))
            picks = later_names[:k] if r.random() < 0.7 else r.sample(later_names, k)
            for n in picks:
                if n not in [x for x, _ in fields]:
                    fields.append([n, self.junk_fd()])
                    self.features.add("junk-override")
        name = self.fresh()
        m = {"k": "macro", "name": name, "fields": fields, "friends": friends}
        if inc:
            m["include"] = ", ".join(inc) if r.random() < 0.7 else " , ".join(inc) + " ,"
        self.macros.append(m)
        return name

    def template(self, st, depth=0):
        r = self.r
        if "var" in st:
            if st["value"][0] == "nested":
                self.template(st["value"][1], depth + 1)
            return
        for n, fd in st.get("fields") or []:
            if fd[0] == "nested":
                self.template(fd[1], depth + 1)
        for f in st.get("friends") or []:
            self.template(f, depth + 1)
        if r.random() < (0.7 if depth == 0 else 0.35):
            F, G = st.get("fields") or [], st.get("friends") or []
            j, gj = r.randint(0, len(F)), r.randint(0, len(G))
            k = 1 if (j + gj < 2 or r.random() < 0.5) else 2
            names = []
            if k == 1:
                names.append(self.add_macro(F[:j], G[:gj], [n for n, _ in F[j:]]))
            else:
                i, gi = r.randint(0, j), r.randint(0, gj)
                names.append(self.add_macro(F[:i], G[:gi], [n for n, _ in F[i:]]))
                names.append(self.add_macro(F[i:j], G[gi:gj], [n for n, _ in F[j:]]))
                self.features.add("two-macros")
            st["include"] = ", ".join(names)
            st["fields"] = F[j:]
            if G[gj:]:
                st["friends"] = G[gj:]
            else:
                st.pop("friends", None)
            self.features.add("macro" if depth == 0 else "macro-in-nested-template")
            if gj:
                self.features.add("macro-friends")


PLUGIN_COUNTERS = "snowfakery.standard_plugins.Counters"
PLUGIN_DATASET = "snowfakery.standard_plugins.datasets.Dataset"
CSV_NAME = "c14data.csv"
CSV_TEXT = "a,b\n1,x\n2,y\n3,z\n"


def walk_templates(stmts, depth=0):
    for st in stmts:
        if "var" in st:
            if st["value"][0] == "nested":
                yield from walk_templates([st["value"][1]], depth + 1)
            continue
        yield st, depth
        for n, fd in st.get("fields") or []:
            if fd[0] == "nested":
                yield from walk_templates([fd[1]], depth + 1)
        yield from walk_templates(st.get("friends") or [], depth + 1)


def add_stateful(fx, stmts):
    """A macro whose fields keep per-definition state at run time (counters, a dataset iterator), included
    by >= 2 templates — directly, through a wrapper macro, or twice in one chain.  Inlining gives every
    template its own copy of the definitions, hence its own counter: the factored recipe must too."""
    r = fx.r
    while len([1 for t, d in walk_templates(stmts) if d == 0]) < 2:
        stmts.append({"object": r.choice(["S1", "S2"]), "count": ["lit", r.randint(1, 3)], "fields": []})
    tmpls = list(walk_templates(stmts))
    tops = [t for t, d in tmpls if d == 0]
    deep = [t for t, d in tmpls if d > 0]
    chosen = r.sample(tops, 2)
    rest = [t for t in tops if all(t is not c for c in chosen)] + deep
    if rest and r.random() < 0.5:
        chosen.append(r.choice(rest))
        if any(chosen[-1] is t for t in deep):
            fx.features.add("stateful-in-nested-template")
    kinds = r.sample(["num", "date", "ds", "num2"], r.randint(1, 3))
    fields, plugins, extra = [], set(), {}
    if "num" in kinds:
        fields.append(["cnt", ["struct", "Counters.NumberCounter", [["start", r.randint(1, 9)], ["step", r.choice([1, 2, 5])]]]])
        plugins.add(PLUGIN_COUNTERS)
    if "date" in kinds:
        fields.append(["dcnt", ["struct", "Counters.DateCounter", [["start_date", "2024-01-30"], ["step", r.choice(["+1d", "+1M", "+3d"])]]]])
        plugins.add(PLUGIN_COUNTERS)
    if "ds" in kinds:
        fields.append(["__ds", ["struct", "Dataset.iterate", [["dataset", CSV_NAME]]]])
        fields.append(["dsv", ["raw", "${{__ds.a}}${{__ds.b}}"]])
        plugins.add(PLUGIN_DATASET)
        extra[CSV_NAME] = CSV_TEXT
    if "num2" in kinds:
        # a second counter that a formula of the same row reads (order of evaluation inside the row)
        fields.append(["cnt2", ["struct", "Counters.NumberCounter", [["start", 10], ["step", 10]]]])
        fields.append(["cnt2x", ["raw", "${{cnt2 + 1}}"]])
        plugins.add(PLUGIN_COUNTERS)
    for k in kinds:
        fx.features.add("stateful:" + k)
    friends = []
    if r.random() < 0.3:
        friends.append({"object": "SF", "fields": [["n", ["struct", "Counters.NumberCounter", [["start", 100], ["step", 1]]]]]})
        plugins.add(PLUGIN_COUNTERS)
        fx.features.add("stateful-friend")
    ms = fx.fresh()
    fx.macros.append({"k": "macro", "name": ms, "fields": fields, "friends": friends})
    mw = fx.fresh()
    wrapper = {"k": "macro", "name": mw, "include": ms if r.random() < 0.7 else f"{ms}, {ms}", "fields": [], "friends": []}
    if "," in wrapper["include"]:
        fx.features.add("stateful-macro-twice-in-wrapper")
    fx.macros.append(wrapper)
    for t in chosen:
        via = r.choice(["direct", "direct", "nested", "nested", "both"])
        names = {"direct": [ms], "nested": [mw], "both": r.choice([[ms, mw], [mw, ms]])}[via]
        cur = spec_names(t.get("include"))
        pos = r.randint(0, len(cur))
        t["include"] = ", ".join(cur[:pos] + names + cur[pos:])
        fx.features.add("stateful-via-" + via)
        if r.random() < 0.12 and fields:
            # the template's own definition overrides the macro's: that counter never runs here
            t.setdefault("fields", []).append([fields[0][0], ["lit", "OWN"]])
            fx.features.add("stateful-overridden-by-own")
    fx.features.add("stateful")
    return [{"k": "plugin", "name": p} for p in sorted(plugins)], extra


def insert_at(rng, items, new):
    """Insert `new` items at random positions keeping their relative order."""
    items = list(items)
    pos = sorted(rng.randint(0, len(items)) for _ in new)
    for off, (p, it) in enumerate(zip(pos, new)):
        items.insert(p + off, it)
    return items


def factor_recipe(rng, rc):
    """rc: an L2Gen recipe. Returns (files, features)."""
    fx = Factor(rng)
    stmts = copy.deepcopy(rc["statements"])
    if rng.random() < 0.85:
        for st in stmts:
            fx.template(st)
    plugin_items, extra = ([], {})
    if rng.random() < 0.4:
        plugin_items, extra = add_stateful(fx, stmts)
    n = len(stmts)
    layout = rng.choice(["single", "one", "one", "nested", "two", "two", "twice", "diamond", "diamond", "diamond-macros"])
    cuts = sorted(rng.randint(0, n) for _ in range(2))
    chunks = {}
    if layout == "single":
        chunks = {MAIN: stmts}
        incl = {MAIN: []}
    elif layout == "one":
        chunks = {"a.yml": stmts[: cuts[1]], MAIN: stmts[cuts[1]:]}
        incl = {MAIN: ["a.yml"], "a.yml": []}
    elif layout == "nested":
        chunks = {"b.yml": stmts[: cuts[0]], "a.yml": stmts[cuts[0]: cuts[1]], MAIN: stmts[cuts[1]:]}
        incl = {MAIN: ["a.yml"], "a.yml": ["b.yml"], "b.yml": []}
    elif layout == "two":
        chunks = {"a.yml": stmts[: cuts[0]], "c.yml": stmts[cuts[0]: cuts[1]], MAIN: stmts[cuts[1]:]}
        incl = {MAIN: ["a.yml", "c.yml"], "a.yml": [], "c.yml": []}
    elif layout == "twice":
        # the same file listed twice: every include line contributes the file's statements
        k = max(cuts[1], min(1, n))
        chunks = {"a.yml": stmts[:k], MAIN: stmts[k:]}
        incl = {MAIN: ["a.yml", "a.yml"], "a.yml": []}
    elif layout == "diamond":
        # two included files that both include a shared third one holding statements
        k = sorted(rng.randint(0, n) for _ in range(3))
        k[0] = max(k[0], min(1, n))
        k[1], k[2] = max(k[1], k[0]), max(k[2], k[0])
        chunks = {"s.yml": stmts[: k[0]], "a.yml": stmts[k[0]: k[1]], "c.yml": stmts[k[1]: k[2]], MAIN: stmts[k[2]:]}
        incl = {MAIN: ["a.yml", "c.yml"], "a.yml": ["s.yml"], "c.yml": ["s.yml"], "s.yml": []}
        if rng.random() < 0.2:
            incl[MAIN].insert(rng.randint(0, 2), "s.yml")
            fx.features.add("diamond-plus-direct")
    else:
        # diamond whose shared file holds only macros (and possibly options): harmless
        chunks = {"s.yml": [], "a.yml": stmts[: cuts[0]], "c.yml": stmts[cuts[0]: cuts[1]], MAIN: stmts[cuts[1]:]}
        incl = {MAIN: ["a.yml", "c.yml"], "a.yml": ["s.yml"], "c.yml": ["s.yml"], "s.yml": []}
    fx.features.add("layout:" + layout)
    names = list(chunks)
    files = {}
    for name in names:
        items = [{"k": "stmt", "s": s} for s in chunks[name]]
        files[name] = insert_at(rng, items, [{"k": "include", "name": x} for x in incl[name]])
        if incl[name]:
            pos = [i for i, it in enumerate(files[name]) if it["k"] == "include"]
            fx.features.add("include-line:" + ("top" if pos[0] == 0 else "bottom" if pos[0] == len(files[name]) - 1 else "middle"))
    # version: in the main file, or (a quarter of the recipes with include files) only in an included one;
    # sometimes repeated in other included files
    vtgt = MAIN
    if len(names) > 1 and rng.random() < 0.25:
        vtgt = rng.choice([x for x in names if x != MAIN])
        fx.features.add("version-only-in-include")
    files[vtgt] = insert_at(rng, files[vtgt], [{"k": "version", "v": rc["version"]}])
    for name in names:
        if name != MAIN and rng.random() < 0.2:
            files[name] = insert_at(rng, files[name], [{"k": "version", "v": rc["version"]}])
            fx.features.add("version-repeated-in-include")
    # options: anywhere
    for oname, dflt in rc.get("options", []):
        tgt = rng.choice(names)
        files[tgt] = insert_at(rng, files[tgt], [{"k": "option", "name": oname, "has_default": True, "default": dflt}])
        if tgt != MAIN:
            fx.features.add("option-in-include")
    # plugin declarations: any file (`context.plugins.extend` while the files are read)
    for pi in plugin_items:
        tgt = rng.choice(names)
        files[tgt] = insert_at(rng, files[tgt], [pi])
        if tgt != MAIN:
            fx.features.add("plugin-in-include")
    # macros: any file, any position (expansion happens after all files are read)
    dfs = [x for x in _dfs(incl, MAIN)]
    for m in fx.macros:
        tgt = "s.yml" if layout == "diamond-macros" else rng.choice(names)
        files[tgt] = insert_at(rng, files[tgt], [m])
        if tgt != MAIN:
            fx.features.add("macro-in-include")
        if rng.random() < 0.25:
            # a junk definition of the same name that must lose: earlier in depth-first order
            junk = {"k": "macro", "name": m["name"], "fields": [["f1", ["lit", "LOSER"]], ["zz", ["lit", "LOSER"]]],
                    "friends": [{"object": "J"}]}
            # (a file reached several times is read several times: it is "earlier" only if its last
            #  reading precedes the first reading of the file that holds the real definition)
            earlier = sorted({x for x in dfs[: dfs.index(tgt)] if x not in dfs[dfs.index(tgt):]})
            if earlier and rng.random() < 0.7:
                jt = rng.choice(earlier)
                files[jt] = insert_at(rng, files[jt], [junk])
                fx.features.add("same-macro-name-in-earlier-file")
            else:
                i = next(i for i, it in enumerate(files[tgt]) if it is m)
                files[tgt].insert(rng.randint(0, i), junk)
                fx.features.add("same-macro-name-earlier-in-file")
    return files, fx.features, extra


def _dfs(incl, name):
    for x in incl[name]:
        yield from _dfs(incl, x)
    yield name


def malformed(rng):
    """Small recipes where the property speaks about errors / non-termination."""
    k = rng.choice(["unknown-macro", "macro-cycle", "macro-self", "missing-file", "bad-version", "version-conflict",
                    "unknown-macro-in-macro", "include-cycle", "include-cycle", "macro-nested-cycle", "macro-nested-cycle",
                    "version-conflict-across-files"])
    A = {"object": "A", "fields": [["f1", ["lit", 1]]]}
    if k == "include-cycle":
        # a cycle of 1-3 files, entered from the main file or from a file the main file includes
        fs = d41_files(rng.randint(1, 3))
        if rng.random() < 0.5:
            fs = {("x.yml" if n == MAIN else n): [dict(it, name="x.yml") if it.get("name") == MAIN else it for it in items]
                  for n, items in fs.items()}
            fs[MAIN] = [{"k": "stmt", "s": A}, {"k": "include", "name": "x.yml"}]
        return k, fs
    if k == "macro-nested-cycle":
        # m (-> n through `include:`) whose friend / object-valued field includes m again
        inner = {"object": "X", "include": "m"}
        via = rng.choice(["friend", "field"])
        body = {"friends": [inner]} if via == "friend" else {"fields": [["f1", ["nested", inner]]]}
        if rng.random() < 0.5:
            ms = [dict({"k": "macro", "name": "m", "include": "n", "fields": []}), dict({"k": "macro", "name": "n", "fields": []}, **body)]
        else:
            ms = [dict({"k": "macro", "name": "m", "fields": []}, **body)]
        A["include"] = "m"
        return k, {MAIN: insert_at(rng, ms, [{"k": "stmt", "s": A}])}
    if k == "version-conflict-across-files":
        return k, {MAIN: insert_at(rng, [{"k": "include", "name": "a.yml"}, {"k": "stmt", "s": A}], [{"k": "version", "v": 2}]),
                   "a.yml": [{"k": "version", "v": 3}]}
    if k == "unknown-macro":
        A["include"] = "nosuch"
        return k, {MAIN: [{"k": "stmt", "s": A}]}
    if k == "unknown-macro-in-macro":
        A["include"] = "m"
        return k, {MAIN: [{"k": "macro", "name": "m", "include": "nosuch", "fields": []}, {"k": "stmt", "s": A}]}
    if k == "macro-cycle":
        n = rng.randint(2, 4)
        ms = [{"k": "macro", "name": f"m{i}", "include": f"m{(i + 1) % n}", "fields": [[f"f{i}", ["lit", i]]]} for i in range(n)]
        A["include"] = "m0"
        return k, {MAIN: insert_at(rng, ms, [{"k": "stmt", "s": A}])}
    if k == "macro-self":
        A["include"] = "m"
        return k, {MAIN: [{"k": "macro", "name": "m", "include": "m", "fields": []}, {"k": "stmt", "s": A}]}
    if k == "missing-file":
        return k, {MAIN: [{"k": "include", "name": "nosuch.yml"}, {"k": "stmt", "s": A}]}
    if k == "bad-version":
        return k, {MAIN: [{"k": "version", "v": rng.choice([1, 4, 5])}, {"k": "stmt", "s": A}]}
    return k, {MAIN: [{"k": "version", "v": 2}, {"k": "stmt", "s": A}, {"k": "version", "v": 3}]}


# ----------------------------------------------------------------------------- known inputs

def d41_files(n=2):
    names = [MAIN] + [f"f{i}.yml" for i in range(1, n)]
    return {names[i]: [{"k": "include", "name": names[(i + 1) % n]}, {"k": "stmt", "s": {"object": f"T{i}"}}] for i in range(n)}


def d42_files(via="friend"):
    inner = {"object": "X", "include": "m"}
    m = {"k": "macro", "name": "m", "fields": [["f1", ["lit", 1]]]}
    if via == "friend":
        m["friends"] = [inner]
    else:
        m["fields"] = [["f1", ["nested", inner]]]
    return {MAIN: [m, {"k": "stmt", "s": {"object": "A", "include": "m"}}]}


def d43_files(v=3):
    return {MAIN: [{"k": "include", "name": "a.yml"}, {"k": "stmt", "s": {"object": "A", "fields": [["f1", ["lit", "12"]]]}}],
            "a.yml": [{"k": "version", "v": v}]}


def stateful_files():
    """Fixed regression input: one macro with a counter, included by two templates (directly and through a
    wrapper macro) and twice in one chain; every template must count on its own."""
    cnt = ["struct", "Counters.NumberCounter", [["start", 1], ["step", 1]]]
    return {MAIN: [
        {"k": "plugin", "name": PLUGIN_COUNTERS},
        {"k": "macro", "name": "ms", "fields": [["cnt", cnt]], "friends": [{"object": "SF", "fields": [["n", cnt]]}]},
        {"k": "macro", "name": "mw", "include": "ms", "fields": [["w", ["lit", 1]]]},
        {"k": "stmt", "s": {"object": "A", "count": ["lit", 2], "include": "ms", "fields": []}},
        {"k": "stmt", "s": {"object": "B", "count": ["lit", 2], "include": "mw", "fields": []}},
        {"k": "stmt", "s": {"object": "C", "count": ["lit", 2], "include": "ms, mw", "fields": []}},
    ]}


def diamond_files():
    """Fixed regression input: main includes a.yml and b.yml, both include shared.yml which holds a
    statement; a.yml is also listed twice.  Every inclusion contributes the statements again (as inlining
    would): P is created three times and each `reference: p` binds to the P of its own branch."""
    P = {"object": "P", "nickname": "p", "fields": [["n", ["lit", 1]]]}
    return {MAIN: [{"k": "include", "name": "a.yml"}, {"k": "include", "name": "b.yml"}, {"k": "include", "name": "a.yml"},
                   {"k": "stmt", "s": {"object": "M", "fields": [["r", ["ref", "p"]]]}}],
            "a.yml": [{"k": "include", "name": "shared.yml"}, {"k": "stmt", "s": {"object": "A", "fields": [["r", ["ref", "p"]]]}}],
            "b.yml": [{"k": "stmt", "s": {"object": "B0"}}, {"k": "include", "name": "shared.yml"},
                      {"k": "stmt", "s": {"object": "B", "fields": [["r", ["ref", "p"]]]}}],
            "shared.yml": [{"k": "stmt", "s": P}, {"k": "stmt", "s": {"var": "v1", "value": ["lit", 5]}}]}


SIG_D12 = "C14:option-truthiness"
SIG_D41 = "C14:include-file-cycle:RecursionError"
SIG_D42 = "C14:macro-cycle-via-nested-template:RecursionError"
SIG_D43 = "C14:version-declared-in-included-file-lost"

# ----------------------------------------------------------------------------- oracles


def first_diff(a, b):
    i = 0
    while i < min(len(a), len(b)) and a[i] == b[i]:
        i += 1
    return i, (a[i] if i < len(a) else None), (b[i] if i < len(b) else None)


def canon_rows(rows):
    return [[t, [[k, v] for k, v in fs]] for t, fs in rows]


def observable_options(opts):
    last = {}
    for o in opts:
        last[o["name"]] = o
    distinct = sorted({json.dumps(o, sort_keys=True) for o in opts})
    return {"last": last, "distinct": distinct}


def check_refactoring(rep, files, reps, feats=(), run_rows=True, extra=None):
    """Oracle (a): factored == spec-inlined, on the real code. Returns (case, real parse of factored)."""
    case = {"kind": "refactor", "files": files, "reps": reps, "texts": texts(files)}
    if extra:
        case["extra"] = extra
    try:
        inl = spec_inline(files)
    except InlineError as e:
        rep.count("inline-error:" + str(e))
        return case, real_parse(files), None
    case["inlined"] = texts(inl)[MAIN]
    pa, pb = real_parse(files), real_parse(inl)
    ca, cb = pa["status"].split(":")[0], pb["status"].split(":")[0]
    if ca != cb:
        rep.violation("C14:refactor-parse-outcome", f"the factored recipe parses to {pa['status']} ({pa.get('error', '')[:120]}), its inlining to {pb['status']} ({pb.get('error', '')[:120]})", case, pb["status"], pa["status"])
        return case, pa, inl
    if pa["status"] == "ok":
        for key in ("statements", "options", "version"):
            va, vb = pa[key], pb[key]
            if key == "options":
                # what merge_options can observe of the declaration list: the distinct declarations (any of
                # them may fail) and the last one per name (it decides the value); repetitions cannot be seen
                va, vb = observable_options(va), observable_options(vb)
            if va != vb:
                if key == "statements":
                    i, x, y = first_diff(pa[key], pb[key])
                    what = f"statement {i} of the factored recipe parses to {json.dumps(x)[:400]} but its inlining to {json.dumps(y)[:400]}"
                else:
                    what = f"{key} of the factored recipe: {pa[key]}, of its inlining: {pb[key]}"
                rep.violation("C14:refactor-parse-differs:" + key, what, case, pb[key], pa[key])
                return case, pa, inl
    if run_rows:
        ra, rb = real_run(files, reps, extra=extra), real_run(inl, reps, extra=extra)
        oa, ob = ra.outcome.split(":")[0], rb.outcome.split(":")[0]
        if oa != ob:
            rep.violation("C14:refactor-run-outcome", f"the factored recipe ends {ra.outcome} ({(ra.error or '')[:120]}), its inlining {rb.outcome} ({(rb.error or '')[:120]})", case, rb.outcome, ra.outcome)
        elif ra.outcome == "ok":
            xa, xb = canon_rows(ra.rows), canon_rows(rb.rows)
            if xa != xb:
                i, x, y = first_diff(xa, xb)
                rep.violation("C14:refactor-rows-differ", f"row {i}: factored recipe gives {x}, its inlining gives {y}", case, y, x)
        rep.count("run-outcome:" + oa)
        case["_rows"] = len(ra.rows)
    return case, pa, inl


ERROR_FRAGMENTS = {
    "includeCycle": "includes itself",
    "macroNested": "through a nested object template",
    "macroCycle": "which calls",
    "noMacro": "Cannot find macro named",
    "noFile": "Cannot load include file",
    "versionConflict": "conflicting versions",
    "badVersion": "Version must be 2 or 3",
}


def compare_model(rep, what, case, real, model):
    st, val = model
    if st != "ok":
        rep.disagreement(what + ":driver-error", case, val, None)
        return "disagree"
    ms = val["status"]
    rs = real["status"]
    if ms == "fuel":
        # unbounded recursion in the model <-> RecursionError on the code
        if rs == "internal:RecursionError":
            return "agree-nontermination"
        rep.disagreement(what + ":model-out-of-fuel", case, ms, rs)
        return "disagree"
    rc = "recipe_error" if rs.startswith("internal") and rs != "internal:RecursionError" else rs
    if ms != rc:
        rep.disagreement(what + ":outcome", case, {"status": ms, "err": val.get("err")}, real)
        return "disagree"
    if ms == "recipe_error":
        # same *kind* of recipe error: the model's error constructor against the message of the code
        frag = ERROR_FRAGMENTS.get((val.get("err") or [None])[0])
        if frag and frag not in (real.get("error") or ""):
            rep.disagreement(what + ":error-kind", case, val.get("err"), real.get("error"))
            return "disagree"
    if ms == "ok":
        for key in ("statements", "options", "version"):
            if val[key] != real[key]:
                if key == "statements":
                    i, x, y = first_diff(val[key], real[key])
                    rep.disagreement(what + ":statements", case, {"index": i, "stmt": x}, {"index": i, "stmt": y})
                else:
                    rep.disagreement(what + ":" + key, case, val[key], real[key])
                return "disagree"
    return "agree"


# ----------------------------------------------------------------------------- options

USER_VALUES = ["absent", 0, False, "", "0", 7, "x"]
DEFAULTS = ["absent", 0, "", 5]


def pinned_tests():
    p = os.path.join(common.LEAN_DIR, "SnowModel", "Generated", "Compose.lean")
    with open(p) as f:
        t = f.read()
    tu = re.search(r'def userTest : String :=\s*"([^"]*)"', t)
    td = re.search(r'def defaultTest : String :=\s*"([^"]*)"', t)
    return (tu.group(1) if tu else "?"), (td.group(1) if td else "?")


def option_cell(rep, version, user, dflt):
    """One end-to-end cell. Expected (model independent): supplied -> the rendering of the supplied value
    (reference: `${{p[0]}}` with the value wrapped in a list, which every test kind lets through);
    not supplied -> the rendering of the default; neither -> recipe error."""
    rec = f"- snowfakery_version: {version}\n- option: o\n"
    if dflt != "absent":
        rec += f"  default: {json.dumps(dflt)}\n"
    rec += "- object: A\n  fields:\n    x: ${{o}}\n"
    opts = {} if user == "absent" else {"o": user}
    case = {"kind": "option-cell", "version": version, "user": user, "default": dflt, "recipe": rec}
    r = common.run_recipe(rec, reps=1, options=opts)
    ref_rec = f"- snowfakery_version: {version}\n- option: p\n- object: A\n  fields:\n    x: ${{{{p[0]}}}}\n"
    falsy = (user != "absent" and not user) or (user == "absent" and dflt != "absent" and not dflt)
    sig = SIG_D12 if falsy else "C14:option-decision"
    if user != "absent" or dflt != "absent":
        v = user if user != "absent" else dflt
        ref = common.run_recipe(ref_rec, reps=1, options={"p": [v]})
        exp = canon_rows(ref.rows)
        if r.outcome != "ok":
            rep.violation(sig, f"option o: user value {user!r}, default {dflt!r}: run ends {r.outcome} ({(r.error or '')[:80]}) although a {'value was supplied' if user != 'absent' else 'default is declared'}", case, exp, r.outcome)
        elif canon_rows(r.rows) != exp:
            rep.violation(sig, f"option o: user value {user!r}, default {dflt!r}: ${{{{o}}}} evaluates to {r.rows[0][1][1][1]!r} instead of {ref.rows[0][1][1][1]!r}", case, exp, canon_rows(r.rows))
    else:
        if r.outcome != "recipe_error":
            rep.violation("C14:option-decision", f"option o without user value and default: run ends {r.outcome}", case, "recipe_error", r.outcome)
    return case, r


def merge_case(rng):
    names = ["o1", "o2", "o3"]
    vals = [0, False, "", "0", 7, "x", None, 5, True]
    defs = []
    for _ in range(rng.randint(0, 4)):
        n = rng.choice(names)
        if rng.random() < 0.6:
            defs.append({"option": n, "default": rng.choice(vals)})
        else:
            defs.append({"option": n})
    user = {}
    for n in names + ["extra1"]:
        if rng.random() < 0.5:
            user[n] = rng.choice(vals)
    plugin = {}
    if rng.random() < 0.3:
        plugin[rng.choice(["P.x", "o1"])] = rng.choice(vals)
    return {"kind": "merge", "defs": defs, "user": user, "plugin": plugin}


def run_merge(rep, case, tests, pending):
    from snowfakery.data_generator import merge_options
    from snowfakery.data_gen_exceptions import DataGenNameError

    defs, user, plugin = case["defs"], case["user"], case["plugin"]
    try:
        opts, extra = merge_options([dict(d) for d in defs], dict(user), dict(plugin))
        real = {"options": [[k, oval(v)] for k, v in opts.items()], "extra": sorted(extra)}
    except DataGenNameError as e:
        real = {"error": str(e).split("option ")[-1].strip()}
        opts = None
    except Exception as e:  # noqa
        real = {"crash": type(e).__name__}
        opts = None
    # direct oracle: the decision table of the property, on the last declaration of each name
    last = {}
    for d in defs:
        last[d["option"]] = d
    must_fail = [d["option"] for d in defs if d["option"] not in user and "default" not in d]
    if opts is None:
        if not must_fail:
            falsy = any((d["option"] in user and not user[d["option"]]) or ("default" in d and not d["default"]) for d in defs)
            rep.violation(SIG_D12 if falsy else "C14:option-decision", f"merge_options fails ({real}) although every declared option has a supplied value or a default", case, "ok", real)
    else:
        if must_fail:
            rep.violation("C14:option-decision", f"merge_options succeeds although {must_fail} have neither value nor default", case, "error", real)
        else:
            for n, d in last.items():
                exp = user[n] if n in user else d["default"]
                got = opts.get(n, "<missing>")
                if not (got is exp or (type(got) is type(exp) and got == exp)):
                    falsy = (n in user and not user[n]) or (n not in user and not d.get("default"))
                    rep.violation(SIG_D12 if falsy else "C14:option-decision", f"option {n}: supplied {user.get(n, '<absent>')!r}, default {d.get('default', '<absent>')!r}: merge_options gives {got!r} instead of {exp!r}", case, repr(exp), repr(got))
                    break
    pending.append((case, real))
    return {"m": "c14.merge", "tu": tests[0], "td": tests[1],
            "defs": [{"name": d["option"], "has_default": "default" in d, "default": oval(d.get("default"))} for d in defs],
            "user": [[k, oval(v)] for k, v in user.items()], "plugin": [[k, oval(v)] for k, v in plugin.items()]}


def compare_merge(rep, case, real, model):
    st, val = model
    if st != "ok":
        rep.disagreement("c14.merge:driver-error", case, val, None)
        return
    if "error" in val:
        m = {"error": val["error"][1] if len(val["error"]) > 1 else val["error"][0]}
    else:
        m = {"options": val["options"], "extra": sorted(val["extra"])}
    if m != real:
        rep.disagreement("c14.merge", case, m, real)



# ----------------------------------------------------------------------------- option visibility (scope)
# An option resolves to the supplied value / the default *wherever it is declared and read*, unless a
# nearer layer of the formula namespace binds the same name.  The order of the layers is pinned from
# `EvaluationNamespace.simple_field_vars` (Gen.Compose.namespaceLayers, farthest first) + `field_vars`.

SIG_SCOPE = "C14:option-shadowed-by-farther-layer"
SCOPE_READS = ["top-field", "top-field-after", "nested-field", "friend-field", "count", "var", "macro-field",
               "included-template"]


def pinned_layers():
    p = os.path.join(common.LEAN_DIR, "SnowModel", "Generated", "Compose.lean")
    with open(p) as f:
        t = f.read()
    m = re.search(r"def namespaceLayers : List String :=\s*(\[.*?\])\n", t)
    k = re.search(r"def builtinKeys : List String :=\s*(\[.*?\])\n", t)
    # when the pin is broken the generated file may lack the lists: fall back to the layer order / keys the
    # property text implies, so that the failing-input search still runs
    layers = json.loads(m.group(1)) if m else []
    keys = json.loads(k.group(1)) if k else []
    return (layers or ["builtins", "options", "object_names", "row_fields", "plugins", "variables"]) + ["funcs"], \
        (keys or ["id", "count", "child_index", "this", "today", "now", "fake", "template"])


def standard_func_names():
    from snowfakery.template_funcs import StandardFuncs

    return sorted(n for n in dir(StandardFuncs.Functions) if not n.startswith("_") and n != "context")


def scope_case(rng, builtin_keys, funcs):
    pools = [builtin_keys, builtin_keys, ["T", "nk", "Other", "K"], ["v1"], ["f_prev"],
             [f for f in ("random_number", "date", "fake", "reference", "if", "random_choice", "datetime") if f in funcs or f == "fake"],
             ["o1", "zz", "Count", "this_"]]
    name = rng.choice(rng.choice(pools))
    return {"kind": "scope", "name": name, "read": rng.choice(SCOPE_READS), "decl": rng.choice(["main", "main", "include"]),
            "version": rng.choice([2, 3]), "user": rng.choice([None, 7, 9]), "default": rng.choice([5, 6]),
            "var_first": rng.random() < 0.5}


def scope_recipe(c):
    """-> (main text, files, reading table)"""
    name, read = c["name"], c["read"]
    decl = f"- option: {name}\n  default: {c['default']}\n- option: zz_ctl\n  default: {c['default']}\n"
    got = "${{%s}}" % name
    reader_fields = f"    got: {got}\n    ctl: ${{{{zz_ctl}}}}\n"
    pre = ""
    if c["var_first"]:
        pre += "- var: v1\n  value: 11\n"
    pre += "- object: Other\n  nickname: nk\n"
    table = "T"
    if read == "top-field":
        body = "- object: T\n  count: 3\n  fields:\n" + reader_fields
    elif read == "top-field-after":
        body = "- object: T\n  count: 3\n  fields:\n    f_prev: 42\n" + reader_fields
    elif read == "nested-field":
        body = "- object: T\n  count: 2\n  fields:\n    kid:\n      - object: K\n        count: 2\n        fields:\n" + \
            reader_fields.replace("    ", "          ")
        table = "K"
    elif read == "friend-field":
        body = "- object: T\n  count: 2\n  friends:\n    - object: K\n      count: 2\n      fields:\n" + reader_fields.replace("    ", "        ")
        table = "K"
    elif read == "count":
        body = f"- object: T\n  count: {got}\n  fields:\n    ctl: ${{{{zz_ctl}}}}\n"
    elif read == "var":
        body = f"- var: vv\n  value: {got}\n- object: T\n  count: 3\n  fields:\n    got: ${{{{vv}}}}\n    ctl: ${{{{zz_ctl}}}}\n"
    elif read == "macro-field":
        body = "- macro: mm\n  fields:\n" + reader_fields + "- object: T\n  count: 3\n  include: mm\n"
    else:  # included-template
        body = "- object: T\n  count: 3\n  fields:\n" + reader_fields
    head = f"- snowfakery_version: {c['version']}\n"
    files = {}
    if read == "included-template":
        files["inc.yml"] = (decl if c["decl"] == "include" else "") + pre + body
        main = head + (decl if c["decl"] == "main" else "") + "- include_file: inc.yml\n"
    elif c["decl"] == "include":
        files["inc.yml"] = decl
        main = head + "- include_file: inc.yml\n" + pre + body
    else:
        main = head + decl + pre + body
    return main, files, table


def scope_binds(c, builtin_keys, funcs):
    """What each layer binds at the read position (from the recipe text, not from the code)."""
    read = c["read"]
    in_row = read in ("top-field", "top-field-after", "nested-field", "friend-field", "macro-field", "included-template")
    row = []
    if in_row:
        row.append("id")
    if read == "top-field-after":
        row.append("f_prev")
    if read in ("nested-field",):
        pass
    objs = ["Other", "nk", "T"] + (["K"] if read in ("nested-field", "friend-field") else [])
    variables = (["v1"] if c["var_first"] else []) + (["child_index"] if in_row else []) + (["vv"] if read == "var" else [])
    if read in ("nested-field", "friend-field", "count"):
        # a template evaluated inside another row's loop still sees that loop's `child_index`
        variables.append("child_index") if read != "count" else None
    return {"builtins": list(builtin_keys), "options": [c["name"], "zz_ctl"], "object_names": objs, "row_fields": row,
            "plugins": [], "variables": sorted(set(variables)), "funcs": list(funcs)}


def py_resolve(order, binds, name):
    for layer in reversed(order):
        if name in binds.get(layer, []):
            return layer
    return None


def run_scope(rep, c, order, builtin_keys, funcs, pending):
    main, files, table = scope_recipe(c)
    case = dict(c, recipe=main, files=files)
    binds = scope_binds(c, builtin_keys, funcs)
    layer = py_resolve(order, binds, c["name"])
    expected = c["user"] if c["user"] is not None else c["default"]
    opts = {} if c["user"] is None else {c["name"]: c["user"], "zz_ctl": c["user"]}
    r = common.run_recipe(main, reps=1, options=opts, files=files or None)
    rows = [dict(f) for t, f in r.rows if t == table]
    rep.count("scope:resolves-to:" + str(layer))
    rep.count("scope:read:" + c["read"])
    pending.append((case, {"m": "c14.resolve", "order": order, "binds": binds, "name": c["name"]}, layer))
    if layer == "options":
        # the property: the option is visible -> the supplied value, else the default
        if r.outcome != "ok":
            rep.violation(SIG_SCOPE, f"option `{c['name']}` read at {c['read']} (declared in {c['decl']}): run ends {r.outcome} ({(r.error or '')[:100]}) although no nearer layer binds the name", case, expected, r.outcome)
        elif c["read"] == "count":
            if len(rows) != expected:
                rep.violation(SIG_SCOPE, f"option `{c['name']}` = {expected} read in `count:`: {len(rows)} rows", case, expected, len(rows))
        else:
            bad = [(i, x.get("got"), x.get("ctl")) for i, x in enumerate(rows) if x.get("got") != x.get("ctl") or x.get("ctl") != expected]
            if bad or not rows:
                i, g, ctl = bad[0] if bad else (0, None, None)
                rep.violation(SIG_SCOPE, f"option `{c['name']}` (value {expected}) read at {c['read']} (declared in {c['decl']}, dialect {c['version']}): row {i} gets {g!r}, the control option of the same value gets {ctl!r} — no nearer layer binds `{c['name']}`", case, expected, g)
    elif r.outcome == "ok" and rows and c["read"] != "count":
        # a nearer layer wins: where its value is known, it is what must be read
        want = None
        if layer == "row_fields":
            want = [x.get("id") for x in rows] if c["name"] == "id" else [42] * len(rows)
        elif layer == "variables" and c["name"] == "v1":
            want = [11] * len(rows)
        if want is not None and [x.get("got") for x in rows] != want:
            rep.violation("C14:nearer-layer-not-read", f"`{c['name']}` is bound by the nearer layer {layer}: expected {want[:3]}, read {[x.get('got') for x in rows][:3]}", case, want, [x.get("got") for x in rows])
    return case, r


def flush_scope(rep, pending):
    res = common.model_batch([req for _, req, _ in pending])
    for (case, _, layer), m in zip(pending, res):
        st, val = m
        if st != "ok" or val != layer:
            rep.disagreement("c14.resolve", case, val, layer)
        rep.traces_validated += 1
    pending.clear()

# ----------------------------------------------------------------------------- run


def run_known(rep, findings):
    """Known-finding inputs and fixed regression inputs, first."""
    for f in findings:
        if isinstance(f.get("input"), dict) and f["input"].get("kind"):
            replay(f["input"], rep)
            rep.count("known-finding-input:" + f["id"])
    # D45 (was D41): include_file cycle
    for n in (2, 1, 3):
        files = d41_files(n)
        case = {"kind": "parse-only", "files": files, "texts": texts(files), "family": "include-cycle"}
        r = real_parse(files)
        rep.case(case, nontrivial=True)
        rep.count("known:include-cycle:" + r["status"])
        if r["status"].startswith("internal"):
            rep.violation(SIG_D41 if r["status"] == "internal:RecursionError" else "C14:include-file-cycle:" + r["status"],
                          f"{n} file(s) including each other: {r['status']}: the cycle is not detected (no check on the stack of files being parsed)", case, "recipe_error", r["status"])
        _model_one(rep, "c14.parse:include-cycle", case, files, r)
    # D46 (was D42): macro reaches itself through a nested template
    for via in ("friend", "field"):
        files = d42_files(via)
        case = {"kind": "parse-only", "files": files, "texts": texts(files), "family": "macro-cycle-via-" + via}
        r = real_parse(files)
        rep.case(case, nontrivial=True)
        rep.count("known:macro-cycle-via-nested:" + r["status"])
        if r["status"].startswith("internal"):
            rep.violation(SIG_D42 if r["status"] == "internal:RecursionError" else "C14:macro-cycle-via-nested-template:" + r["status"],
                          f"macro m reaches itself through a {via} template: {r['status']}: the cycle is not detected (the chain check restarts at every template and nothing tracks the macros under expansion)", case, "recipe_error", r["status"])
        _model_one(rep, "c14.parse:macro-cycle-nested", case, files, r)
    # a file reached by include_file several times (fixed regression input)
    case, pa, inl = check_refactoring(rep, diamond_files(), 1)
    rep.case({"texts": case["texts"], "reps": 1}, nontrivial=True)
    _model_one(rep, "c14.parse:diamond", case, diamond_files(), pa)
    # stateful definitions in a shared macro (fixed regression input)
    case, pa, inl = check_refactoring(rep, stateful_files(), 2)
    rep.case({"texts": case["texts"], "reps": 2}, nontrivial=True)
    _model_one(rep, "c14.parse:stateful", case, stateful_files(), pa)
    # D47 (was D43): version declared only in the included file
    for v in (3,):
        version_case(rep, d43_files(v))


def version_case(rep, files):
    """`include_file` pulls in all declarations: a version declared in the included file must behave as if
    written inline at the top."""
    items = spec_flatten(files, MAIN)
    inl = {MAIN: [it for it in items if it["k"] == "version"] + [it for it in items if it["k"] != "version"]}
    case = {"kind": "version", "files": files, "texts": texts(files), "inlined": texts(inl)[MAIN]}
    pa, pb = real_parse(files), real_parse(inl)
    rep.case(case, nontrivial=True)
    if pa["status"] == "ok" and pb["status"] == "ok" and pa["version"] != pb["version"]:
        ra, rb = real_run(files, 1), real_run(inl, 1)
        rep.violation(SIG_D43, f"snowfakery_version declared in an included file: effective version {pa['version']} instead of {pb['version']} when written inline; rows {canon_rows(ra.rows)[:1]} vs {canon_rows(rb.rows)[:1]}", case, pb["version"], pa["version"])
    elif pa["status"].split(":")[0] != pb["status"].split(":")[0]:
        rep.violation(SIG_D43, f"snowfakery_version declarations spread over included files: the recipe parses to {pa['status']} ({pa.get('error', '')[:80]}), with the declarations written inline to {pb['status']} ({pb.get('error', '')[:80]})", case, pb["status"], pa["status"])
    rep.count("version-case:" + pa["status"].split(":")[0])
    _model_one(rep, "c14.parse:version", case, files, pa)


def _model_one(rep, what, case, files, real):
    res = common.model_batch([model_request(files)])
    r = compare_model(rep, what, case, real, res[0])
    rep.count("compare:" + r)
    rep.traces_validated += 1


def run(ctx, rep, findings):
    rng = ctx.rng
    rep.rule = ("L2Gen recipes (1-5 top-level statements, nested templates, friends, vars, options, both dialects) factored into "
                "0-2 include files (nested / sibling, include lines anywhere) and macros (chains, nested macros, junk overridden by later "
                "macros / own fields, losing same-name definitions in earlier files), compared with their spec-inlining on the real code "
                "(parse_recipe result and captured rows) and with the Lean model; malformed stream (unknown / cyclic macros, missing "
                "file, versions); option cells {absent,0,False,'','0',7,'x'} x {absent,0,'',5} in both dialects; random merge_options "
                "calls. Non-trivial: the factoring uses at least one macro or include file and the run completes with >= 2 rows.")
    tests = pinned_tests()
    rep.extra["pinned_tests"] = {"user": tests[0], "default": tests[1]}
    run_known(rep, findings)
    for c in ctx.corpus():
        replay(c, rep)

    # ---- options: every cell, both dialects
    for version in (2, 3):
        for user in USER_VALUES:
            for dflt in DEFAULTS:
                case, r = option_cell(rep, version, user, dflt)
                rep.case(case, nontrivial=True)
                rep.count("option-cell:" + r.outcome.split(":")[0])
    # ---- option visibility across the layers of the formula namespace
    order, builtin_keys = pinned_layers()
    funcs = standard_func_names()
    rep.extra["pinned_namespace_layers"] = order
    spend = []
    fixed = [{"kind": "scope", "name": n, "read": rd, "decl": d, "version": v, "user": 7, "default": 5, "var_first": False}
             for n in ("count", "this") for rd in ("top-field", "macro-field", "included-template") for d in ("main", "include") for v in (2, 3)]
    for c in fixed + [scope_case(rng, builtin_keys, funcs) for _ in range(ctx.scale(160, 2500))]:
        case, r = run_scope(rep, c, order, builtin_keys, funcs, spend)
        rep.case({k: case[k] for k in ("name", "read", "decl", "version", "user", "default", "var_first")}, nontrivial=True)
    flush_scope(rep, spend)
    pending, reqs = [], []
    for _ in range(ctx.scale(400, 6000)):
        case = merge_case(rng)
        reqs.append(run_merge(rep, case, tests, pending))
        rep.case(case, nontrivial=bool(case["defs"]))
    for (case, real), m in zip(pending, common.model_batch(reqs)):
        compare_merge(rep, case, real, m)
        rep.traces_validated += 1
    rep.count("merge-calls", len(pending))

    # ---- malformed stream
    mal = []
    for _ in range(ctx.scale(60, 600)):
        k, files = malformed(rng)
        case = {"kind": "parse-only", "files": files, "texts": texts(files), "family": k}
        r = real_parse(files)
        rep.case(case, nontrivial=True)
        rep.count(f"malformed:{k}:{r['status']}")
        if r["status"].startswith("internal"):
            sig = "C14:malformed:" + k + ":" + r["status"]
            if r["status"] == "internal:RecursionError" and k == "include-cycle":
                sig = SIG_D41
            if r["status"] == "internal:RecursionError" and k == "macro-nested-cycle":
                sig = SIG_D42
            rep.violation(sig, f"{k}: {r['status']} (not detected: the interpreter stack is exhausted)", case, "recipe_error", r["status"])
        elif k == "version-conflict-across-files" and r["status"] == "ok":
            rep.violation(SIG_D43, f"conflicting snowfakery_version declarations in two files are accepted (version {r['version']})", case, "recipe_error", "ok")
        mal.append((case, files, r))
    for (case, files, r), m in zip(mal, common.model_batch([model_request(f) for _, f, _ in mal])):
        rep.count("compare:" + compare_model(rep, "c14.parse:malformed", case, r, m))
        rep.traces_validated += 1

    # ---- version declarations moved into include files (D47 family)
    for _ in range(ctx.scale(6, 60)):
        v = rng.choice([2, 3])
        files = d43_files(v)
        if rng.random() < 0.5:
            files[MAIN] = insert_at(rng, files[MAIN], [{"k": "version", "v": rng.choice([2, 3])}])
        version_case(rep, files)

    # ---- refactorings
    n = ctx.scale(420, 4000)
    batch = []
    for i in range(n):
        reps = rng.choice([1, 1, 2])
        for attempt in range(6):
            g = recipes.L2Gen(rng)
            rc = g.recipe()
            orig = common.run_recipe(recipes.recipe_yaml(rc), reps=reps)
            if orig.outcome == "ok" or rng.random() < 0.12:
                break
        files, feats, extra = factor_recipe(rng, rc)
        case, pa, inl = check_refactoring(rep, files, reps, feats, extra=extra)
        if "junk-override" not in feats and "stateful" not in feats and orig.outcome == "ok" \
                and not ({"layout:twice", "layout:diamond"} & set(feats)):
            # no overriding involved: the factored recipe must reproduce the rows of the recipe as generated
            fr = real_run(files, reps)
            if fr.outcome != "ok" or canon_rows(fr.rows) != canon_rows(orig.rows):
                i0, x, y = first_diff(canon_rows(fr.rows), canon_rows(orig.rows))
                rep.violation("C14:refactor-differs-from-original", f"factored recipe ends {fr.outcome}; row {i0}: {x} but the original recipe gives {y}",
                              dict(case, original=recipes.recipe_yaml(rc)), y, x)
            rep.count("compared-with-original")
        nrows = case.pop("_rows", 0)
        used = any(f.startswith("macro") for f in feats) or not ("layout:single" in feats)
        rep.case({"texts": case["texts"], "reps": reps}, nontrivial=used and nrows >= 2)
        for f in feats:
            rep.count("feature:" + f)
        rep.count("parse:" + pa["status"].split(":")[0])
        batch.append((case, files, pa, inl))
        if len(batch) >= 100:
            flush(rep, batch)
        if ctx.time_left() < 60:
            rep.notes.append("stopped early: time budget")
            break
    flush(rep, batch)


def flush(rep, batch):
    reqs = []
    for case, files, pa, inl in batch:
        reqs.append(model_request(files))
        reqs.append(model_request(inl) if inl else model_request(files))
    res = common.model_batch(reqs)
    for k, (case, files, pa, inl) in enumerate(batch):
        mf, mi = res[2 * k], res[2 * k + 1]
        r = compare_model(rep, "c14.parse", case, pa, mf)
        rep.count("compare:" + r)
        rep.traces_validated += 1
        if inl and mf[0] == "ok" and mi[0] == "ok" and mf[1] != mi[1]:
            rep.disagreement("c14.parse:model-not-transparent", case, mf[1].get("status"), mi[1].get("status"))
    batch.clear()


# ----------------------------------------------------------------------------- replay / shrink


def replay(case, rep):
    k = case.get("kind")
    if k == "refactor":
        c, pa, inl = check_refactoring(rep, case["files"], case.get("reps", 1), extra=case.get("extra"))
        _model_one(rep, "c14.parse", c, case["files"], pa)
    elif k == "parse-only":
        files = case["files"]
        r = real_parse(files)
        fam = case.get("family", "")
        if r["status"].startswith("internal"):
            sig = (SIG_D41 if fam == "include-cycle" else SIG_D42 if fam.startswith("macro-cycle-via") else "C14:malformed:" + fam + ":" + r["status"])
            if r["status"] != "internal:RecursionError" and fam in ("include-cycle",):
                sig = "C14:include-file-cycle:" + r["status"]
            rep.violation(sig, f"{fam}: {r['status']} — the cycle is not detected, the interpreter stack is exhausted (parse_recipe may wrap it into a recipe error)", case, "recipe_error", r["status"])
        _model_one(rep, "c14.parse:" + fam, case, files, r)
    elif k == "version":
        version_case(rep, case["files"])
    elif k == "option-cell":
        option_cell(rep, case["version"], case["user"], case["default"])
    elif k == "scope":
        order, bk = pinned_layers()
        sp = []
        run_scope(rep, case, order, bk, standard_func_names(), sp)
        flush_scope(rep, sp)
    elif k == "merge":
        pending = []
        req = run_merge(rep, case, pinned_tests(), pending)
        compare_merge(rep, case, pending[0][1], common.model_batch([req])[0])


def shrink(case, signature):
    if case.get("kind") != "refactor":
        return case
    files = copy.deepcopy(case["files"])
    reps = case.get("reps", 1)

    def fails(fs):
        rep = common.Report("C14")
        try:
            check_refactoring(rep, fs, reps, extra=case.get("extra"))
        except Exception:  # noqa
            return False
        return any(v["signature"] == signature for v in rep.violations)

    # drop whole items (statements, macros that are not needed …) file by file
    for name in list(files):
        items = files[name]
        if len(items) < 2:
            continue

        def still(cand, name=name):
            fs = dict(files)
            fs[name] = cand
            return fails(fs)

        files[name] = common.shrink_list(items, still)
    # drop fields inside statements and macros
    for name in list(files):
        for it in files[name]:
            tgt = it["s"] if it["k"] == "stmt" else it if it["k"] == "macro" else None
            if not tgt or "var" in tgt:
                continue
            for key in ("fields", "friends"):
                lst = tgt.get(key) or []
                if len(lst) < 2:
                    continue

                def still2(cand, tgt=tgt, key=key):
                    old = tgt[key]
                    tgt[key] = cand
                    ok = fails(files)
                    tgt[key] = old
                    return ok

                tgt[key] = common.shrink_list(lst, still2)
    out = {"kind": "refactor", "files": files, "reps": reps, "texts": texts(files)}
    if case.get("extra"):
        out["extra"] = case["extra"]
    try:
        out["inlined"] = texts(spec_inline(files))[MAIN]
    except InlineError:
        pass
    return out
