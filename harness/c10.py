"""C10 — random_reference picks existing, correctly scoped targets; unique never repeats.

Correspondence (tie C): real runs (public entry point `snowfakery.data_generator.generate`, chains of
runs through continuation files) with `RowHistory.__init__/save_row/reset_locals/
random_row_reference`, `RandomReferenceContext.unique_random` and `Interpreter.get_contextual_state`
wrapped from the harness side; every random draw is chosen and recorded by the harness.  The op
log of every run is replayed on the Lean machine `SnowModel.History` (`c10.history`), every
`unique` context on `uniqueRun` (`c10.unique`), every call site's parent sequence on `ctxRun`
(`c10.ctx`), the static history-table decision on `historyTables` (`c10.hist_tables`).

Direct oracle (model-independent; evaluated on the emitted rows and the pick events):
each `random_reference X` result names a row emitted *before* the pick, of table X / created by a
template with nickname X, from the current iteration if such a row exists there; `unique` =>
no target twice per (run, call site, parent row), no exhaustion while an eligible unused target
exists, and — consequently — all targets used when pickers == targets and an error when
pickers == targets + 1.  Reference cells in the output are tied to the pick events as multisets.
"""
import bisect
import contextlib
import random as _random

import yaml

from . import common

SPEC = {
    "lean": ["SnowModel.Props.C10", "SnowModel.Props.C10Bridge"],
    "pins": ["RowHistory", "HistoryWiring", "RandomRange"],
    "harness": "harness.c10",
    "technique": "Lean 4 theorems over the history machine (arbitrary op sequences; draws as oracle arguments) and over the unique-context machine built on the C12 UpdatableRandomRange theorems + pins regenerated from the AST of row_history.py / data_generator_runtime.py + op-for-op trace correspondence of real runs with recorded draws + direct oracle on emitted rows",
    "level_text": "Machine-checked proof, for every op sequence of the RowHistory machine (saves under any nickname layout, picks with any draw in range, iteration resets, continuation re-saves): nickname-scope picks return a saved row carrying that nickname and table with the drawn ordinal, from the current window when one exists; table-scope picks do so whenever ids are saved densely (DenseTrace), table counters are monotone and independent of nicknames (fixes 9826fcb, 07a822a: no table-scope theorem carries a naming hypothesis), so without density a table pick is a row of the running iteration or an id reserved ahead but never an earlier row, re-saved just_once rows are never current, every persistent row of a history-backed table is re-saved exactly once after a continuation (fix 5da9efa) and that re-save cannot fail, and the ranges one unique context sees never trip an UpdatableRandomRange assertion; the unrestricted existence statement is still refuted by the D07 witness that the oracle reproduces on the real code; unique picks never repeat, stay in range, never fail while growing, use every target and then report exhaustion; the per-parent state rule re-creates the context exactly when the parent row changes.",
    "level_note": "Trusted: Lean kernel; py2lean; the harness wrappers and recorded draws; sqlite UNIQUE/SELECT semantics as modelled (first matching row); CPython int/dict. The model is tied to the code by pinned expressions/skeletons and by replaying every traced call of every generated run.",
    "assumptions": [
        "random.randint(a, b) returns an int in [a, b] (the scope theorems take lo <= draw <= hi as hypothesis; the harness forces both ends)",
        "sqlite: INSERT fails on a duplicate id; SELECT … WHERE nickname=? AND nickname_id=? returns a matching row if one exists",
        "nicknames are non-empty strings when present",
    ],
    "budget": {"quick": 600, "thorough": 2400},
}

CUR = "current-iteration"
PRIOR = "prior-and-current-iterations"


# ------------------------------------------------------------------ recipe analysis


def walk_templates(recipe):
    """Yield (template dict, top_level) for every object template of a recipe structure."""

    def rec(t, top):
        yield t, top
        for fv in (t.get("fields") or {}).values():
            if isinstance(fv, list):
                for c in fv:
                    if isinstance(c, dict) and "object" in c:
                        yield from rec(c, False)
        for fr in t.get("friends") or []:
            if isinstance(fr, dict) and "object" in fr:
                yield from rec(fr, False)

    for st in recipe:
        if isinstance(st, dict) and "object" in st:
            yield from rec(st, True)


def expand(recipe, files=None):
    """The recipe with `include_file` statements inlined and every template's `include:` macros
    merged into its own fields / friends (the template's own entries win) — what the templates
    mean, as far as the oracle needs it.  YAML anchors / merge keys are already resolved by the loader."""
    import copy

    files = files or {}

    def statements(rec, depth=0):
        out = []
        for st in rec or []:
            if isinstance(st, dict) and "include_file" in st and depth < 5:
                out.extend(statements(yaml.safe_load(files.get(st["include_file"], "[]")), depth + 1))
            else:
                out.append(st)
        return out

    sts = statements(recipe)
    macros = {st["macro"]: st for st in sts if isinstance(st, dict) and "macro" in st}

    def macro_parts(name, seen=()):
        m = macros.get(name)
        if m is None or name in seen:
            return {}, []
        f, fr = {}, []
        for inc in [x.strip() for x in str(m.get("include") or "").split(",") if x.strip()]:
            f2, fr2 = macro_parts(inc, seen + (name,))
            f.update(f2)
            fr.extend(fr2)
        f.update(m.get("fields") or {})
        fr.extend(m.get("friends") or [])
        return f, fr

    def tmpl(t):
        t = dict(t)
        f, fr = {}, []
        for inc in [x.strip() for x in str(t.get("include") or "").split(",") if x.strip()]:
            f2, fr2 = macro_parts(inc)
            f.update(f2)
            fr.extend(fr2)
        f.update(t.get("fields") or {})
        fr.extend(t.get("friends") or [])
        t["fields"] = {k: ([tmpl(c) if isinstance(c, dict) and "object" in c else c for c in v] if isinstance(v, list) else v)
                       for k, v in f.items()}
        t["friends"] = [tmpl(c) if isinstance(c, dict) and "object" in c else c for c in fr]
        return t

    return [tmpl(st) if isinstance(st, dict) and "object" in st else st for st in copy.deepcopy(sts)]


def analyse(recipe, files=None):
    """Metadata the oracle needs, derived from the recipe structure only."""
    recipe = expand(recipe, files)
    tables, nick2table, tpl_nick, pickers, names = set(), {}, {}, {}, set()
    nick_tables, nested_nicks, tpl_jo = {}, set(), set()
    for t, top in walk_templates(recipe):
        tables.add(t["object"])
        names.add(t["object"])
        if t.get("nickname"):
            names.add(t["nickname"])
            nick_tables.setdefault(t["nickname"], set()).add(t["object"])
            if top:
                nick2table[t["nickname"]] = t["object"]
            else:
                nested_nicks.add(t["nickname"])
        f = t.get("fields") or {}
        if "tpl" in f:
            tpl_nick[f["tpl"]] = t.get("nickname")
            if t.get("just_once"):
                tpl_jo.add(f["tpl"])
        for k, v in f.items():
            if isinstance(v, dict) and "random_reference" in v:
                spec = v["random_reference"]
                if isinstance(spec, str):
                    spec = {"to": spec}
                pickers[(t["object"], k)] = spec
                names.add(spec["to"])
    for tb in tables:  # `name_slots.update(tablenames)`: a table name is never a nickname
        nick2table.pop(tb, None)
    hostile = (any(len(v) > 1 for v in nick_tables.values()) or bool(set(nick_tables) & tables)
               or bool(nested_nicks - set(nick2table)))
    return {"tables": tables, "nick2table": nick2table, "tpl_nick": tpl_nick, "pickers": pickers,
            "names": sorted(names), "hostile": hostile, "tpl_just_once": tpl_jo}


# ------------------------------------------------------------------ tracing real runs


class Draws:
    """All random choices of a case, derived from the case's draw seed."""

    def __init__(self, seed, forced=()):
        self.rng = _random.Random(seed)
        self.forced = list(forced)  # first draws, in call order: "lo" | "hi" | int (clamped)

    def randint(self, lo, hi):
        if self.forced:
            v = self.forced.pop(0)
            return lo if v == "lo" else hi if v == "hi" else min(max(int(v), lo), hi)
        r = self.rng.random()
        if r < 0.25:
            return lo
        if r < 0.5:
            return hi
        return self.rng.randint(lo, hi)


class Tracer:
    def __init__(self, draws):
        self.draws = draws
        self.runs = []  # per run: {"init":…, "ops":[…], "st0":…}
        self.picks = []  # oracle events
        self.uctx = {}  # id(ctx) -> {"reqs":[(a,b)], "outs":[…], "gens":{idx:[d…]}, "n_gens":int}
        self.uorder = []
        self.sites = {}  # site key -> [(parent|None, fresh)]
        self.ctx_site = {}  # id(ctx) -> (site, parent)
        self.keep = []  # keep traced objects alive so that id() stays unique
        self.run_index = -1
        self.iter_index = -1
        self.iter_marks = []  # (global start index, run, iter)
        self.row_offset = 0
        self.interp = None
        self.in_resave = None  # list of re-saved rows while inside resave_objects_from_continuation
        self.cur_uctx = None
        self.cur_gen = None
        self.cur_ctx = None
        self.pickers = {}
        self.ctx_field = {}  # id(ctx) -> (picker table, field name) it was last returned for

    def emitted_now(self):
        it = self.interp
        n = len(it.output_stream.rows) if it is not None and hasattr(it.output_stream, "rows") else 0
        return self.row_offset + n

    @contextlib.contextmanager
    def installed(self):
        import random as pyrandom
        import snowfakery.data_generator_runtime as rt
        import snowfakery.data_generator_runtime_object_model as om
        import snowfakery.row_history as rh
        import snowfakery.utils.randomized_range as rr

        tr = self
        RH, RC, IN = rh.RowHistory, rh.RandomReferenceContext, rt.Interpreter
        o_init, o_save, o_reset, o_rrr = RH.__init__, RH.save_row, RH.reset_locals, RH.random_row_reference
        o_resave, o_loop, o_gcs = IN.resave_objects_from_continuation, IN.loop_over_templates_once, IN.get_contextual_state
        o_uniq, o_rcinit, o_rcnext = RC.unique_random, RC.__init__, RC.next

        def rc_next(ctx):
            prev = tr.cur_ctx
            tr.cur_ctx = ctx
            try:
                return o_rcnext(ctx)
            finally:
                tr.cur_ctx = prev
        o_rr, o_randint_rh, o_randint = rr.random_range, rh.randint, pyrandom.randint
        o_genval = om.FieldFactory.generate_value

        def generate_value(field, context):
            # the pick itself happens later (`value.next()` in `_generate_fields`): remember which
            # picker field the returned context is being used for
            rv = o_genval(field, context)
            if isinstance(rv, RC):
                # call site = (table of the template, field name, source line of the template): two
                # templates that get the same field text from a macro / YAML alias are two call sites
                tmpl = getattr(context, "current_template", None)
                tr.ctx_field[id(rv)] = (getattr(context, "current_table_name", None), field.name,
                                        getattr(tmpl, "line_num", None), getattr(tmpl, "filename", None))
            return rv

        def digest(h):
            univ = tr.univ
            n = 0
            for t in h._verif_tables:
                n += h.conn.execute(f'SELECT count(*) FROM "{t}"').fetchone()[0]
            return {"tc": {k: int(h.table_counters.get(k) or 0) for k in univ},
                    "nc": {k: int(h.nickname_counters.get(k, 0)) for k in univ},
                    "lc": {k: int(h.local_counters.get(k) or 0) for k in univ},
                    "ln": {k: int((getattr(h, "local_nickname_counters", None) or {}).get(k, 0)) for k in univ},
                    "nrows": n}

        def init(h, table_counters, tables, nickmap):
            tr.run_index += 1
            tr.iter_index = -1
            tables = list(tables)
            run = {"counters": [[k, int(v)] for k, v in dict(table_counters).items()],
                   "tables": sorted(tables), "nickmap": [[k, v] for k, v in dict(nickmap).items()],
                   "ops": [], "h": h}
            tr.runs.append(run)
            h._verif_tables = sorted(tables)
            h._verif_run = run
            h._verif_ready = False
            o_init(h, table_counters, tables, nickmap)
            h._verif_ready = True
            run["st0"] = digest(h)

        def save(h, tablename, nickname, row):
            if tr.in_resave is not None:
                # part of `resave_objects_from_continuation`: one composite op, logged by `resave`
                tr.in_resave.append([tablename, nickname, row["id"]])
                return o_save(h, tablename, nickname, row)
            op = ["save", tablename, nickname, row["id"]]
            try:
                rv = o_save(h, tablename, nickname, row)
            except Exception as e:  # noqa
                h._verif_run["ops"].append({"op": op, "err": type(e).__name__})
                raise
            h._verif_run["ops"].append({"op": op, "obs": ["ok"], "st": digest(h)})
            return rv

        def reset(h):
            rv = o_reset(h)
            if getattr(h, "_verif_ready", False) and tr.in_resave is None:
                h._verif_run["ops"].append({"op": ["reset"], "obs": ["ok"], "st": digest(h)})
            return rv

        def rrr(h, name, scope, randomizer_func):
            seen = {}

            def f(a, b):
                seen["range"] = [a, b]
                v = randomizer_func(a, b)
                seen["draw"] = v
                return v

            # which picker field is being evaluated, and what the *recipe* says about it (the oracle
            # must not take `unique` / `parent` from the implementation's state)
            ctx = tr.cur_ctx
            field = tr.ctx_field.get(id(ctx))
            spec = tr.pickers.get(field[:2]) if field else None
            if isinstance(spec, dict):
                unique = bool(spec.get("unique"))
            else:
                unique = isinstance(getattr(randomizer_func, "__self__", None), RC) and spec is None
            site, parent = tr.ctx_site.get(id(ctx), (None, None))
            if isinstance(spec, dict) and not spec.get("parent"):
                parent = None
            ev = {"run": tr.run_index, "iter": tr.iter_index, "n": tr.emitted_now(), "name": name,
                  "scope": scope, "unique": unique, "site": site, "parent": parent,
                  "field": field}
            tr.picks.append(ev)
            try:
                res = o_rrr(h, name, scope, f)
            except BaseException as e:  # noqa
                ev.update(ok=False, exc=type(e).__name__, msg=str(e)[:120], range=seen.get("range"))
                if "range" in seen and "draw" not in seen:
                    h._verif_run["ops"].append({"op": ["range", name, scope], "range": seen["range"], "exc": type(e).__name__})
                elif "draw" in seen:
                    h._verif_run["ops"].append({"op": ["pick", name, scope, seen["draw"]], "err": type(e).__name__, "range": seen["range"]})
                else:
                    h._verif_run["ops"].append({"op": ["range", name, scope], "err": type(e).__name__})
                raise
            ev.update(ok=True, table=res._tablename, id=res.id, range=seen.get("range"), draw=seen.get("draw"))
            h._verif_run["ops"].append({"op": ["pick", name, scope, seen.get("draw")], "range": seen.get("range"),
                                        "obs": ["picked", res._tablename, res.id], "st": digest(h)})
            return res

        def resave(interp, globls, tables):
            # the model's `Op.resave`: the re-saves followed by `reset_locals()` (fix 9826fcb)
            tr.in_resave = []
            h = interp.row_history
            # inputs of the selection rule (`History.resaveRows`): the two persistent registries
            h._verif_run["resave_in"] = {
                "pn": [[k, o._tablename, o.id] for k, o in globls.persistent_nicknames.items()],
                "pt": [[k, o.id] for k, o in globls.persistent_objects_by_table.items()],
                "hist": sorted(tables)}
            try:
                rv = o_resave(interp, globls, tables)
            except Exception as e:  # noqa
                h._verif_run["ops"].append({"op": ["resave", tr.in_resave], "err": type(e).__name__})
                raise
            finally:
                rows, tr.in_resave = tr.in_resave, None
            h._verif_run["ops"].append({"op": ["resave", rows], "obs": ["ok"], "st": digest(h)})
            h._verif_run["resave_rows"] = rows
            return rv

        def loop_once(interp, statement_list, continuing):
            if statement_list is interp.statements:
                tr.interp = interp
                tr.iter_index += 1
                tr.iter_marks.append((tr.emitted_now(), tr.run_index, tr.iter_index))
            return o_loop(interp, statement_list, continuing)

        def gcs(interp, *, make_state_func, name=None, parent=None, reset_every_iteration=False):
            made = []

            def mk():
                v = make_state_func()
                made.append(v)
                return v

            rv = o_gcs(interp, make_state_func=mk, name=name, parent=parent, reset_every_iteration=reset_every_iteration)
            if isinstance(rv, RC):
                pobj = interp.current_context.field_vars().get(parent) if parent else None
                pkey = [pobj._tablename, pobj.id] if pobj is not None and hasattr(pobj, "_tablename") else None
                site = f"{tr.run_index}:{name!r}"
                tr.sites.setdefault(site, []).append((pkey, bool(made)))
                tr.ctx_site[id(rv)] = (site, pkey)
                tr.keep.append(rv)
            return rv

        def rc_init(ctx, *a, **k):
            o_rcinit(ctx, *a, **k)
            tr.keep.append(ctx)
            if ctx.unique:
                tr.uctx[id(ctx)] = {"reqs": [], "outs": [], "gens": {}, "n_gens": 0}
                tr.uorder.append(id(ctx))

        def unique_random(ctx, a, b):
            u = tr.uctx[id(ctx)]
            u["reqs"].append([a, b])
            prev = tr.cur_uctx
            tr.cur_uctx = u
            try:
                v = o_uniq(ctx, a, b)
            except StopIteration:
                u["outs"].append(["stop"])
                raise
            except AssertionError:
                u["outs"].append(["assertion"])
                raise
            finally:
                tr.cur_uctx = prev
            u["outs"].append(["value", v])
            return v

        def random_range(x, y):
            u = tr.cur_uctx
            g = o_rr(x, y)
            if u is None:
                return g
            idx = u["n_gens"]
            u["n_gens"] += 1

            def it():
                while True:
                    prev = tr.cur_gen
                    tr.cur_gen = (u, idx)
                    try:
                        v = next(g)
                    except StopIteration:
                        return
                    finally:
                        tr.cur_gen = prev
                    yield v

            return it()

        def randint_global(lo, hi):
            if tr.cur_gen is not None:
                u, idx = tr.cur_gen
                v = tr.draws.randint(lo, hi)
                u["gens"].setdefault(idx, []).append(v)
                return v
            return o_randint(lo, hi)

        def randint_rh(lo, hi):
            return tr.draws.randint(lo, hi)

        RH.__init__, RH.save_row, RH.reset_locals, RH.random_row_reference = init, save, reset, rrr
        IN.resave_objects_from_continuation, IN.loop_over_templates_once, IN.get_contextual_state = resave, loop_once, gcs
        RC.unique_random, RC.__init__, RC.next = unique_random, rc_init, rc_next
        rr.random_range, rh.randint, pyrandom.randint = random_range, randint_rh, randint_global
        om.FieldFactory.generate_value = generate_value
        try:
            yield self
        finally:
            RH.__init__, RH.save_row, RH.reset_locals, RH.random_row_reference = o_init, o_save, o_reset, o_rrr
            IN.resave_objects_from_continuation, IN.loop_over_templates_once, IN.get_contextual_state = o_resave, o_loop, o_gcs
            RC.unique_random, RC.__init__, RC.next = o_uniq, o_rcinit, o_rcnext
            rr.random_range, rh.randint, pyrandom.randint = o_rr, o_randint_rh, o_randint
            om.FieldFactory.generate_value = o_genval


class Chain:
    pass


def run_chain(case):
    recipe = yaml.safe_load(case["recipe"])
    meta = analyse(recipe, case.get("files"))
    tr = Tracer(Draws(case.get("dseed", 0), case.get("forced", ())))
    tr.univ = meta["names"]
    tr.pickers = {k: ({"to": v} if isinstance(v, str) else v) for k, v in meta["pickers"].items()}
    ch = Chain()
    ch.meta, ch.trace, ch.results, ch.outcome, ch.error = meta, tr, [], "ok", None
    emitted = []
    cont = None
    with tr.installed():
        for k in case["parts"]:
            tr.row_offset = len(emitted)
            tr.interp = None
            res = common.run_recipe(case["recipe"], reps=k, continuation=cont, want_continuation=True,
                                    files=case.get("files"))
            ch.results.append(res)
            emitted.extend(res.rows)
            if res.outcome != "ok":
                ch.outcome, ch.error = res.outcome, res.error
                break
            cont = res.continuation
    # emitted rows with their iteration
    starts = [m[0] for m in tr.iter_marks]
    rows = []
    for i, (table, fields) in enumerate(emitted):
        j = bisect.bisect_right(starts, i) - 1
        d = dict(fields)
        rows.append({"table": table, "id": d.get("id"), "tpl": d.get("tpl"), "fields": fields,
                     "run": tr.iter_marks[j][1] if j >= 0 else -1, "iter": tr.iter_marks[j][2] if j >= 0 else -1})
    ch.rows = rows
    return ch


# ------------------------------------------------------------------ direct oracle


def oracle(rep, case, ch):
    meta, rows, tr = ch.meta, ch.rows, ch.trace
    index = {}
    for i, r in enumerate(rows):
        index.setdefault((r["table"], r["id"]), i)
    used = {}  # (run, site, parent) -> set of targets
    last_lo = {}  # (run, site, parent) -> bottom of the last range handed to the unique picker

    def viol(sig, what, expected=None, observed=None):
        rep.violation(sig, what, {k: case[k] for k in ("recipe", "parts", "dseed", "forced", "files") if k in case}, expected, observed)

    def out_of_order(table, n):
        ids = [r["id"] for r in rows[:n] if r["table"] == table]
        return ids != list(range(1, len(ids) + 1))

    for ev in tr.picks:
        X, n = ev["name"], ev["n"]
        is_nick = X in meta["nick2table"]
        want_table = meta["nick2table"].get(X, X)

        def matches(r):
            return r["table"] == want_table and (not is_nick or meta["tpl_nick"].get(r["tpl"]) == X)

        before = [r for r in rows[:n] if matches(r)]
        cur = [r for r in before if (r["run"], r["iter"]) == (ev["run"], ev["iter"])]
        eligible = before if ev["scope"] == PRIOR else (cur or before)
        ooo = ":ids-out-of-order" if out_of_order(want_table, n) else ""
        where = f"run {ev['run']} iteration {ev['iter']}, after {n} emitted rows: random_reference {X}"
        # scope of uniqueness: the run, the picker field (call site), the parent row named by `parent:`
        key = (ev["run"], ev["field"], tuple(ev["parent"]) if ev["parent"] else None)
        U = used.setdefault(key, set()) if ev["unique"] else set()
        # did the bottom of the range handed to this unique picker move down (whole-table fallback
        # after the range had moved up)?
        moved_down = False
        if ev["unique"] and ev.get("range"):
            prev = last_lo.get(key)
            moved_down = prev is not None and ev["range"][0] < prev
            if ev["ok"] or not moved_down:
                last_lo[key] = ev["range"][0]
        if not ev["ok"]:
            exc, msg = ev["exc"], ev.get("msg", "")
            if ev["unique"] and exc in ("StopIteration", "AssertionError") and ev.get("range") is not None:
                free = [r for r in eligible if (r["table"], r["id"]) not in U]
                if free and not (is_nick and meta["hostile"]):
                    kind = "exhausted-early" if exc == "StopIteration" else "internal-AssertionError"
                    q = ooo
                    if not q and exc == "AssertionError" and moved_down:
                        q = ":range-bottom-moved-down"
                    elif not q and not cur and all(r["run"] < ev["run"] for r in free):
                        q = ":earlier-run-rows-not-resaved"
                    viol(f"C10:unique-{kind}{q}",
                         f"{where} (unique) failed with {exc} {msg} although unused eligible targets exist",
                         [[r["table"], r["id"]] for r in free], exc)
            elif eligible and not meta["hostile"] and exc in ("DataGenError", "AssertionError") and ev["scope"] in (CUR, PRIOR):
                q = ooo
                # just_once rows must be known after a continuation; ordinary nicknamed rows of an
                # earlier run are not (finding D52)
                if not q and is_nick and all(r["run"] < ev["run"] and r["tpl"] not in meta["tpl_just_once"] for r in eligible):
                    q = ":nickname-rows-of-earlier-run-unknown"
                viol(f"C10:pick-fails-although-eligible{q}", f"{where} failed ({exc}: {msg}) although eligible rows exist",
                     [[r["table"], r["id"]] for r in eligible], msg)
            continue
        tgt = (ev["table"], ev["id"])
        if ev["table"] != want_table:
            viol("C10:wrong-table", f"{where} returned a row of table {ev['table']}", want_table, list(tgt))
            continue
        i = index.get(tgt)
        if i is None or i >= n:
            viol(f"C10:target-not-yet-created{ooo}",
                 f"{where} returned {ev['table']}({ev['id']}) which has not been created at that point",
                 [[r["table"], r["id"]] for r in eligible], list(tgt))
            continue
        r = rows[i]
        if is_nick and not matches(r) and not meta["hostile"]:
            viol("C10:wrong-nickname", f"{where} returned {ev['table']}({ev['id']}) created under nickname {meta['tpl_nick'].get(r['tpl'])!r}",
                 X, meta["tpl_nick"].get(r["tpl"]))
            continue
        if ev["scope"] != PRIOR and cur and (r["run"], r["iter"]) != (ev["run"], ev["iter"]):
            q = ooo
            if not q and is_nick and r["run"] < ev["run"] and ev["iter"] == 0:
                q = ":resaved-just-once-row"
            viol(f"C10:earlier-iteration-although-current-exists{q}",
                 f"{where} returned {ev['table']}({ev['id']}) of run {r['run']} iteration {r['iter']} although rows of the current iteration exist",
                 [[c["table"], c["id"]] for c in cur], list(tgt))
            continue
        if ev["unique"]:
            if tgt in U:
                viol(f"C10:unique-repeat{ooo}", f"{where} (unique) returned {ev['table']}({ev['id']}) a second time for the same scope {key}",
                     "pairwise distinct", list(tgt))
                continue
            U.add(tgt)
    # cells <-> events (multisets); only for rows that were emitted
    cells = {}
    for r in rows:
        for k, v in r["fields"]:
            spec = meta["pickers"].get((r["table"], k))
            if spec is not None and isinstance(v, dict) and v.get("t") == "ref":
                c = (spec["to"], v["table"], v["id"])
                cells[c] = cells.get(c, 0) + 1
    evs = {}
    for ev in tr.picks:
        if ev["ok"]:
            c = (ev["name"], ev["table"], ev["id"])
            evs[c] = evs.get(c, 0) + 1
    bad = [c for c, k in cells.items() if evs.get(c, 0) < k]
    if not bad and ch.outcome == "ok":
        bad = [c for c, k in evs.items() if cells.get(c, 0) != k]
    if bad:
        viol("C10:cells-differ-from-picks", f"reference cells {bad[:3]} do not correspond to what random_row_reference returned",
             sorted(evs.items())[:10], sorted(cells.items())[:10])


# ------------------------------------------------------------------ model correspondence


EXC2ERR = {"noRows": ("DataGenError",), "badScope": ("DataGenError",), "notFound": ("AssertionError",),
           "integrity": ("IntegrityError",), "noTable": ("OperationalError",)}


def model_requests(ch):
    tr = ch.trace
    reqs, meta = [], []
    for ri, run in enumerate(tr.runs):
        ops = []
        for o in run["ops"]:
            ops.append(o["op"])
        reqs.append({"m": "c10.history", "counters": run["counters"], "tables": run["tables"],
                     "nickmap": run["nickmap"], "univ": tr.univ, "ops": ops})
        meta.append(("history", ri))
        if "resave_rows" in run:
            reqs.append(dict(run["resave_in"], m="c10.resave_rows"))
            meta.append(("resave_rows", ri))
        reqs.append({"m": "c10.hist_tables", "names": run["nickmap"],
                     "refs": sorted({s["to"] for s in ch.meta["pickers"].values()})})
        meta.append(("hist_tables", ri))
    for cid in tr.uorder:
        u = tr.uctx[cid]
        if not u["reqs"]:
            continue
        draws = [((u["gens"].get(i) or []) + [0, 0])[:2] for i in range(u["n_gens"])]
        reqs.append({"m": "c10.unique", "reqs": u["reqs"], "draws": draws})
        meta.append(("unique", cid))
    for site, calls in tr.sites.items():
        # instance_states does not survive a run: one sequence per run is what the model replays
        reqs.append({"m": "c10.ctx", "parents": [p for p, _ in calls]})
        meta.append(("ctx", site))
    return reqs, meta


def compare(rep, case, ch, reqs, meta, results):
    tr = ch.trace
    cs = {k: case[k] for k in ("recipe", "parts", "dseed", "forced", "files") if k in case}
    nops = 0
    for (kind, key), req, (st, val) in zip(meta, reqs, results):
        if st != "ok":
            rep.disagreement("c10." + kind + ":model-error", cs, val, None)
            continue
        if kind == "history":
            run = tr.runs[key]
            if val["st0"] != run.get("st0"):
                rep.disagreement("c10.history:init", cs, val["st0"], run.get("st0"))
                continue
            mt = val["trace"]
            for i, real in enumerate(run["ops"]):
                if i >= len(mt):
                    rep.disagreement("c10.history:model-trace-shorter", cs, mt[-1:] or None, {"index": i, "code": real})
                    break
                m = mt[i]
                if "err" in real:
                    if "err" not in m or real["err"] not in EXC2ERR.get(m["err"], ()):
                        rep.disagreement("c10.history:error", cs, m, {"index": i, "code": real})
                    nops += 1
                    break
                if "err" in m:
                    rep.disagreement("c10.history:model-error-code-ok", cs, m, {"index": i, "code": real})
                    break
                if real["op"][0] == "range":
                    if m["obs"][0] != "range" or m["obs"][3:5] != real["range"]:
                        rep.disagreement("c10.history:range", cs, m["obs"], {"index": i, "code": real})
                        break
                    nops += 1
                    continue
                mobs = m["obs"]
                if real["op"][0] == "pick":
                    if mobs[:3] != real["obs"] or mobs[5:7] != real["range"]:
                        rep.disagreement("c10.history:pick", cs, mobs, {"index": i, "code": real})
                        break
                elif mobs != real["obs"]:
                    rep.disagreement("c10.history:obs", cs, mobs, {"index": i, "code": real})
                    break
                if m["st"] != real["st"]:
                    diff = {k: (real["st"][k], m["st"][k]) for k in real["st"] if real["st"][k] != m["st"].get(k)}
                    rep.disagreement("c10.history:state", cs, diff, {"index": i, "op": real["op"]})
                    break
                nops += 1
        elif kind == "resave_rows":
            run = tr.runs[key]
            if val != run["resave_rows"]:
                rep.disagreement("c10.resave_rows", cs, val, {"in": run["resave_in"], "resaved": run["resave_rows"]})
            rep.count("resave:rows", len(val))
            if len(val) >= 2:
                rep.count("resave:runs-with>=2-rows")
        elif kind == "hist_tables":
            run = tr.runs[key]
            if sorted(val) != run["tables"]:
                rep.disagreement("c10.hist_tables", cs, sorted(val), run["tables"])
        elif kind == "unique":
            u = tr.uctx[key]
            if val != u["outs"]:
                rep.disagreement("c10.unique", cs, val, {"reqs": u["reqs"], "outs": u["outs"]})
            nops += len(u["outs"])
        elif kind == "ctx":
            calls = tr.sites[key]
            # a new run starts with empty instance_states: split the sequence where the model cannot know
            code = [f for _, f in calls]
            if val != code:
                # tolerate run boundaries: the first call of a later run is fresh
                rep.disagreement("c10.ctx", cs, val, {"site": key, "calls": calls})
            nops += len(calls)
    rep.count("ops-validated", nops)


# ------------------------------------------------------------------ case generation

TARGET_TABLES = ["T", "U"]
NICKS = ["n", "m"]


class Gen:
    def __init__(self, rng):
        self.rng = rng
        self.tpl = 0
        self.fld = 0
        self.declared = []  # names with at least one row so far in an iteration (layout-aware)
        self.features = set()

    def count(self, t, hi=6):
        c = self.rng.choice([0, 1, 1, 2, 2, 3, 3, 4, 5, hi]) if self.rng.random() < 0.8 else self.rng.randint(0, hi)
        if c != 1 or self.rng.random() < 0.3:
            t["count"] = c
        return c

    def target(self, table=None, nick="?", just_once=False, count=None, top=True):
        rng = self.rng
        self.tpl += 1
        t = {"object": table or rng.choice(TARGET_TABLES if rng.random() < 0.3 else ["T"])}
        if nick == "?":
            nick = rng.choice(NICKS) if rng.random() < 0.45 else None
        if nick:
            t["nickname"] = nick
            self.features.add("nickname")
        if just_once:
            t["just_once"] = True
            self.features.add("just_once")
        if count is None:
            c = self.count(t)
        else:
            c = count
            if c != 1:
                t["count"] = c
        t["fields"] = {"tpl": self.tpl}
        if c > 0:
            self.declared.append(t["object"])
            if nick and top:
                self.declared.append(nick)
        return t

    def ref_name(self):
        rng = self.rng
        if self.declared and rng.random() < 0.93:
            return rng.choice(self.declared)
        return rng.choice(TARGET_TABLES + NICKS)

    def picker_field(self, to=None, unique=None, parent=None):
        rng = self.rng
        self.fld += 1
        to = to or self.ref_name()
        if unique is None:
            unique = rng.random() < 0.35
        spec = {"to": to}
        if unique:
            spec["unique"] = True
            self.features.add("unique")
        if parent:
            spec["parent"] = parent
            self.features.add("parent")
        if rng.random() < 0.06:
            spec["scope"] = PRIOR
            self.features.add("prior-scope")
        if list(spec) == ["to"] and rng.random() < 0.6:
            spec = to
        return f"r{self.fld}", {"random_reference": spec}

    def picker(self, table=None, count=None, nfields=None, **kw):
        rng = self.rng
        t = {"object": table or rng.choice(["P", "Q"])}
        if count is None:
            self.count(t)
        elif count != 1:
            t["count"] = count
        f = {}
        for _ in range(nfields or rng.choice([1, 1, 1, 2])):
            k, v = self.picker_field(**kw)
            f[k] = v
        t["fields"] = f
        return t

    def recipe(self):
        rng = self.rng
        layout = rng.choice(["table", "nick", "multi", "forward", "nested", "just_once", "unique_counts",
                             "unique_growth", "parent", "resave", "varying", "varying", "shared", "shared", "hostile", "hostile", "mixed", "mixed", "mixed"])
        self.features.add("layout:" + layout)
        rec = []
        if layout == "table":
            rec.append(self.target("T", None))
            rec.append(self.picker(to="T"))
        elif layout == "nick":
            rec.append(self.target("T", "n"))
            if rng.random() < 0.7:
                rec.append(self.target("T", rng.choice([None, "m"])))
            rec.append(self.picker(to="n"))
            if rng.random() < 0.4:
                rec.append(self.picker(to=rng.choice(["T", "m", "n"])))
        elif layout == "multi":
            for nk in rng.sample([None, "n", "m", None], rng.randint(2, 4)):
                rec.append(self.target("T", nk))
                if rng.random() < 0.4:
                    rec.append(self.picker())
            rec.append(self.picker(nfields=2))
        elif layout == "forward":
            a = {"object": "A", "fields": {"fwd": {"reference": "n"}}}
            rec.append(a)
            if rng.random() < 0.8:
                rec.append(self.target("T", None, count=rng.choice([1, 2, 3])))
                rec.append(self.picker(to="T", count=rng.choice([1, 2, 3])))
            rec.append(self.target("T", "n", count=1))
            if rng.random() < 0.6:
                rec.append(self.picker(to=rng.choice(["T", "n"])))
            self.features.add("forward-reserved")
        elif layout == "nested":
            k = rng.choice(["picker-friend-of-target", "target-in-wrapper", "target-friend", "picker-in-wrapper", "same-table-nested"])
            self.features.add("nested:" + k)
            if k == "picker-friend-of-target":
                t = self.target("T", rng.choice([None, "n"]))
                t["friends"] = [self.picker(to=rng.choice(["T"] + ([t["nickname"]] if t.get("nickname") else [])), count=rng.choice([1, 1, 2]))]
                rec.append(t)
            elif k == "target-in-wrapper":
                inner = self.target("T", None, top=False)
                w = {"object": "W", "fields": {"c": [inner]}}
                self.count(w, 3)
                rec.append(w)
                rec.append(self.picker(to="T"))
            elif k == "target-friend":
                inner = self.target("T", None, top=False)
                w = {"object": "W", "friends": [inner]}
                self.count(w, 3)
                rec.append(w)
                rec.append(self.picker(to="T"))
            elif k == "picker-in-wrapper":
                rec.append(self.target("T", rng.choice([None, "n"])))
                p = self.picker()
                w = {"object": "W", "fields": {"c": [p]}}
                self.count(w, 3)
                rec.append(w)
            else:
                inner = self.target("T", None, count=1, top=False)
                inner["friends"] = [self.picker(to="T", count=1)]
                outer = self.target("T", None, count=rng.choice([1, 2]))
                outer["fields"]["c"] = [inner]
                rec.append(outer)
                self.features.add("forward-reserved")
        elif layout == "just_once":
            rec.append(self.target("T", rng.choice([None, "n"]), just_once=True, count=rng.choice([1, 1, 2, 3])))
            if rng.random() < 0.6:
                rec.append(self.target("T", rng.choice([None, "n", "m"])))
            rec.append(self.picker())
            if rng.random() < 0.4:
                rec.insert(rng.randint(0, 1), self.picker(to=rng.choice(["T", "n"])))
        elif layout == "hostile":
            # hostile names, each referenced by random_reference under that very name:
            #  other-table: a nickname spelled like ANOTHER table's name (C02/D57: the name is a table)
            #  own-table:   a nickname equal to its own table's name
            #  shared:      one nickname on templates of two tables (D02 territory)
            kind = rng.choice(["other-table", "other-table", "own-table", "shared"])
            self.features.add("hostile:" + kind)
            if kind == "other-table":
                first = [self.target("T", None, count=rng.randint(1, 3))]
                second = [self.target("U", "T", count=rng.randint(1, 4))]
                if rng.random() < 0.5:
                    second[0]["fields"]["r0"] = {"random_reference": "T"}
                order = first + second if rng.random() < 0.7 else second + first
                rec.extend(order)
                for _ in range(rng.randint(1, 2)):
                    rec.append(self.picker(to=rng.choice(["T", "T", "U"]), unique=rng.random() < 0.3))
            elif kind == "own-table":
                rec.append(self.target("T", "T", count=rng.randint(1, 4)))
                if rng.random() < 0.5:
                    rec.append(self.target("T", rng.choice([None, "n"]), count=rng.randint(1, 2)))
                for _ in range(rng.randint(1, 2)):
                    rec.append(self.picker(to="T", unique=rng.random() < 0.3))
            else:
                rec.append(self.target("T", "n", count=rng.randint(1, 3)))
                rec.append(self.target("U", "n", count=rng.randint(1, 3)))
                for _ in range(rng.randint(1, 2)):
                    rec.append(self.picker(to=rng.choice(["n", "T", "U"]), unique=rng.random() < 0.3))
        elif layout == "shared":
            # ONE piece of recipe text supplies the picker field to 2-3 templates: a macro (in the
            # recipe or in an included file), a YAML anchor/alias, a `<<:` merge key.  Each template
            # is its own call site: its unique picker uses every target and never repeats, whatever
            # the other templates took
            mode = rng.choice(["macro", "macro", "anchor", "merge", "include_file"])
            self.features.add("shared:" + mode)
            a = rng.randint(1, 5)
            nk = rng.choice([None, None, "n"])
            rec.append(self.target("T", nk, count=a))
            unique = rng.random() < 0.75
            with_parent = rng.random() < 0.3
            spec = {"to": nk or "T"}
            if unique:
                spec["unique"] = True
                self.features.add("unique")
            if with_parent:
                spec["parent"] = "C"
                self.features.add("parent")
            if rng.random() < 0.15:
                spec["scope"] = PRIOR
                self.features.add("prior-scope")
            shared_fields = {"r": {"random_reference": spec if len(spec) > 1 or rng.random() < 0.5 else spec["to"]}}
            if with_parent:
                shared_fields["par"] = {"reference": "C"}
            n_users = rng.choice([2, 2, 3])
            users = []
            for i, tb in enumerate(rng.sample(["P", "Q", "M"], n_users)):
                b = rng.choice([a, a, a, a + 1, max(a - 1, 1), rng.randint(1, 5)])
                u = {"object": tb}
                if b != 1:
                    u["count"] = b
                if mode in ("macro", "include_file"):
                    u["include"] = "shared"
                    if rng.random() < 0.3:
                        u["fields"] = {"x": i}
                elif mode == "anchor":
                    u["fields"] = shared_fields  # same object twice: dumped as &id / *id
                else:
                    u["fields"] = {"<<": shared_fields, "x": i}
                users.append(u)
            if mode == "macro":
                rec.insert(rng.randint(0, 1), {"macro": "shared", "fields": shared_fields})
            elif mode == "include_file":
                self.files = {"child.yml": yaml.safe_dump([{"macro": "shared", "fields": shared_fields}], sort_keys=False)}
                rec.insert(0, {"include_file": "child.yml"})
            if with_parent:
                rec.append({"object": "C", "count": rng.randint(1, 3), "friends": users})
            else:
                placement = rng.choice(["top", "top", "friends", "nested", "mixed"])
                self.features.add("shared:placement:" + placement)
                for i, u in enumerate(users):
                    how = placement if placement != "mixed" else ["top", "friends", "nested"][i % 3]
                    if how == "top":
                        rec.append(u)
                    elif how == "friends":
                        rec.append({"object": "W", "count": rng.choice([1, 2]), "friends": [u]})
                    else:
                        rec.append({"object": "W", "count": rng.choice([1, 2]), "fields": {"c%d" % i: [u]}})
        elif layout == "varying":
            # the number of new targets per iteration varies, INCLUDING ZERO (count formula over a
            # one-row-per-iteration Tick table); unique pickers live across all iterations, with more
            # picks than fresh targets in some iterations: the eligible range grows, moves up, and
            # falls back to the whole table (bottom moves down) within one picker's life
            self.n_iter = rng.randint(3, 5)
            counts = [rng.choice([0, 0, 1, 2, 3]) for _ in range(self.n_iter)]
            if rng.random() < 0.7:
                counts[0] = rng.choice([1, 2, 3])
                counts[rng.randint(2, self.n_iter - 1)] = 0
            expr = "0"
            for i in range(self.n_iter - 1, -1, -1):
                expr = f"({counts[i]} if Tick.id == {i + 1} else {expr})"
            rec.append({"object": "Tick"})
            nk = rng.choice([None, None, "n"])
            if rng.random() < 0.25:
                rec.append(self.target("T", nk, just_once=True, count=rng.choice([1, 2])))
            self.tpl += 1
            t = {"object": "T", "count": "${{ %s }}" % expr, "fields": {"tpl": self.tpl}}
            if nk:
                t["nickname"] = nk
            rec.append(t)
            self.declared += ["T"] + ([nk] if nk else [])
            rec.append(self.picker(to=nk or "T", unique=True, count=rng.choice([1, 1, 2, 3]), nfields=1))
            if rng.random() < 0.3:
                rec.append(self.picker(to="T", unique=rng.random() < 0.6, count=rng.choice([1, 2]), nfields=1))
            self.features.add("varying:zero-after-move" if any(c == 0 for c in counts[2:]) and sum(1 for c in counts if c) >= 2 else "varying:other")
        elif layout == "resave":
            # several just_once rows over two tables, by nickname and by table name, equal ids across
            # tables (what `resave_objects_from_continuation` must de-duplicate by (table, id))
            for tb, nk in rng.sample([("T", "n"), ("U", None), ("T", None), ("U", "m"), ("U", "n")], rng.randint(2, 4)):
                if nk and any(x.get("nickname") == nk and x["object"] != tb for x in rec):
                    continue
                rec.append(self.target(tb, nk, just_once=True, count=rng.choice([1, 1, 2])))
            if rng.random() < 0.5:
                rec.append(self.target(rng.choice(["T", "U"]), None))
            for _ in range(rng.randint(1, 3)):
                rec.append(self.picker(count=rng.choice([1, 2])))
        elif layout == "unique_counts":
            a = rng.randint(0, 6)
            b = rng.choice([a, a, a + 1, a + 1, max(a - 1, 0), rng.randint(0, 6)])
            nk = rng.choice([None, "n"])
            rec.append(self.target("T", nk, count=a))
            if rng.random() < 0.3:
                rec.append(self.target("T", "m" if nk else None, count=rng.randint(0, 2)))
            rec.append(self.picker(to=nk or "T", unique=True, count=b, nfields=1))
            self.features.add("unique:pickers-minus-targets=%+d" % (b - a) if abs(b - a) <= 1 else "unique:other")
        elif layout == "unique_growth":
            t = self.target("T", rng.choice([None, "n"]), count=rng.randint(1, 6))
            t["friends"] = [self.picker(to=t.get("nickname") or "T", unique=True, count=1, nfields=1)]
            rec.append(t)
            if rng.random() < 0.3:
                rec.append(self.picker(to="T", unique=True, nfields=1, count=rng.randint(0, 6)))
        elif layout == "parent":
            a = rng.randint(1, 5)
            rec.append(self.target("T", rng.choice([None, "n"]), count=a))
            m = rng.choice([a, a, a + 1, max(a - 1, 1), rng.randint(1, 5)])
            pk = self.picker(table="M", to=rec[0].get("nickname") or "T", unique=True, parent="C", count=m, nfields=1)
            pk["fields"]["par"] = {"reference": "C"}
            c = {"object": "C", "count": rng.randint(1, 3), "friends": [pk]}
            rec.append(c)
        else:
            for _ in range(rng.randint(2, 5)):
                r = rng.random()
                if r < 0.45:
                    rec.append(self.target(just_once=rng.random() < 0.15))
                elif r < 0.9:
                    rec.append(self.picker())
                else:
                    t = self.target()
                    t["friends"] = [self.picker(count=1)]
                    rec.append(t)
            if not any("random_reference" in str(x) for x in rec):
                rec.append(self.picker())
        return rec


def gen_case(rng):
    g = Gen(rng)
    rec = g.recipe()
    k = rng.randint(1, 4)
    parts = common_compositions(k, rng) if rng.random() < 0.45 else [k]
    if "layout:varying" in g.features:
        k = g.n_iter
        parts = [k] if rng.random() < 0.8 else common_compositions(k, rng)
    if "layout:resave" in g.features and len(parts) < 2:
        parts = [1] + common_compositions(rng.randint(1, 3), rng)
    if len(parts) > 1:
        g.features.add("continuation")
    case = {"recipe": yaml.safe_dump(rec, sort_keys=False).replace("'<<':", "<<:"), "parts": parts,
            "dseed": rng.randint(0, 10**9), "features": sorted(g.features)}
    if getattr(g, "files", None):
        case["files"] = g.files
    return case


def common_compositions(k, rng):
    parts, left = [], k
    while left > 0:
        p = rng.randint(1, left)
        parts.append(p)
        left -= p
    return parts


FIXED = [
    # C02/D57 (fixed by 07a822a): a nickname spelled like another table's name; `random_reference: A` is a TABLE pick
    {"recipe": '- object: A\n  fields:\n    tpl: 1\n- object: C\n  nickname: A\n  count: 3\n  fields:\n    tpl: 2\n    r:\n      random_reference: A\n', "parts": [2], "dseed": 7, "forced": ["lo", "hi", "hi", "hi", "hi", "hi"]},
    # the C02/D57 recipe itself (picker fields renamed r1..r3: this harness keys picker specs by (table, field))
    {"recipe": '- object: C\n  nickname: n3\n  count: 2\n  fields:\n    f0: 7\n    tpl: 1\n- object: A\n  nickname: n2\n  count: 1\n  fields:\n    f0: 1\n    f1:\n      reference: B\n    tpl: 2\n  friends:\n  - object: C\n    fields:\n      f0: 1\n      parent:\n        reference: A\n      r1:\n        random_reference: C\n  - object: C\n    count: 0\n    fields:\n      f0:\n        reference: C\n      f1:\n        reference: n3\n      parent:\n        reference: A\n    friends:\n    - object: C\n      count: 0\n- object: C\n  nickname: A\n  count: 2\n  fields:\n    r2:\n      random_reference: C\n    r3:\n      random_reference: A\n    tpl: 3\n- object: B\n  nickname: n3\n  count: 2\n  fields:\n    f0:\n      reference: n2\n    f1: 1\n    f2: x\n', "parts": [2], "dseed": 7},
    # C05's D48 scenario (fixed by 5da9efa): J(1) known by nickname, U(1) by table name: both must be re-saved
    {"recipe": "- object: T\n  nickname: n\n  just_once: true\n  fields:\n    tpl: 1\n- object: U\n  just_once: true\n  fields:\n    tpl: 2\n- object: P\n  fields:\n    r1:\n      random_reference: U\n    r2:\n      random_reference: n\n",
     "parts": [1, 2], "dseed": 3},
    # D06 layout (fixed upstream in the snapshot): unique with growth inside an iteration
    {"recipe": "- object: A\n  count: 5\n  fields:\n    tpl: 1\n  friends:\n  - object: B\n    fields:\n      a:\n        random_reference:\n          to: A\n          unique: true\n",
     "parts": [2], "dseed": 1},
    # the documented per-parent example
    {"recipe": "- object: T\n  count: 5\n  fields:\n    tpl: 1\n- object: C\n  count: 3\n  friends:\n  - object: M\n    count: 5\n    fields:\n      par:\n        reference: C\n      r:\n        random_reference:\n          to: T\n          parent: C\n          unique: true\n",
     "parts": [1, 1], "dseed": 2},
]


# ------------------------------------------------------------------ entry points


def run_case(case, rep, pending):
    ch = run_chain(case)
    tr = ch.trace
    npicks = sum(1 for e in tr.picks if e["ok"])
    rep.case({k: case[k] for k in ("recipe", "parts", "dseed", "forced", "files") if k in case}, nontrivial=npicks >= 1 and len(ch.rows) >= 2)
    rep.count("outcome:" + ch.outcome.split(":")[0])
    if ch.outcome.startswith("internal"):
        rep.count("outcome-detail:" + ch.outcome)
    for f in case.get("features", []):
        rep.count("feature:" + f)
    rep.count("runs:%d" % len(case["parts"]))
    rep.count("iterations:%d" % sum(case["parts"]))
    rep.count("picks:ok", npicks)
    rep.count("picks:failed", sum(1 for e in tr.picks if not e["ok"]))
    rep.count("picks:unique", sum(1 for e in tr.picks if e["unique"]))
    rep.count("picks:by-nickname", sum(1 for e in tr.picks if e["name"] in ch.meta["nick2table"]))
    rep.count("picks:fallback-to-earlier", sum(1 for e in tr.picks if e["ok"] and e.get("range") and e["range"][0] == 1 and e["iter"] + e["run"] > 0))
    if tr.picks and not tr.picks[0]["ok"] and tr.picks[0].get("range") is None and not tr.picks[0]["unique"]:
        rep.count("picker-before-any-target")
    for u in tr.uctx.values():
        for o in u["outs"]:
            rep.count("unique:" + o[0])
    oracle(rep, case, ch)
    pending.append((case, ch))


def flush(pending, rep):
    allreq, spans = [], []
    for case, ch in pending:
        reqs, meta = model_requests(ch)
        spans.append((case, ch, reqs, meta, len(allreq)))
        allreq.extend(reqs)
    res = common.model_batch(allreq)
    for case, ch, reqs, meta, off in spans:
        compare(rep, case, ch, reqs, meta, res[off: off + len(reqs)])
        rep.traces_validated += 1
    pending.clear()


def run(ctx, rep, findings):
    rep.rule = (
        "recipes built from layouts {target by table, by nickname, several templates feeding one table, "
        "forward-reserved ids, nested/friend placement (picker friend of target, target in wrapper, target as friend, "
        "picker nested, same-table nesting), just_once targets, unique with (targets, pickers) in 0..6 incl. "
        "pickers = targets and targets + 1, unique with growth inside an iteration, unique per parent, varying number of new targets per iteration incl. zero (Tick-driven count formulas), re-save layouts, one field text shared by 2-3 templates through a macro / YAML alias / merge key / included file, hostile names (nickname = another table's name, = its own table, shared by two tables) referenced by that name, mixed} x 1-4 "
        "iterations x continuation compositions; every draw chosen by the harness (both ends forced 25% each). "
        "Non-trivial: at least one successful pick and >= 2 emitted rows. Distinct = distinct (recipe, parts, draw seed)."
    )
    pending = []
    fixed = [f["input"] for f in findings if f.get("input")] + list(ctx.corpus()) + FIXED
    for c in fixed:
        run_case(c, rep, pending)
    n = ctx.scale(1400, 14000)
    for i in range(n):
        run_case(gen_case(ctx.rng), rep, pending)
        if len(pending) >= 150:
            flush(pending, rep)
        if ctx.time_left() < 40:
            rep.notes.append("stopped early: time budget")
            break
    flush(pending, rep)


def replay(case, rep):
    pending = []
    run_case(case, rep, pending)
    flush(pending, rep)


def shrink(case, signature):
    """Reduce the chain, drop top-level templates, lower counts, while the same signature fails."""

    def fails(rec, parts):
        c = {"recipe": yaml.safe_dump(rec, sort_keys=False), "parts": parts, "dseed": case.get("dseed", 0),
             "forced": case.get("forced", ())}
        if case.get("files"):
            c["files"] = case["files"]
        r = common.Report("C10")
        try:
            oracle(r, c, run_chain(c))
        except Exception:  # noqa
            return False
        return any(v["signature"] == signature for v in r.violations)

    rec = yaml.safe_load(case["recipe"])
    parts = list(case["parts"])
    for cand in ([sum(parts)], [1], [2], [1, 1]):
        if cand != parts and sum(cand) <= sum(parts) and fails(rec, cand):
            parts = cand
            break
    rec = common.shrink_list(rec, lambda cand: fails(cand, parts))
    for t, _ in walk_templates(rec):
        while isinstance(t.get("count"), int) and t["count"] > 1:
            old = t["count"]
            t["count"] = old - 1
            if not fails(rec, parts):
                t["count"] = old
                break
    out = {"recipe": yaml.safe_dump(rec, sort_keys=False), "parts": parts, "dseed": case.get("dseed", 0),
           "forced": list(case.get("forced", ()))}
    if case.get("files"):
        out["files"] = case["files"]
    return out
