"""C06 — just_once rows are created exactly once per dataset."""
import json as _json

from . import common, l1, l1cases, recipes

SPEC = {
    "lean": ["SnowModel.Props.C06", "SnowModel.Props.C06L2", "SnowModel.Props.L1Bridge"],
    "pins": ["Runtime", "ObjectRows", "ObjectModel"],
    "technique": "Lean 4 theorems on the name registry of the L1 machine (persistent bindings survive every op sequence incl. save/load; lookup after a boundary yields the original row) + L2 theorems on the reference interpreter: after the first iteration of a dataset every run (later iterations, continued runs of any chain) equals the run of the recipe with its just_once templates removed; a table written only by top-level just_once templates gets all its rows in that first iteration; just_once friends never run + pinned skip rule `just_once and continuing` + trace correspondence + direct oracle on generated just_once layouts x iteration counts x continuation splits",
    "level_text": "Machine-checked proof that a just_once row's nickname and table-name bindings persist through any further history (iterations, continuation save/load) that does not create another just_once row under the same name, that after every boundary a lookup yields that row with its original table and id, and that it is shadowed only by same-name rows of the current iteration; for every recipe of the reference interpreter, every fuel, chain and finalSave: after the first iteration the run is exactly the run of the recipe without its just_once templates (`chain_first_then_dropOnce`, `justOnce_rows_only_first_iteration`, `justOnce_table_only_first_iteration`), and a just_once friend is never executed (`friends_justOnce_never_run`); the rule that a just_once template executes only when not `continuing` is pinned from the AST and exercised by the differential (rows per just_once template in the concatenated output == its count, all in iteration 0 of run 0).",
    "level_note": "Trusted: Lean kernel, py2lean, trace wrappers. Field values of the persisted rows after a continuation are C05's subject; the L2 differential (C03/C04) compares them value for value.",
    "assumptions": [],
}


def oracle_just_once(rep, prop, case, chain):
    meta = case.get("jo")
    if chain.outcome != "ok" or not meta:
        return
    total = meta["total"]
    # (1) J rows: exactly `total`, all in the first iteration of the first run
    its = chain.iterations
    first_rows = [dict(f) for t, f in (its[0] if its else []) if t == "J"]
    j_first = [d["id"] for d in first_rows]
    j_all = [dict(f)["id"] for t, f in chain.rows if t == "J"]
    if j_all != j_first or sorted(j_all) != list(range(1, total + 1)):
        rep.violation(f"{prop}:just-once-count", f"just_once table J: rows {j_all} (first iteration {j_first}), expected exactly ids 1..{total} in the first iteration of the first run",
                      case, list(range(1, total + 1)), j_all)
        return
    # the rows the names denote from the second iteration on: the last row created under the
    # nickname (v == 10 marks the nicknamed template) and the last just_once row of the table
    nick_rows = [d["id"] for d in first_rows if d.get("v") == 10]
    nick_last = nick_rows[-1] if nick_rows else None
    total = j_first[-1] if j_first else None
    # (2) later iterations: references by nickname / table name denote the original rows
    for i, it in enumerate(its):
        for table, fields in it:
            for k, v in fields:
                if isinstance(v, dict) and v.get("t") == "ref" and v["table"] == "J":
                    if v["id"] not in j_all:
                        rep.violation(f"{prop}:just-once-ref-unknown", f"iteration {i}: {table}.{k} -> J({v['id']}) is not a just_once row", case, j_all, v)
                        return
                    if i >= 1:
                        want = nick_last if k.startswith("bynick") else total if k.startswith("bytable") else None
                        if want is not None and v["id"] != want:
                            rep.violation(f"{prop}:just-once-ref-moved",
                                          f"iteration {i}: {table}.{k} -> J({v['id']}), the just_once row it denoted is J({want})",
                                          case, want, v["id"])
                            return


def oracle_bindings_stable(rep, prop, case, chain):
    """After the first iteration of the first run no just_once row is created any more, so what the
    persistent nickname / table-name bindings denote (observed on the real Globals after every
    boundary, incl. right after loading a continuation file) must never change again."""
    if not chain.trace:
        return
    first = None
    for i, op in enumerate(chain.trace.ops):
        if op["op"][0] in ("end", "saveload") and "st" in op:
            cur = (op["st"]["pn"], op["st"]["pt"])
            if first is None:
                first = cur
            elif cur != first:
                rep.violation(f"{prop}:persistent-binding-changed",
                              f"after boundary #{i} ({op['op'][0]}) the just_once bindings are {cur}, they were {first} after the first iteration",
                              case, first, cur)
                return
        elif op["op"][0] == "create" and op["op"][3] and first is not None:
            rep.violation(f"{prop}:just-once-created-late", f"just_once row {op['op'][1]}({op['obs'][1]}) created after the first iteration", case)
            return


def oracle_names_denote(rep, prop, case, chain):
    """What a just_once nickname / table name denotes at every lookup the real interpreter performs.  Table name:
    the most recent row of that table in the CURRENT iteration (a just_once row counts, like any row), otherwise
    the last just_once row of the table.  Nickname: a row that an ORDINARY template registered under the same
    nickname in the current iteration shadows it (recipes that reuse one nickname for several templates),
    otherwise the last just_once row created under the nickname — always with its original table and id."""
    if not chain.trace:
        return
    p_nick, p_table = {}, {}      # persistent bindings: name -> (table, id)
    c_nick, c_table = {}, {}      # registered in the current iteration
    for i, op in enumerate(chain.trace.ops):
        kind = op["op"][0]
        if "err" in op:
            return
        if kind == "create" and op.get("obs") and op["obs"][0] == "id":
            _, table, nick, once = op["op"]
            row = (table, op["obs"][1])
            c_table[table] = row
            if once:
                p_table[table] = row
                if nick:
                    p_nick[nick] = row
            elif nick:
                c_nick[nick] = row
        elif kind in ("end", "saveload"):
            c_nick, c_table = {}, {}
        elif kind == "lookup" and op.get("obs") and op["obs"][0] == "row":
            name = op["op"][1]
            # resolution order of Globals.object_names: persistent nicknames < persistent table names <
            # this iteration's nicknames < this iteration's table names
            want = None
            for d in (p_nick, p_table, c_nick, c_table):
                if name in d:
                    want = d[name]
            if want is None or (name not in p_nick and name not in p_table):
                continue
            got = tuple(op["obs"][1])
            if got != want:
                rep.violation(f"{prop}:just-once-name-denotes-other-row",
                              f"op #{i}: name `{name}` denotes {got[0]}({got[1]}), expected {want[0]}({want[1]}) (its just_once row unless a row of this iteration shadows it)",
                              case, list(want), list(got))
                return


ORACLES = [oracle_just_once, oracle_bindings_stable, oracle_names_denote, l1.oracle_dense_ids, l1.oracle_refs_resolve]


def gen_case(rng):
    """Layouts around a just_once table J (nickname jq), referenced by nickname and table name from
    ordinary templates placed before and after it."""
    c1 = rng.choice([1, 1, 2, 3])
    second = rng.random() < 0.45
    c2 = rng.choice([1, 2]) if second else 0
    second_nick = second and rng.random() < 0.3

    def user(name):
        f = {}
        if rng.random() < 0.8:
            f["bynick_" + name] = {"reference": "jq"}
        if rng.random() < 0.8:
            f["bytable_" + name] = {"reference": "J"}
        t = {"object": rng.choice(["A", "B"]), "fields": f or {"x": 1}}
        if rng.random() < 0.3:
            t["count"] = rng.choice([0, 2])
        if rng.random() < 0.2:
            t["friends"] = [{"object": "C", "fields": {"bytable_fr": {"reference": "J"}}}]
        return t

    j1 = {"object": "J", "nickname": "jq", "just_once": True, "fields": {"v": 10}}
    if c1 != 1:
        j1["count"] = c1
    rec = []
    for i in range(rng.randint(0, 2)):
        rec.append(user(f"pre{i}"))
    mixed = rng.random() < 0.3
    if mixed and rng.random() < 0.6:
        # an ordinary template of the SAME table ahead of the just_once one (its rows do not count as just_once rows)
        rec.append({"object": "J", "fields": {"v": 1}})
    rec.append(j1)
    for i in range(rng.randint(0, 1)):
        rec.append(user(f"mid{i}"))
    if second:
        j2 = {"object": "J", "just_once": True, "fields": {"v": 20}}
        if second_nick:
            j2["nickname"] = "jz"
        if c2 != 1:
            j2["count"] = c2
        rec.append(j2)
    for i in range(rng.randint(1, 2)):
        rec.append(user(f"post{i}"))
    k = rng.randint(1, 4)
    parts = recipes.compositions(k, rng) if rng.random() < 0.7 else [k]
    return {"recipe": recipes.dump(rec), "parts": parts, "features": ["just_once", "reference"],
            "jo": None if any(t.get("object") == "J" and not t.get("just_once") for t in rec) else {"total": c1 + c2, "nick_last": c1}}


def run(ctx, rep, findings):
    rep.rule = ("layouts around a just_once table J (nickname jq; optionally a second just_once template of J, count 1-3) "
                "referenced by nickname and by table name from ordinary templates before/after it and from friends, "
                "x 1-4 iterations x continuation compositions; plus RefGen recipes with just_once. Non-trivial: "
                "completed, >= 3 rows.")
    pending = []
    fixed = [f["input"] for f in findings if f.get("input")] + list(ctx.corpus())
    for c in fixed:
        l1cases.run_case(c, rep, "C06", ORACLES, pending)
    n = ctx.scale(900, 9000)
    for i in range(n):
        c = gen_case(ctx.rng) if i % 3 else l1cases.make_case(ctx.rng, {"hostile_names": 0.1})
        l1cases.run_case(c, rep, "C06", ORACLES, pending)
        if len(pending) >= 200:
            l1cases.flush(pending, rep)
        if ctx.time_left() < 30:
            rep.notes.append("stopped early: time budget")
            break
    l1cases.flush(pending, rep)
    for i in range(ctx.scale(50, 500)):
        fwd_once_oracle(rep, fwd_once_case(ctx.rng), ctx.rng.randint(2, 4))
        rc = recipes.persist_case(ctx.rng)
        k = ctx.rng.randint(2, 3)
        comps = [c for c in recipes.all_compositions(k) if len(c) > 1]
        persisted_values_case(rep, rc, k, ctx.rng.choice(comps))


def persisted_values_case(rep, rc, k, parts):
    """Field values of just_once rows read through nickname / table name must be the same in every
    later iteration and continuation run as in an uninterrupted run."""
    from . import l2

    a, text = l2.run_real(rc, [k], final_continuation=False)
    b, _ = l2.run_real(rc, parts, final_continuation=False)
    case = {"kind": "persist", "ast": rc, "parts": parts, "recipe": text}
    rep.case({"recipe": text, "parts": parts}, nontrivial=a.outcome == "ok")
    rep.count("persisted-values:" + a.outcome.split(":")[0])
    if a.outcome != "ok":
        return
    if b.outcome != "ok":
        rep.violation("C06:just-once-value-unreadable-after-continuation",
                      f"reading a just_once row's fields fails after a continuation ({(b.error or '')[:160]}); the uninterrupted run completes",
                      case, "ok", b.error)
        return
    ra, rb = l2.canon_rows(a.rows), l2.canon_rows(b.rows)
    if ra != rb:
        i = 0
        while i < min(len(ra), len(rb)) and ra[i] == rb[i]:
            i += 1
        rep.violation("C06:just-once-value-changed-after-continuation",
                      f"row {i} after a continuation {rb[i] if i < len(rb) else None}, uninterrupted {ra[i] if i < len(ra) else None}",
                      case, ra[i] if i < len(ra) else None, rb[i] if i < len(rb) else None)


def fwd_once_case(rng):
    """A just_once row that stores a FORWARD reference (and scalars), read back through its nickname / table name by
    ordinary templates placed before and after the referenced table, in every iteration of one run."""
    v = rng.choice([2, 3])
    target = rng.choice(["B", "C"])
    byname = rng.choice(["n1", "A"])
    j = {"object": "A", "nickname": "n1", "just_once": True, "fields": [["f1", ["ref", target]], ["f2", ["lit", rng.choice([4, "abc"])]]]}
    r1 = {"object": "D", "fields": [["f3", ["ref", byname + ".f1"]], ["f2", ["tmpl", [["expr", ["attr", ["name", byname], "f2"]]]]]]}
    t = {"object": target, "fields": [["f1", ["lit", 1]]]}
    if rng.random() < 0.4:
        t["count"] = ["lit", 2]
    r2 = {"object": "E", "fields": [["f1", ["ref", byname + ".f1"]]]}
    sts = [j, r1, t, r2] if rng.random() < 0.7 else [j, t, r2, r1]
    return {"version": v, "options": [], "statements": sts}


def fwd_once_oracle(rep, rc, k):
    from . import l2

    a, text = l2.run_real(rc, [k], final_continuation=False)
    case = {"kind": "fwd", "ast": rc, "parts": [k], "recipe": text}
    rep.case({"recipe": text, "parts": [k]}, nontrivial=a.outcome == "ok" and k >= 2)
    rep.count("fwd-once:" + a.outcome.split(":")[0])
    if a.outcome != "ok":
        return
    seen = {}
    for table, fields in l2.canon_rows(a.rows):
        if table in ("D", "E"):
            for f, val in fields:
                if f in ("f3", "f1", "f2") and not (table == "E" and f == "f2"):
                    key = (table, f)
                    val = _json.dumps(val, sort_keys=True)
                    if key in seen and seen[key] != val:
                        rep.violation("C06:just-once-field-value-drifts",
                                      f"{table}.{f} reads a field of the just_once row: first {seen[key]}, later {val} — a just_once row keeps its original field values in every iteration",
                                      case, seen[key], val)
                        return
                    seen.setdefault(key, val)


def replay(case, rep):
    if case.get("kind") == "fwd":
        fwd_once_oracle(rep, case["ast"], case["parts"][0])
        return
    if case.get("kind") == "persist":
        persisted_values_case(rep, case["ast"], sum(case["parts"]), case["parts"])
        return
    l1cases.replay_l1(case, rep, "C06", ORACLES)


def shrink(case, signature):
    if case.get("jo") or case.get("kind") == "persist":
        return case
    return l1cases.shrink_recipe(case, signature, "C06", ORACLES)
