"""L1 trace capture: run real Snowfakery with the id / slot / registry calls wrapped, producing an
operation trace that is replayed on the Lean machine `SnowModel.IdMachine` (`l1.run`).

Wrapped (monkey-patched for the duration of a run, from the harness side only):
  RuntimeContext.register_object        -> op create(table, nickname, just_once)  obs id
  StandardFuncs…_reference_from_scalar  -> op lookup(name) for undotted string names   obs row/slot/notfound
  Globals.check_slots_filled / reset_slots -> op end   obs ok / error
  (chain of runs via continuation files)   -> op saveload
After every op the real state digest (last_used_ids, slot states, the four registries) is recorded.
"""
import contextlib

from . import common


def _digest(globls, univ):
    from snowfakery.object_rows import SlotState

    tr = globls.transients
    lu = {n: int(globls.id_manager.last_used_ids.get(n, 0)) for n in univ}
    slots = {}
    for name, slot in tr.named_slots.items():
        st = slot.status
        if st == SlotState.UNUSED:
            slots[name] = ["u"]
        elif st == SlotState.ALLOCATED:
            slots[name] = ["a", slot.allocated_id]
        else:
            aid = slot.allocated_id
            slots[name] = ["c", aid if isinstance(aid, int) else repr(aid)]

    def reg(d):
        return {k: [v._tablename, v.id] for k, v in d.items() if k in univ}

    return {
        "lu": lu,
        "slots": slots,
        "pn": reg(globls.persistent_nicknames),
        "pt": reg(globls.persistent_objects_by_table),
        "no": reg(tr.nicknamed_objects),
        "ls": reg(tr.last_seen_obj_by_table),
    }


class Tracer:
    def __init__(self, univ):
        self.univ = list(univ)
        self.ops = []  # [{"op": [...], "obs": [...], "st": digest} | {"op": ["end"], "err": [...]}]
        self.rows_by_iteration = [[]]  # captured (table, fields) per iteration across the chain
        self.globls = None
        self.names = None
        self.pending_end = False
        self.iteration_row_marks = []

    @contextlib.contextmanager
    def installed(self):
        import snowfakery.data_generator_runtime as rt
        import snowfakery.template_funcs as tf
        import snowfakery.data_generator as dg
        from snowfakery.object_rows import NicknameSlot, ObjectRow
        from snowfakery.data_gen_exceptions import DataGenError

        tracer = self
        orig_register = rt.RuntimeContext.register_object
        orig_check = rt.Globals.check_slots_filled
        orig_reset = rt.Globals.reset_slots
        orig_init_globals = dg.initialize_globals
        Funcs = tf.StandardFuncs.Functions
        orig_ref = Funcs._reference_from_scalar

        def register_object(ctx, obj, name, persistent):
            rv = orig_register(ctx, obj, name, persistent)
            g = ctx.interpreter.globals
            tracer.ops.append(
                {"op": ["create", obj._tablename, name, bool(persistent)], "obs": ["id", obj._values["id"]],
                 "st": _digest(g, tracer.univ)})
            return rv

        def _reference_from_scalar(funcs, x):
            simple = isinstance(x, str) and "." not in x
            try:
                rv = orig_ref(funcs, x)
            except DataGenError as e:
                if simple and "Cannot find an object named" in str(e):
                    g = funcs.context.interpreter.globals
                    tracer.ops.append({"op": ["lookup", x], "obs": ["notfound"], "st": _digest(g, tracer.univ)})
                raise
            if simple:
                g = funcs.context.interpreter.globals
                if isinstance(rv, NicknameSlot):
                    # observe without side effect: `.id` would reserve an id itself
                    aid = rv.allocated_id
                    obs = ["slot", [rv._tablename, aid if isinstance(aid, int) else repr(aid)]]
                elif isinstance(rv, ObjectRow):
                    obs = ["row", [rv._tablename, rv.id]]
                else:
                    obs = ["other", repr(type(rv))]
                tracer.ops.append({"op": ["lookup", x], "obs": obs, "st": _digest(g, tracer.univ)})
            return rv

        def check_slots_filled(g):
            try:
                rv = orig_check(g)
            except DataGenError as e:
                msg = str(e)
                names = msg.split(":", 1)[1].strip().split(",") if ":" in msg else []
                tracer.ops.append({"op": ["end"], "err": names})
                raise
            tracer.pending_end = True
            return rv

        def reset_slots(g):
            rv = orig_reset(g)
            if tracer.pending_end:
                tracer.pending_end = False
                tracer.ops.append({"op": ["end"], "obs": ["ok"], "st": _digest(g, tracer.univ)})
                tracer.rows_by_iteration.append([])
            return rv

        def initialize_globals(continuation_data, templates):
            g = orig_init_globals(continuation_data, templates)
            tracer.globls = g
            if continuation_data is None:
                tracer.names = [[k, v] for k, v in g.nicknames_and_tables.items()]
            else:
                tracer.ops.append({"op": ["saveload"], "obs": ["ok"], "st": _digest(g, tracer.univ)})
            return g

        rt.RuntimeContext.register_object = register_object
        rt.Globals.check_slots_filled = check_slots_filled
        rt.Globals.reset_slots = reset_slots
        dg.initialize_globals = initialize_globals
        Funcs._reference_from_scalar = _reference_from_scalar
        try:
            yield self
        finally:
            rt.RuntimeContext.register_object = orig_register
            rt.Globals.check_slots_filled = orig_check
            rt.Globals.reset_slots = orig_reset
            dg.initialize_globals = orig_init_globals
            Funcs._reference_from_scalar = orig_ref


class Chain:
    """Result of running a recipe as a chain of runs (continuations)."""

    def __init__(self):
        self.outcome = "ok"
        self.error = None
        self.runs = []  # RunResult per run
        self.trace = None
        self.iterations = []  # list of row lists, one per completed (or partial last) iteration

    @property
    def rows(self):
        return [r for run in self.runs for r in run.rows]


def run_chain(recipe_text, parts, univ=(), trace=True, options=None, plugin_options=None, files=None,
              final_continuation=True):
    """Run `recipe_text` for sum(parts) iterations split into len(parts) runs chained by
    continuation files.  Returns a Chain (with trace if requested)."""
    chain = Chain()
    tracer = Tracer(univ)
    cont = None
    cm = tracer.installed() if trace else contextlib.nullcontext()
    with cm:
        for i, k in enumerate(parts):
            nrows_before = None
            res = common.run_recipe(
                recipe_text, reps=k, continuation=cont,
                want_continuation=final_continuation or i < len(parts) - 1, options=options,
                plugin_options=plugin_options, files=files)
            chain.runs.append(res)
            if trace:
                # distribute this run's rows over iterations using the number of `end` ops
                pass
            if res.outcome != "ok":
                chain.outcome = res.outcome
                chain.error = res.error
                break
            cont = res.continuation
    chain.trace = tracer if trace else None
    return chain


def split_iterations(chain):
    """Rows per iteration: uses create ops + end ops of the trace (each visible create = one row,
    in order), so that references can be checked 'by the end of the same iteration'."""
    tr = chain.trace
    rows = [r for run in chain.runs for r in run.rows]
    its = [[]]
    ri = 0
    for op in tr.ops:
        if op["op"][0] == "create":
            table = op["op"][1]
            if not table.startswith("__"):
                # rows are written after their fields (children first), so order differs from create
                # order; only counts per iteration matter here
                its[-1].append(None)
        elif op["op"][0] == "end" and "obs" in op:
            its.append([])
    # assign rows to iterations by counts
    out = []
    for it in its:
        n = len(it)
        out.append(rows[ri : ri + n])
        ri += n
    if ri < len(rows):
        out[-1].extend(rows[ri:])
    chain.iterations = out
    return out


def model_requests(chain):
    tr = chain.trace
    return {"m": "l1.run", "names": tr.names or [], "univ": tr.univ, "ops": [o["op"] for o in tr.ops]}


def compare_trace(chain, model_result):
    """-> (n_ops_validated, first disagreement or None)"""
    tr = chain.trace
    st, val = model_result
    if st != "ok":
        return 0, {"what": "model error", "model": val}
    n = 0
    for i, real in enumerate(tr.ops):
        if i >= len(val):
            return n, {"what": "model trace shorter", "index": i, "code": real}
        m = val[i]
        if "err" in real:
            if "err" not in m or sorted(m["err"]) != sorted(real["err"]):
                return n, {"what": "end-of-iteration outcome", "index": i, "code": real, "model": m}
            n += 1
            break
        if "err" in m:
            return n, {"what": "model reports unfulfilled, code does not", "index": i, "code": real, "model": m}
        if m["obs"] != real["obs"]:
            return n, {"what": "observation", "index": i, "op": real["op"], "code": real["obs"], "model": m["obs"]}
        if m["st"] != real["st"]:
            diff = {k: (real["st"][k], m["st"][k]) for k in real["st"] if real["st"][k] != m["st"].get(k)}
            return n, {"what": "state digest", "index": i, "op": real["op"], "code_vs_model": diff}
        n += 1
    return n, None


# ------------------------------------------------------------------ direct oracles


def oracle_dense_ids(rep, prop, case, chain):
    """C01: ids per table over the whole chain are exactly 1..n (visible tables from the captured
    rows, hidden tables from the create ops)."""
    if chain.outcome != "ok":
        return
    ids = common.ids_by_table(chain.rows)
    if chain.trace:
        for op in chain.trace.ops:
            if op["op"][0] == "create" and op["op"][1].startswith("__"):
                ids.setdefault(op["op"][1], []).append(op["obs"][1])
    for table, l in ids.items():
        if sorted(l, key=lambda x: (not isinstance(x, int), x if isinstance(x, int) else 0)) != list(range(1, len(l) + 1)):
            rep.violation(
                f"{prop}:ids-not-dense", f"ids of table {table} over the whole dataset are {l}, not 1..{len(l)}",
                case, list(range(1, len(l) + 1)), l)
            return


def oracle_refs_resolve(rep, prop, case, chain):
    """C02: every reference cell names an int id and a row with that (table, id) exists in the output
    by the end of the same iteration (hidden targets are out of scope by design)."""
    if chain.outcome != "ok":
        return
    seen = set()
    for it in chain.iterations:
        for table, fields in it:
            d = dict(fields)
            seen.add((table, d.get("id")))
        for table, fields in it:
            for k, v in fields:
                if isinstance(v, dict) and v.get("t") == "ref":
                    if v["table"].startswith("__"):
                        continue
                    if not isinstance(v["id"], int):
                        rep.violation(
                            f"{prop}:ref-not-an-id", f"{table}.{k} holds {v['table']}({v['id']}): not an id",
                            case, "an integer id", v)
                        return
                    if (v["table"], v["id"]) not in seen:
                        rep.violation(
                            f"{prop}:dangling-ref",
                            f"{table}.{k} references {v['table']}({v['id']}) which is not emitted by the end of the iteration",
                            case, "a row emitted no later than the end of the iteration", v)
                        return
