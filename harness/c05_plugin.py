"""Tiny Snowfakery plugin used by the C05 harness to inject exactly-typed values into fields and to
observe a value in canonical form from inside a recipe (`- plugin: harness.c05_plugin.C05Plug`)."""
import datetime
import decimal
import json

from snowfakery.plugins import SnowfakeryPlugin


def decode(t, v):
    if t == "decimal":
        return decimal.Decimal(v)
    if t == "float":
        return float(v)
    if t == "int":
        return int(v)
    if t == "str":
        return v
    if t == "bool":
        return bool(v)
    if t == "null":
        return None
    if t == "date":
        return datetime.date.fromisoformat(v)
    if t == "datetime":
        return datetime.datetime.fromisoformat(v)
    raise ValueError(t)


def canon(v):
    from snowfakery.object_rows import ObjectRow, NicknameSlot, ObjectReference

    if v is None:
        return None
    if isinstance(v, bool):
        return {"t": "bool", "v": v}
    if isinstance(v, int):
        return {"t": "int", "v": str(v)}
    if isinstance(v, float):
        return {"t": "float", "v": repr(v)}
    if isinstance(v, str):
        return {"t": "str", "v": v}
    if isinstance(v, decimal.Decimal):
        return {"t": "decimal", "v": str(v)}
    if isinstance(v, datetime.datetime):
        return {"t": "datetime", "v": v.isoformat()}
    if isinstance(v, datetime.date):
        return {"t": "date", "v": v.isoformat()}
    if isinstance(v, ObjectRow):
        return {"t": "ref", "table": v._tablename, "id": v._values.get("id")}
    if isinstance(v, NicknameSlot):
        return {"t": "slot", "table": v._tablename}
    if isinstance(v, ObjectReference):
        return {"t": "other", "cls": type(v).__name__}
    return {"t": "other", "cls": type(v).__name__}


_SHARED = {}


class C05Plug(SnowfakeryPlugin):
    class Functions:
        def mk(self, t, v=None):
            return decode(t, v)

        def shared(self, t, v=None):
            """the SAME Python object for the same (t, v): aliasing between fields and between rows"""
            key = (t, v)
            if key not in _SHARED:
                _SHARED[key] = decode(t, v)
            return _SHARED[key]

        def obs(self, x=None):
            # the prefix keeps the v3 dialect from re-reading the text as a Python literal
            return "R:" + json.dumps(canon(x), sort_keys=True)
