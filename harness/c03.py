"""C03 — a recipe without random functions has exactly one, documented, meaning.

The Lean L2 interpreter is the independent reference interpreter; the check is the differential:
generated programs (both dialects, 1-3 iterations) run on the real interpreter and on the model,
compared on outcome class and on the full ordered list of (table, ordered typed field values,
references as (table, id)).  `look_for_number` is additionally compared at function level."""
from . import common, l2, recipes

SPEC = {
    "lean": ["SnowModel.Props.C03", "SnowModel.Props.L2Fuel", "SnowModel.Props.C03Bridge", "SnowModel.Props.L1Bridge"],
    "pins": ["Runtime", "ObjectRows", "ObjectModel", "TemplateUtils"],
    "technique": "Lean 4 executable reference interpreter (L2) with theorems pinning the documented rules (count/child_index, nested-before-parent, friends-after, latest-row-wins, scope order, declaration order, v2 coercion) + fuel adequacy (`runChain_fuel_irrelevant`: the fuel parameter is only a termination device — any two fuels that do not run out give the same outcome) + AST pins (override orders, row-generation statement order, look_for_number) + row-for-row differential against the real interpreter on generated programs in both dialects",
    "level_text": "The property *is* a differential against an independent reference interpreter; that interpreter is a Lean definition whose documented rules are machine-checked theorems (for every recipe, state and fuel), and the real interpreter is compared with it row for row and value for value on generated programs of the deterministic core language under snowfakery_version 2 and 3.",
    "level_note": "Trusted: Lean kernel, py2lean, harness canonicalisation, Jinja2 for the formula sub-language (ints, names, attribute paths, + - *, text/${{}} concatenation). Programs outside the modelled fragment (floats, filters, literal_eval-sensitive strings, slot repr) are reported as `outside` by the model and discarded (counted in the evidence). A disagreement is a broken correspondence; it is a violation with that program as replay when one of the rule oracles fails on the real output.",
    "assumptions": ["PyYAML loads the emitted recipe text as the generator's structure", "Jinja2 evaluates the formula sub-language as Python does on ints/strs"],
    "budget": {"quick": 600, "thorough": 3000},
}


def rule_oracle(rep, case, rc, chain):
    """Model-independent checks of rules the statement lists, on the real rows of a completed run:
    child_index/count for literal counts of top-level templates without nesting interference is
    covered by the differential; here: ids per table dense (C01) and fields in declaration order."""
    if chain.outcome != "ok":
        return
    # fields appear in declaration order (after de-dup), `id` first, hidden fields absent
    decl = {}

    def walk(st):
        if "object" in st:
            names = []
            for n, fd in st.get("fields", []):
                if n not in names:
                    names.append(n)
                if fd[0] == "nested":
                    walk(fd[1])
            decl.setdefault(st["object"], []).append(["id"] + [n for n in names if not n.startswith("__")])
            for f in st.get("friends", []):
                walk(f)

    for st in rc["statements"]:
        walk(st)
    for table, fields in chain.rows:
        keys = [k for k, _ in fields]
        if any(k.startswith("__") for k in keys) or table.startswith("__"):
            rep.violation("C03:hidden-name-in-output", f"row of {table} carries hidden names {keys}", case)
            return
        if keys not in decl.get(table, []):
            rep.violation("C03:field-order", f"row of {table} has fields {keys}, no template of that table declares them in this order",
                          case, decl.get(table), keys)
            return


def run_cases(cases, rep):
    reqs = []
    metas = []
    for rc, parts in cases:
        chain, text = l2.run_real(rc, parts, final_continuation=False)  # no file after the last run: C03 is about the rows
        case = {"recipe": text, "parts": parts, "ast": rc}
        rule_oracle(rep, case, rc, chain)
        reqs.append({"m": "l2.run", "recipe": rc, "parts": parts, "final_save": False})
        metas.append((case, chain))
    res = common.model_batch(reqs)
    for (case, chain), m in zip(metas, res):
        ndis = len(rep.disagreements)
        r = l2.compare(rep, "l2", {"recipe": case["recipe"], "parts": case["parts"], "ast": case["ast"]}, chain, m)
        if r == "disagree" and len(rep.disagreements) > ndis:
            # the property *is* equality with the independent reference interpreter: a program on
            # which the real interpreter differs from it is a failing input
            d = rep.disagreements[-1]
            rep.violation("C03:differs-from-reference-interpreter",
                          f"{d['what']}: the real interpreter gives {str(d['code'])[:300]} where the reference interpreter gives {str(d['model'])[:300]}",
                          {"recipe": case["recipe"], "parts": case["parts"], "ast": case["ast"]}, d["model"], d["code"])
        rep.count("compare:" + r)
        rep.count("real-outcome:" + chain.outcome.split(":")[0])
        if r != "outside":
            rep.traces_validated += 1
        nontrivial = r == "agree" and chain.outcome == "ok" and len(chain.rows) >= 3
        rep.case({"recipe": case["recipe"], "parts": case["parts"]}, nontrivial=nontrivial)
        rep.count("dialect:v%d" % case["ast"]["version"])


def lfn_cases(rng, n):
    pool = ["", "0", "00", "007", "0.5", "12", "1.5", "1.2.3", "12a", "-5", " 5", "5 ", "1e3", "०१", "٣", "1_0", ".", ".5", "5.", "999999999999999999999", "x"]
    out = list(pool)
    for _ in range(n):
        k = rng.randint(1, 6)
        out.append("".join(rng.choice("0123456789.. a-") for _ in range(k)))
    return out


def run_lfn(ctx, rep):
    from snowfakery.utils.template_utils import look_for_number

    strs = lfn_cases(ctx.rng, ctx.scale(300, 5000))
    res = common.model_batch([{"m": "l2.look_for_number", "s": s} for s in strs])
    for s, (st, val) in zip(strs, res):
        try:
            real = look_for_number(s)
        except ValueError:
            real = float("nan")  # float("…") rejected the string: a float-shaped input, outside the model
        rep.count("lfn")
        if st != "ok":
            rep.disagreement("l2.look_for_number:driver", {"s": s}, val, repr(real))
            continue
        if val == "outside":
            if not isinstance(real, float):
                rep.disagreement("l2.look_for_number:outside-but-not-float", {"s": s}, val, repr(real))
            continue
        code = real if isinstance(real, int) else {"t": "str", "v": real}
        if val != code:
            rep.disagreement("l2.look_for_number", {"s": s}, val, code)


def run(ctx, rep, findings):
    rep.rule = ("programs from harness.recipes.L2Gen (1-5 top-level templates over A,B,C,__H, nicknames, counts literal/"
                "formula, nested templates depth<=2, friends, references incl. dotted paths, vars, one option, hidden "
                "fields, just_once) x dialect 2/3 x 1-3 iterations; non-trivial: model and code agree on a completed run "
                "with >= 3 rows. look_for_number compared at function level on generated strings.")
    cases = []
    for c in [f["input"] for f in findings if f.get("input")] + ctx.corpus():
        cases.append((c["ast"], c["parts"]))
    n = ctx.scale(700, 12000)
    for i in range(n):
        g = recipes.L2Gen(ctx.rng)
        rc = g.recipe()
        k = ctx.rng.choice([1, 1, 2, 3])
        cases.append((rc, [k]))
    for i in range(0, len(cases), 250):
        run_cases(cases[i:i + 250], rep)
        if ctx.time_left() < 60:
            rep.notes.append("stopped early: time budget")
            break
    run_lfn(ctx, rep)


def replay(case, rep):
    run_cases([(case["ast"], case["parts"])], rep)


def shrink(case, signature):
    def fails(rc):
        r = common.Report("C03")
        run_cases([(rc, case["parts"])], r)
        return any(v["signature"] == signature for v in r.violations)

    parts = case["parts"]
    rc = l2.shrink_ast(case["ast"], fails)
    return {"recipe": recipes.recipe_yaml(rc), "parts": parts, "ast": rc}
