"""C16 — the generated CCI mapping is complete and loads parents before children.

Correspondence (tie C):
  * function level: the Lean model `SnowModel.Mapping.mappingFromRecipe` against the real
    `mapping_from_recipe_templates` on generated (TableInfo, dependency, load_after declaration)
    graphs, and `sortDependencies` against the real `sort_dependencies` (the raw table order,
    duplicates included);
  * end to end: generated recipes (forward / random references, nested objects, friends, hidden
    tables and fields, update keys, just_once) run through `data_generator.generate`; the model is
    fed `summary.tables` / `summary.intertable_dependencies` and must reproduce the mapping; a
    fraction also goes through `snowfakery.api.generate_data(generate_cci_mapping_file=…)` and the
    YAML file is compared; continuation chains compare the dependency set of the continued run
    with `continuedDeps <pinned access kind>`.
Direct oracle (model independent) — the four clauses of the property, evaluated on the real mapping
against the *captured rows* of the run (or, at function level, against the given tables and
dependencies): one step per (visible table, update key); every visible field exactly once, lookup
iff a reference was emitted in it, to an observed target; single-step targets are earlier or named by
`after:`; the continued run's mapping equals the first run's.
"""
import io
import json
import os

from . import common

SPEC = {
    "lean": ["SnowModel.Props.C16", "SnowModel.Props.C16Bridge"],
    "pins": ["MappingGen"],
    "harness": "harness.c16",
    "technique": "Lean 4 theorems over an executable model of the mapping generator (sorter termination by measure, membership/permutation, topological order on acyclic graphs, step cover, fields/lookups partition, after-directive soundness, totality (D14 repaired by a fix: commit), continuation invariance for the pinned access kind (D05 repaired by a fix: commit)) + pins regenerated from the AST + differential correspondence at function level and end to end",
    "level_text": "Machine-checked proof, for every table list, dependency list and load_after declaration list, that the model of sort_dependencies terminates within its fuel and returns exactly the visible tables (a permutation without declarations, possibly with repeats with them), parents first when the graph is acyclic; that load steps cover every (table, update key) exactly once; that fields and lookups partition the visible fields; and that every lookup whose target has a first step not earlier carries an after: directive naming the target's last step. The model is tied to the source by bridging lemmas over constants, conditions and wiring regenerated from the AST on every run and by differential runs of the real mapping generator.",
    "level_note": "Trusted: Lean kernel; py2lean; the harness; CPython dict/list/sort semantics (stable sort, insertion-ordered dict), str.lower on ASCII names. mapping_total holds at full strength since fix 7f47b5f (a lookup into a table without load step is skipped by add_after_statements); continuation invariance holds for the access kind pinned from the repaired source (mapping_continuation_invariant_pinned), the refutation for the old getattr access is kept as an explicitly parameterised fact; fields_lookups_partition holds at full strength since fix 8e9f95d (a record-type column holding references is a lookup only). Run-time discovery of dependencies (which rows hold references) is covered by the end-to-end correspondence and the row oracle, not by a theorem.",
    "assumptions": [
        "Python list.sort is stable; dict preserves insertion order",
        "table and field names are ASCII (str.lower modelled by Char.toLower)",
        "the row oracle exempts the Salesforce special cases coded on purpose: Account.PersonContactId is dropped, lookups to PersonContact get no after:, `id` and `_sf_update_key` columns are implicit",
    ],
    "budget": {"quick": 600, "thorough": 2400},
}


# ------------------------------------------------------------------ real-code runners


def _gm():
    import snowfakery.generate_mapping_from_recipe as gm

    return gm


def make_decls(decls):
    """[[sf_object, [targets…]]…] -> {sf_object: SObjectRuleDeclaration} through the real `unify`."""
    from snowfakery.cci_mapping_files.declaration_parser import SObjectRuleDeclaration, unify

    atoms = []
    for obj, targets in decls:
        for t in targets:
            atoms.append(SObjectRuleDeclaration(sf_object=obj, load_after=t))
    return unify(atoms)


def canon_exc(e):
    from snowfakery.data_gen_exceptions import DataGenError

    if isinstance(e, KeyError):
        return ["KeyError", e.args[0] if e.args else None]
    if isinstance(e, DataGenError):
        return ["DataGenError", str(e)[:200]]
    return [type(e).__name__, str(e)[:200]]


def canon_mapping(mp):
    out = []
    for name, m in mp.items():
        out.append(
            {
                "name": name,
                "sf_object": m.get("sf_object"),
                "table": m.get("table"),
                "fields": [[k, v] for k, v in m.get("fields", {}).items()],
                "lookups": [
                    {"field": k, "table": v.get("table"), "after": v.get("after")}
                    for k, v in m.get("lookups", {}).items()
                ],
                "update_key": m.get("update_key"),
                "filters": list(m.get("filters", [])),
            }
        )
    return out


def mapping_shape_problems(mp):
    """Keys the model does not carry but that are functions of the modelled ones."""
    bad = []
    for name, m in mp.items():
        for k, v in m.get("lookups", {}).items():
            if v.get("key_field") != k:
                bad.append(f"{name}: lookup {k} has key_field {v.get('key_field')!r}")
        if (m.get("action") == "upsert") != bool(m.get("update_key")):
            bad.append(f"{name}: action {m.get('action')!r} vs update_key {m.get('update_key')!r}")
        if "lookups" in m and not m["lookups"]:
            bad.append(f"{name}: empty lookups key")
    return bad


def real_mapping_func(case):
    """Function level: build a summary from the case and call the real generator."""
    import types
    from snowfakery.parse_recipe_yaml import TableInfo
    from snowfakery.data_generator_runtime import Dependency
    from snowfakery.utils.collections import OrderedSet

    gm = _gm()
    tables = {}
    for t in case["tables"]:
        ti = TableInfo(t["name"])
        ti.fields = {f: types.SimpleNamespace(name=f) for f in t["fields"]}
        ti._templates = [types.SimpleNamespace(update_key=k) for k in t["templates"]]
        tables[t["name"]] = ti
    deps = OrderedSet()
    for d in case["deps"]:
        deps.add(Dependency(*d))
    summary = types.SimpleNamespace(tables=tables, intertable_dependencies=deps, templates=[])
    decls = make_decls(case.get("decls", []))
    try:
        mp = gm.mapping_from_recipe_templates(summary, decls)
    except Exception as e:  # noqa
        return {"error": canon_exc(e)}, None
    return {"ok": canon_mapping(mp)}, mp


def real_sort(case):
    from collections import defaultdict
    from snowfakery.data_generator_runtime import Dependency
    from snowfakery.utils.collections import OrderedSet

    gm = _gm()
    inferred = defaultdict(OrderedSet)
    declared = defaultdict(OrderedSet)
    for d in case["inferred"]:
        inferred[d[0]].add(Dependency(*d))
    for d in case["declared"]:
        declared[d[0]].add(Dependency(*d))
    tables = {t: None for t in case["tables"]}
    try:
        return list(gm.sort_dependencies(inferred, declared, tables))
    except Exception as e:  # noqa
        return {"error": canon_exc(e)}


def summary_to_model_input(summary):
    tables = []
    for name, ti in summary.tables.items():
        tables.append(
            {
                "name": name,
                "fields": list(ti.fields.keys()),
                "templates": [getattr(t, "update_key", None) for t in ti._templates],
            }
        )
    deps = [[d.table_name_from, d.table_name_to, d.field_name] for d in summary.intertable_dependencies]
    return tables, deps


def run_recipe_mapping(text, decls, continuation=None, want_continuation=False, reps=1):
    """Run a recipe; return (RunResult, model input captured *before* the mapping call, mapping result)."""
    import copy

    res = common.run_recipe(text, reps=reps, continuation=continuation, want_continuation=want_continuation)
    if res.outcome != "ok":
        return res, None, None, None
    tables, deps = summary_to_model_input(res.summary)
    gm = _gm()
    try:
        mp = gm.mapping_from_recipe_templates(res.summary, make_decls(decls))
        out = {"ok": canon_mapping(mp)}
    except Exception as e:  # noqa
        mp = None
        out = {"error": canon_exc(e)}
    return res, (tables, deps), out, mp


def api_mapping(text, decl_text=None):
    """The public entry point: `generate_data(..., generate_cci_mapping_file=…)`; returns the parsed YAML."""
    import yaml
    from snowfakery.api import generate_data

    m = io.StringIO()
    kw = {}
    if decl_text is not None:
        kw["load_declarations"] = [io.StringIO(decl_text)]
    try:
        generate_data(
            io.StringIO(text),
            generate_cci_mapping_file=m,
            output_file=io.StringIO(),
            output_format="txt",
            **kw,
        )
    except Exception as e:  # noqa
        return {"error": canon_exc(e)}
    return {"ok": canon_mapping(yaml.safe_load(m.getvalue()) or {})}


# ------------------------------------------------------------------ direct oracle

IMPLICIT_COLUMNS = ("id", "_sf_update_key")


def hidden(name):
    return name.startswith("__")


def facts_from_func_case(case):
    """What the property is evaluated against at function level: the given tables and dependencies."""
    tables = {}
    for t in case["tables"]:
        tables[t["name"]] = {"fields": list(t["fields"]), "keys": list(dict.fromkeys(t["templates"]))}
    refs = {}
    for f, t, fld in case["deps"]:
        refs.setdefault((f, fld), set()).add(t)
    return tables, refs


def facts_from_rows(res, tables_in):
    """… end to end: the captured rows (what was emitted) + the parsed tables (what can be emitted)."""
    tables = {}
    for t in tables_in:
        if hidden(t["name"]):
            continue
        tables[t["name"]] = {
            "fields": [f for f in t["fields"] if not hidden(f)],
            "keys": list(dict.fromkeys(t["templates"])),
        }
    refs = {}
    for table, fields in res.rows:
        if hidden(table):
            continue
        ent = tables.setdefault(table, {"fields": [], "keys": [None]})
        for k, v in fields:
            if hidden(k) or k in IMPLICIT_COLUMNS:
                continue
            if k not in ent["fields"]:
                ent["fields"].append(k)
            if isinstance(v, dict) and v.get("t") == "ref":
                refs.setdefault((table, k), set()).add(v["table"])
    return tables, refs


def facts_from_recipe(case):
    """What the property is evaluated against, taken from the RECIPE (the generator's own structure), never
    from `summary.tables` after the run: visible tables, their visible fields, their update keys, and which
    fields hold references to which tables."""
    tpls = case["templates"]
    nick = {t["nickname"]: t["table"] for t in tpls if t.get("nickname")}
    tables, refs = {}, {}

    def resolve(name):
        return nick.get(name, name)

    def walk(t):
        tb = t["table"]
        vis = not hidden(tb)
        if vis:
            ent = tables.setdefault(tb, {"fields": [], "keys": []})
            k = t.get("update_key") or None
            if k not in ent["keys"]:
                ent["keys"].append(k)
        for f, (kind, v) in t["fields"]:
            targets = []
            if kind == "ref":
                targets = [resolve(v)]
            elif kind == "rref":
                targets = [resolve(v)]
            elif kind == "nested":
                targets = [v["table"]]
                walk(v)
            elif kind == "choice":
                targets = [resolve(x) for x in v]
            if vis and not hidden(f):
                if f not in ent["fields"]:
                    ent["fields"].append(f)
                if targets:
                    refs.setdefault((tb, f), set()).update(targets)
        for fr in t["friends"]:
            walk(fr)

    for t in tpls:
        walk(t)
    return tables, refs


OUTPUT_CONFIGS = ["debug", "json", "txt", "sql", "dburl", "csv", "multi"]


def api_mapping_with_output(text, decls, config, continuation=None, want_continuation=False):
    """`generate_data(..., generate_cci_mapping_file=…)` the ways a user can drive it.
    Returns (canonical mapping | {"error":…}, continuation text | None)."""
    import contextlib
    import shutil
    import tempfile
    import yaml
    from snowfakery.api import generate_data

    tmp = tempfile.mkdtemp(prefix="verif_c16_")
    m = io.StringIO()
    kw = {}
    if decls:
        kw["load_declarations"] = [io.StringIO(decl_yaml(decls))]
    if config == "json":
        kw.update(output_file=io.StringIO(), output_format="json")
    elif config == "txt":
        kw.update(output_file=io.StringIO(), output_format="txt")
    elif config == "sql":
        kw.update(output_file=io.StringIO(), output_format="sql")
    elif config == "dburl":
        kw.update(dburl=f"sqlite:///{tmp}/out.db")
    elif config == "csv":
        kw.update(output_format="csv", output_folder=os.path.join(tmp, "csv"))
    elif config == "multi":
        kw.update(dburl=f"sqlite:///{tmp}/out.db", output_format="csv", output_folder=os.path.join(tmp, "csv"))
    cont_out = io.StringIO() if want_continuation else None
    if want_continuation:
        kw["generate_continuation_file"] = cont_out
    if continuation is not None:
        kw["continuation_file"] = io.StringIO(continuation)
    try:
        with contextlib.redirect_stdout(io.StringIO()):
            generate_data(io.StringIO(text), generate_cci_mapping_file=m, **kw)
        out = {"ok": canon_mapping(yaml.safe_load(m.getvalue()) or {})}
    except Exception as e:  # noqa
        out = {"error": canon_exc(e)}
    finally:
        shutil.rmtree(tmp, ignore_errors=True)
    return out, (cont_out.getvalue() if cont_out is not None and "ok" in out else None)


def check_outputs(case, rep, reqs, meta, rng):
    """One deterministic recipe, every output configuration (and continuations): each mapping must satisfy
    the property against the recipe's own tables/fields, and all of them must be equal."""
    decls = case.get("decls", [])
    res, minput, base, _ = run_recipe_mapping(case["text"], decls)
    rep.count("outputs:baseline:" + res.outcome)
    if res.outcome != "ok":
        rep.case(case, nontrivial=False)
        return
    tables, refs = facts_from_recipe(case)
    _, row_refs = facts_from_rows(res, [])
    if {k: sorted(v) for k, v in row_refs.items()} != {k: sorted(v) for k, v in refs.items()}:
        # the harness's reading of its own recipe and the emitted rows disagree: trust the rows for references
        rep.count("outputs:recipe-refs-differ-from-rows")
        refs = row_refs
    oracle_mapping(rep, case, tables, refs, base, "outputs")
    tables_in, deps = minput
    reqs.append({"m": "c16.mapping", "tables": tables_in, "deps": deps, "decls": decls})
    meta.append((case, "mapping", base))
    results = {"capture": base}
    configs = case.get("configs") or OUTPUT_CONFIGS
    for cfg in configs:
        out, _ = api_mapping_with_output(case["text"], decls, cfg)
        rep.count(f"outputs:{cfg}:" + ("ok" if "ok" in out else out["error"][0]))
        results[cfg] = out
        if "ok" in out:
            oracle_mapping(rep, dict(case, config=cfg), tables, refs, out, "outputs")
    # continuation: first run under one configuration, continued run under another
    for cfg1, cfg2 in case.get("continuations") or [tuple(rng.sample(OUTPUT_CONFIGS, 2)), ("csv", "json")]:
        out1, cont = api_mapping_with_output(case["text"], decls, cfg1, want_continuation=True)
        if cont is None:
            continue
        out2, _ = api_mapping_with_output(case["text"], decls, cfg2, continuation=cont)
        rep.count("outputs:continued:" + ("ok" if "ok" in out2 else out2["error"][0]))
        results[f"{cfg1}>continued:{cfg2}"] = out2
        if "ok" in out2:
            oracle_mapping(rep, dict(case, config=f"{cfg1}>continued:{cfg2}"), tables, refs, out2, "outputs")
    oks = {k: v for k, v in results.items() if "ok" in v}
    ref_key = "capture" if "capture" in oks else (sorted(oks)[0] if oks else None)
    for k, v in oks.items():
        if v != oks[ref_key]:
            a, b = oks[ref_key]["ok"], v["ok"]
            diff = [(x.get("name"), y.get("name")) for x, y in zip(a, b) if x != y][:3]
            rep.violation(
                "C16:mapping-depends-on-output-configuration",
                f"the mapping generated with output configuration {k!r} differs from the one with {ref_key!r} "
                f"(first differing steps: {diff}; {len(a)} vs {len(b)} steps)",
                dict(case, configs=[k] if k in OUTPUT_CONFIGS else ["debug"],
                     continuations=[tuple(k.split(">continued:"))] if ">continued:" in k else []),
                oks[ref_key], v)
            break
    errs = {k: v for k, v in results.items() if "error" in v}
    if errs and oks:
        rep.count("outputs:some-configuration-failed")
    rep.case(case, nontrivial=len(tables) >= 2 and len(deps) >= 1)


def oracle_mapping(rep, case, tables, refs, out, level):
    """The first three clauses of the property on one real mapping `out` (canonical form)."""
    if "error" in out:
        err = out["error"]
        if err[0] == "KeyError" and isinstance(err[1], str):
            tgt = err[1]
            if any(tgt in v for v in refs.values()) and tgt not in tables:
                sig = "C16:keyerror-lookup-target-without-step"
                rep.violation(
                    sig,
                    f"mapping generation raises KeyError({tgt!r}): a lookup targets a table that has no load step",
                    case, "a mapping", err)
                return
        if err[0] == "DataGenError" and "record type" in str(err[1]).lower():
            return  # documented recipe error (two record-type columns)
        rep.violation(f"C16:mapping-raises-{err[0]}", f"mapping generation raised {err}", case, "a mapping", err)
        return
    steps = out["ok"]
    names = [s["name"] for s in steps]
    # clause 1: one step per visible table and update key
    want_names = {}
    for t, info in tables.items():
        for k in info["keys"]:
            nm = f"Upsert {t} on {k}" if k else f"Insert {t}"
            if nm in want_names and want_names[nm] != (t, k or None):
                rep.violation(
                    "C16:step-name-collision",
                    f"(table, update_key) pairs {want_names[nm]} and {(t, k)} share the step name {nm!r}: "
                    f"the mapping has {len(steps)} steps",
                    case, "two steps", names)
                return
            want_names[nm] = (t, k or None)
    for t, info in tables.items():
        for k in info["keys"]:
            n = sum(1 for s in steps if s["table"] == t and (s["update_key"] or None) == (k or None))
            if n != 1:
                rep.violation(
                    "C16:step-count",
                    f"table {t!r} update_key {k!r} has {n} load steps",
                    case, 1, n)
                return
    for s in steps:
        t = s["table"]
        if hidden(t) or t not in tables or (s["update_key"] or None) not in [(k or None) for k in tables[t]["keys"]]:
            rep.violation("C16:spurious-step", f"step {s['name']!r} for a table/update key that the recipe does not emit", case, None, s)
            return
    if len(set(names)) != len(names):
        rep.violation("C16:duplicate-step-name", "two steps share a name", case, None, names)
        return
    # clause 2: fields / lookups partition
    for s in steps:
        t = s["table"]
        want = [f for f in tables[t]["fields"] if not (t == "Account" and f == "PersonContactId")]
        listed = [v for _, v in s["fields"]] + [l["field"] for l in s["lookups"]]
        for f in want:
            c = listed.count(f)
            if c != 1:
                rt = f.lower().replace("_", "") in ("recordtype", "recordtypeid")
                rep.violation(
                    "C16:record-type-reference-listed-twice" if (rt and c == 2 and (t, f) in refs)
                    else "C16:field-listed-%s" % ("twice" if c > 1 else "never"),
                    f"step {s['name']!r}: field {f!r} is listed {c} times",
                    case, 1, c)
                return
        for f in listed:
            if f not in want or hidden(f):
                rep.violation("C16:spurious-field", f"step {s['name']!r} lists {f!r} which is not a visible field of {t!r}", case, want, listed)
                return
        for k, v in s["fields"]:
            if k != v and k != "RecordTypeId":
                rep.violation("C16:field-renamed", f"step {s['name']!r}: key {k!r} maps column {v!r}", case, k, v)
                return
            if (t, v) in refs:
                rep.violation(
                    "C16:reference-as-plain-field",
                    f"step {s['name']!r}: field {v!r} held a reference to {sorted(refs[(t, v)])} but is a plain field",
                    case, "lookup", "field")
                return
        for l in s["lookups"]:
            tg = refs.get((t, l["field"]))
            if not tg:
                rep.violation("C16:lookup-without-reference", f"step {s['name']!r}: lookup {l['field']!r} but no reference was emitted in it", case, "field", l)
                return
            if l["table"] not in tg:
                rep.violation("C16:lookup-wrong-target", f"step {s['name']!r}: lookup {l['field']!r} targets {l['table']!r}, emitted references point to {sorted(tg)}", case, sorted(tg), l["table"])
                return
    # clause 3: order / after
    for i, s in enumerate(steps):
        for l in s["lookups"]:
            tg = l["table"]
            if tg == "PersonContact":
                continue
            # "loaded by": the steps whose sf_object is the target (PersonContact rows are loaded into Contact)
            tsteps = [j for j, s2 in enumerate(steps) if s2["sf_object"] == tg]
            if not tsteps:
                # the target (a hidden `__` table) is loaded by no step: the ordering clause says nothing
                rep.count(level + ":lookup-to-unloaded-target")
            if len(tsteps) == 1:
                j = tsteps[0]
                if not (j < i or l["after"] == steps[j]["name"]):
                    rep.violation(
                        "C16:unordered-lookup",
                        f"step #{i} {s['name']!r}: lookup {l['field']!r} -> {tg!r} loaded by step #{j} {steps[j]['name']!r}, after={l['after']!r}",
                        case, f"earlier step or after: {steps[j]['name']}", l["after"])
                    return
            if l["after"] is not None and l["after"] not in names:
                rep.violation("C16:after-names-no-step", f"after: {l['after']!r} is not a step", case, names, l["after"])
                return


# ------------------------------------------------------------------ generators

NAMES = ["A", "B", "C", "D", "E", "F", "Ga", "Hb"]
SPECIAL = ["Account", "Contact", "PersonContact", "personcontact"]
FIELDS = ["f", "g", "h", "x", "y", "name", "Parent"]
KEYS = ["k", "ext", "name"]


def gen_func_case(rng):
    shape = rng.choice(["acyclic", "acyclic", "self", "cyclic", "cyclic", "any", "any", "special"])
    n = rng.choice([1, 2, 3, 3, 4, 4, 5, 6, 8])
    pool = list(NAMES)
    if shape == "special":
        pool = SPECIAL + NAMES[:3]
    rng.shuffle(pool)
    names = pool[: min(n, len(pool))]
    tables = []
    deps = []
    for i, nm in enumerate(names):
        nf = rng.choice([0, 1, 2, 2, 3, 4])
        fl = rng.sample(FIELDS, nf)
        if rng.random() < 0.08:
            fl.append(rng.choice(["RecordType", "recordtypeid", "Record_Type", "RecordTypeId"]))
        if rng.random() < 0.02:
            fl.append(rng.choice(["RecordType", "record_type_id"]))
        if nm == "Account" and rng.random() < 0.6:
            fl.append("PersonContactId")
        fl = list(dict.fromkeys(fl))
        nt = rng.choice([1, 1, 1, 2, 3])
        ts = [rng.choice([None, None, None] + KEYS) for _ in range(nt)]
        tables.append({"name": nm, "fields": fl, "templates": ts})
    for i, t in enumerate(tables):
        for f in t["fields"]:
            if rng.random() < 0.45:
                if shape == "acyclic":
                    cands = names[:i]
                elif shape == "self":
                    cands = names[: i + 1]
                else:
                    cands = names
                cands = list(cands)
                if rng.random() < 0.15:
                    cands = cands + ["__Hid", "Ghost"]
                if not cands:
                    continue
                deps.append([t["name"], rng.choice(cands), f])
                if rng.random() < 0.08:
                    deps.append([t["name"], rng.choice(cands), f])  # polymorphic field: last one wins
    if shape != "acyclic" and rng.random() < 0.3:
        # dependencies recorded for hidden tables/fields (they exist at run time)
        deps.append(["__Hid", rng.choice(names), "f"])
    rng.shuffle(deps)
    decls = []
    if rng.random() < 0.45:
        for nm in rng.sample(names, rng.randint(1, min(3, len(names)))):
            decls.append([nm, rng.sample(names + ["Elsewhere"], rng.randint(1, min(2, len(names))))])
    if rng.random() < 0.5:
        rng.shuffle(tables)
    return {"kind": "func", "tables": tables, "deps": deps, "decls": decls, "shape": shape}


def gen_sort_case(rng):
    n = rng.choice([1, 2, 3, 4, 5, 6, 7])
    names = rng.sample(NAMES, n)
    ext = names + ["Zz"]

    def dl(p):
        out = []
        for a in names:
            for b in ext:
                if rng.random() < p:
                    out.append([a, b, rng.choice(["f", "g"])])
        return out

    inferred = dl(rng.choice([0.0, 0.1, 0.25, 0.4]))
    declared = [[a, b, "(none)"] for a, b, _ in dl(rng.choice([0.0, 0.0, 0.1, 0.3]))]
    return {"kind": "sort", "tables": names, "inferred": inferred, "declared": declared}


def _yaml_scalar(s):
    return json.dumps(s)


def gen_recipe_case(rng, continuation=False):
    """A recipe as a structure + its text. Top-level templates over a small pool of table names."""
    pool = rng.sample(NAMES[:6], rng.choice([2, 3, 3, 4, 5]))
    if rng.random() < 0.35:
        pool.append("__Hid")
    ntpl = rng.choice([2, 3, 3, 4, 5, 6])
    tpls = []
    nick_n = 0
    for i in range(ntpl):
        tb = rng.choice(pool)
        t = {"table": tb, "fields": [], "friends": []}
        if rng.random() < 0.4:
            nick_n += 1
            t["nickname"] = f"n{nick_n}"
        if rng.random() < 0.3:
            t["count"] = rng.choice([1, 2, 3])
        if rng.random() < (0.45 if continuation else 0.12):
            t["just_once"] = True
        if rng.random() < 0.2:
            t["update_key"] = rng.choice(KEYS)
        tpls.append(t)
    names_for_ref = [(t["table"], t.get("nickname")) for t in tpls]

    def target(i, allow_forward=True):
        j = rng.randrange(len(tpls)) if allow_forward else rng.randrange(i + 1)
        tb, nick = names_for_ref[j]
        return nick if (nick and rng.random() < 0.6) else tb

    def mkfields(i, depth=0):
        out = []
        for f in rng.sample(FIELDS, rng.choice([0, 1, 2, 2, 3])):
            r = rng.random()
            if r < 0.3:
                out.append((f, ("lit", rng.choice([1, 2, "v", "w"]))))
            elif r < 0.6:
                out.append((f, ("ref", target(i))))
            elif r < 0.72:
                out.append((f, ("rref", tpls[rng.randrange(i)]["table"]) if i else ("lit", "q")))
            elif r < 0.84 and depth < 2:
                out.append((f, ("nested", {"table": rng.choice(pool), "fields": mkfields(i, depth + 1), "friends": []})))
            elif r < 0.92 and not continuation:
                out.append((f, ("choice", [target(i), target(i)])))
            else:
                out.append((f, ("lit", "z")))
        if rng.random() < 0.2:
            out.append(("__secret", ("ref", target(i)) if rng.random() < 0.5 else ("lit", 7)))
        return out

    for i, t in enumerate(tpls):
        t["fields"] = mkfields(i)
        if rng.random() < 0.25:
            t["friends"] = [{"table": rng.choice(pool), "fields": mkfields(i, 1), "friends": []}]
    decls = []
    vis = [p for p in pool if not hidden(p)]
    if rng.random() < 0.3 and vis:
        for nm in rng.sample(vis, rng.randint(1, min(2, len(vis)))):
            decls.append([nm, [rng.choice(vis)]])
    case = {"kind": "recipe", "templates": tpls, "decls": decls, "text": render_recipe(tpls)}
    if continuation:
        case["kind"] = "chain"
        case["runs"] = rng.choice([2, 2, 3])
    return case


def render_template(t, ind):
    pad = " " * ind
    lines = [f"{pad}- object: {t['table']}"]
    p2 = pad + "  "
    for k in ("nickname", "count", "update_key"):
        if t.get(k) is not None:
            lines.append(f"{p2}{k}: {t[k]}")
    if t.get("just_once"):
        lines.append(f"{p2}just_once: true")
    if t["fields"]:
        lines.append(f"{p2}fields:")
        for f, (kind, v) in t["fields"]:
            p3 = p2 + "  "
            if kind == "lit":
                lines.append(f"{p3}{f}: {_yaml_scalar(v)}")
            elif kind == "ref":
                lines.append(f"{p3}{f}:")
                lines.append(f"{p3}  reference: {v}")
            elif kind == "rref":
                lines.append(f"{p3}{f}:")
                lines.append(f"{p3}  random_reference: {v}")
            elif kind == "nested":
                lines.append(f"{p3}{f}:")
                lines += render_template(v, ind + 6)
            elif kind == "choice":
                lines.append(f"{p3}{f}:")
                lines.append(f"{p3}  random_choice:")
                for tg in v:
                    lines.append(f"{p3}    - reference: {tg}")
    if t["friends"]:
        lines.append(f"{p2}friends:")
        for fr in t["friends"]:
            lines += render_template(fr, ind + 4)
    return lines


def render_recipe(tpls):
    lines = []
    for t in tpls:
        lines += render_template(t, 0)
    return "\n".join(lines) + "\n"


def decl_yaml(decls):
    lines = []
    for obj, targets in decls:
        for t in targets:
            lines.append(f"- sf_object: {obj}")
            lines.append(f"  load_after: {t}")
    return "\n".join(lines) + "\n"


# ------------------------------------------------------------------ pinned access kind


def pinned_access():
    """The access kind the pin group extracted for `intertable_dependencies` in `__setstate__`."""
    import os
    import re

    p = os.path.join(common.LEAN_DIR, "SnowModel", "Generated", "MappingGen.lean")
    try:
        with open(p) as f:
            m = re.search(r'def depsLoadAccess : String :=\s*"(\w+)"', f.read())
        return m.group(1) if m else "get"
    except OSError:
        return "get"


def visible_deps(deps):
    """Dependencies whose source row/field reaches an output stream (hidden ones are recorded but never emitted)."""
    return [d for d in deps if not hidden(d[0]) and not hidden(d[2])]


def observed_in_rows(rows):
    out = []
    for table, fields in rows:
        for k, v in fields:
            if isinstance(v, dict) and v.get("t") == "ref":
                d = [table, v["table"], k]
                if d not in out:
                    out.append(d)
    return out


# ------------------------------------------------------------------ entry points


def check_cases(cases, rep, rng=None, api_fraction=0.35):
    reqs, meta = [], []
    import random as _random

    rng = rng or _random.Random(0)
    for case in cases:
        kind = case["kind"]
        if kind == "func":
            out, mp = real_mapping_func(case)
            tables, refs = facts_from_func_case(case)
            oracle_mapping(rep, case, tables, refs, out, "func")
            if mp is not None:
                for b in mapping_shape_problems(mp):
                    rep.violation("C16:mapping-shape", b, case)
            reqs.append({"m": "c16.mapping", "tables": case["tables"], "deps": case["deps"], "decls": case.get("decls", [])})
            meta.append((case, "mapping", out))
            rep.case(case, nontrivial=len(case["tables"]) >= 2 and len(case["deps"]) >= 1)
            rep.count("func:shape:" + case.get("shape", "given"))
            rep.count("func:outcome:" + ("ok" if "ok" in out else out["error"][0]))
            if case.get("decls"):
                rep.count("func:with-declarations")
            if "ok" in out:
                if any(l["after"] for s in out["ok"] for l in s["lookups"]):
                    rep.count("func:has-after")
                if any(s["update_key"] for s in out["ok"]):
                    rep.count("func:has-upsert")
        elif kind == "sort":
            out = real_sort(case)
            reqs.append({"m": "c16.sort", "tables": case["tables"], "inferred": case["inferred"], "declared": case["declared"], "inferred_truthy": bool(case["inferred"])})
            meta.append((case, "sort", out))
            rep.case(case, nontrivial=len(case["tables"]) >= 3 and bool(case["inferred"] or case["declared"]))
            if isinstance(out, list):
                rep.count("sort:duplicates" if len(set(out)) != len(out) else "sort:no-duplicates")
                if sorted(set(out)) != sorted(case["tables"]):
                    rep.violation("C16:sort-not-the-tables", "sort_dependencies does not return exactly the given tables", case, sorted(case["tables"]), out)
            else:
                rep.violation("C16:sort-raises", f"sort_dependencies raised {out}", case, None, out)
        elif kind == "recipe":
            res, minput, out, mp = run_recipe_mapping(case["text"], case.get("decls", []))
            rep.count("recipe:run:" + res.outcome)
            if res.outcome != "ok":
                rep.case(case, nontrivial=False)
                continue
            tables_in, deps = minput
            if case.get("templates"):
                tables, _ = facts_from_recipe(case)  # what the recipe declares …
                _, refs = facts_from_rows(res, [])  # … and which references the run emitted
            else:  # hand-written replay without structure
                tables, refs = facts_from_rows(res, tables_in)
            oracle_mapping(rep, case, tables, refs, out, "recipe")
            # run-time discovery: the recorded dependencies are exactly the references that were emitted
            obs = observed_in_rows(res.rows)
            if sorted(obs) != sorted(visible_deps(deps)):
                rep.violation("C16:dependencies-differ-from-emitted-references", "summary.intertable_dependencies is not the set of emitted references", case, sorted(obs), sorted(deps))
            if mp is not None:
                for b in mapping_shape_problems(mp):
                    rep.violation("C16:mapping-shape", b, case)
            reqs.append({"m": "c16.mapping", "tables": tables_in, "deps": deps, "decls": case.get("decls", [])})
            meta.append((case, "mapping", out))
            rep.case(case, nontrivial=len(tables) >= 2 and len(deps) >= 1)
            rep.count("recipe:outcome:" + ("ok" if "ok" in out else out["error"][0]))
            rep.count("recipe:deps", len(deps))
            if any(hidden(r[0]) for r in res.rows):
                rep.count("recipe:hidden-table-rows")
            if "ok" in out and any(l["after"] for s in out["ok"] for l in s["lookups"]):
                rep.count("recipe:has-after")
            if rng.random() < api_fraction or case.get("api"):
                # the public entry point writes the same mapping (random references may differ run to run,
                # so compare only when the recipe has no random element)
                if not _has_random(case):
                    api = api_mapping(case["text"], decl_yaml(case["decls"]) if case.get("decls") else None)
                    rep.count("recipe:api-compared")
                    if api != out:
                        rep.disagreement("c16.api-vs-function", case, out, api)
        elif kind == "chain":
            check_chain(case, rep, reqs, meta)
        elif kind == "outputs":
            check_outputs(case, rep, reqs, meta, rng)
        else:
            rep.notes.append(f"unknown case kind {kind}")
    res = common.model_batch(reqs)
    for (case, what, real), (st, val) in zip(meta, res):
        rep.traces_validated += 1
        if st != "ok":
            rep.disagreement("c16." + what, case, val, real)
            continue
        if what == "mapping":
            if val["result"] != _norm_err(real):
                rep.disagreement("c16.mapping", case, val["result"], real)
        elif what == "sort":
            if val != real:
                rep.disagreement("c16.sort", case, val, real)
        elif what == "continued_deps":
            if val != real:
                rep.disagreement("c16.continued_deps", case, val, real)


def _norm_err(out):
    if "error" in out and out["error"][0] == "DataGenError":
        # the model carries the table name, the code a message
        msg = out["error"][1]
        import re

        m = re.match(r"Multiple record type columns for (.*?): \[", msg)
        return {"error": ["DataGenError", m.group(1) if m else msg]}
    return out


def _has_random(case):
    def walk(t):
        for _, (kind, v) in t["fields"]:
            if kind in ("rref", "choice"):
                return True
            if kind == "nested" and walk(v):
                return True
        return any(walk(fr) for fr in t["friends"])

    return any(walk(t) for t in case.get("templates", []))


def _has_choice(case):
    def walk(t):
        for _, (kind, v) in t["fields"]:
            if kind == "choice":
                return True
            if kind == "nested" and walk(v):
                return True
        return any(walk(fr) for fr in t["friends"])

    return any(walk(t) for t in case.get("templates", []))


def gen_outputs_case(rng):
    """A recipe whose dependency set does not depend on chance, to be driven through every output configuration."""
    for _ in range(50):
        case = gen_recipe_case(rng)
        if not _has_choice(case):
            break
    case["kind"] = "outputs"
    return case


def check_chain(case, rep, reqs, meta):
    """run 1 (fresh, writes a continuation) then continued runs; the mapping must not change."""
    decls = case.get("decls", [])
    res, minput, out1, _ = run_recipe_mapping(case["text"], decls, want_continuation=True)
    rep.count("chain:run1:" + res.outcome)
    if res.outcome != "ok" or res.continuation is None:
        rep.case(case, nontrivial=False)
        return
    tables_in, deps1 = minput
    if case.get("templates"):
        tables, _ = facts_from_recipe(case)
        _, refs = facts_from_rows(res, [])
    else:
        tables, refs = facts_from_rows(res, tables_in)
    oracle_mapping(rep, case, tables, refs, out1, "chain")
    reqs.append({"m": "c16.mapping", "tables": tables_in, "deps": deps1, "decls": decls})
    meta.append((case, "mapping", out1))
    cont = res.continuation
    prev_deps = deps1
    nontrivial = False
    access = pinned_access()
    for r in range(1, case.get("runs", 2)):
        res2, minput2, out2, _ = run_recipe_mapping(case["text"], decls, continuation=cont, want_continuation=True)
        rep.count("chain:continued:" + res2.outcome)
        if res2.outcome != "ok":
            break
        tables2, deps2 = minput2
        nontrivial = nontrivial or bool(deps1)
        # model of the dependency set of a continued run
        obs2 = observed_in_rows(res2.rows)
        reqs.append({"m": "c16.continued_deps", "saved": visible_deps(prev_deps), "observed": obs2, "access": access})
        meta.append((case, "continued_deps", visible_deps(deps2)))
        reqs.append({"m": "c16.mapping", "tables": tables2, "deps": deps2, "decls": decls})
        meta.append((case, "mapping", out2))
        # clause 4 of the property
        if out2 != out1:
            lost = [d for d in deps1 if d not in deps2]
            if lost:
                rep.count("chain:dependencies-lost")
                rep.violation(
                    "C16:continuation-loses-dependencies",
                    f"continued run #{r}: the mapping differs from the first run's; dependencies {lost} recorded by the "
                    "first run are absent from the continued run's summary",
                    case, out1, out2)
            else:
                rep.violation("C16:continuation-changes-mapping", f"continued run #{r}: mapping differs from the first run's", case, out1, out2)
            break
        rep.count("chain:mapping-equal")
        prev_deps = deps2
        cont = res2.continuation
        if cont is None:
            break
    rep.case(case, nontrivial=nontrivial)


FIXED_CASES = [
    # sorter: cycle with and without declarations (the declared branch appends twice)
    {"kind": "sort", "tables": ["A", "B", "C"], "inferred": [["A", "B", "f"], ["B", "A", "g"]], "declared": []},
    {"kind": "sort", "tables": ["A", "B", "C"], "inferred": [["A", "B", "f"], ["B", "A", "g"]], "declared": [["C", "A", "(none)"]]},
    {"kind": "sort", "tables": ["A", "B", "C", "D"], "inferred": [["A", "B", "f"], ["B", "A", "g"], ["C", "A", "g"]], "declared": [["C", "A", "(none)"], ["A", "C", "(none)"]]},
    {"kind": "sort", "tables": ["B", "A"], "inferred": [["A", "Zz", "f"], ["B", "Zz", "f"]], "declared": []},
    # mapping: self reference, update keys, record type, person contact
    {"kind": "func", "shape": "given", "tables": [{"name": "A", "fields": ["r", "x"], "templates": [None]}, {"name": "B", "fields": ["a"], "templates": [None, "k"]}], "deps": [["A", "B", "r"], ["B", "A", "a"]], "decls": []},
    {"kind": "func", "shape": "given", "tables": [{"name": "A", "fields": ["Parent", "RecordType"], "templates": [None]}], "deps": [["A", "A", "Parent"]], "decls": []},
    {"kind": "func", "shape": "given", "tables": [{"name": "Account", "fields": ["PersonContactId", "n"], "templates": [None]}, {"name": "PersonContact", "fields": ["a"], "templates": [None]}, {"name": "Contact", "fields": ["p"], "templates": [None]}], "deps": [["Account", "PersonContact", "PersonContactId"], ["PersonContact", "Account", "a"], ["Contact", "PersonContact", "p"]], "decls": []},
    {"kind": "func", "shape": "given", "tables": [{"name": "A", "fields": ["f"], "templates": [None]}, {"name": "B", "fields": ["g"], "templates": [None]}, {"name": "C", "fields": [], "templates": [None]}], "deps": [["A", "B", "f"], ["B", "A", "g"]], "decls": [["C", ["A"]], ["A", ["C"]]]},
]


def _tpl(table, fields=(), **kw):
    return dict({"table": table, "fields": [list(f) for f in fields], "friends": []}, **kw)


_OUT_FIXED = [
    _tpl("A", [["name", ["lit", "x"]]], update_key="name"),
    _tpl("A", [["g", ["lit", 1]]]),
    _tpl("B", [["f", ["ref", "A"]]], count=2),
]
FIXED_CASES.append({"kind": "outputs", "templates": _OUT_FIXED, "decls": [], "text": render_recipe(_OUT_FIXED)})


def run(ctx, rep, findings):
    rep.rule = (
        "function level: 1-8 TableInfos (0-5 fields, 1-3 templates with update keys), dependency graphs "
        "(acyclic / self / cyclic / arbitrary / Salesforce special names, occasional targets without a table, "
        "polymorphic fields), 0-3 load_after declarations; raw sort_dependencies calls; end to end: recipes of "
        "2-6 top-level templates over 2-6 tables with reference / random_reference / nested objects / friends / "
        "random_choice of references / hidden tables and fields / update keys / just_once, with and without "
        "declarations; continuation chains of 2-3 runs; output-configuration cases: one chance-free recipe through "
        "snowfakery.api.generate_data with no output (debug), json, txt, sql, sqlite dburl, CSV folder, dburl+CSV "
        "folder, and continued runs across configurations, all mappings compared; the visible fields the oracle "
        "checks come from the recipe's own structure. Non-trivial: >= 2 tables and >= 1 dependency "
        "(sort: >= 3 tables and a dependency). Distinct = distinct case hash."
    )
    rep.extra["pinned_deps_access"] = pinned_access()
    cases = [f["input"] for f in findings if f.get("input")]
    cases += ctx.corpus()
    cases += FIXED_CASES
    rng = ctx.rng
    for _ in range(ctx.scale(4000, 60000)):
        cases.append(gen_func_case(rng))
    for _ in range(ctx.scale(1500, 20000)):
        cases.append(gen_sort_case(rng))
    n_recipe = ctx.scale(1200, 12000)
    n_chain = ctx.scale(400, 4000)
    for i in range(max(n_recipe, n_chain)):
        if i < n_recipe:
            cases.append(gen_recipe_case(rng))
        if i < n_chain:
            cases.append(gen_recipe_case(rng, continuation=True))
    for _ in range(ctx.scale(45, 500)):
        cases.append(gen_outputs_case(rng))
    for i in range(0, len(cases), 500):
        check_cases(cases[i : i + 500], rep, rng)
        if ctx.time_left() < 60:
            rep.notes.append("stopped early: time budget")
            break


def shrink(case, signature):
    """Drop templates / tables / dependencies while the same oracle signature persists."""

    def fails(c):
        r = common.Report("C16")
        try:
            check_cases([c], r)
        except Exception:  # noqa
            return False
        return any(v["signature"] == signature for v in r.violations)

    kind = case.get("kind")
    if kind in ("recipe", "chain", "outputs") and case.get("templates"):
        def f_t(tpls):
            return fails(dict(case, templates=tpls, text=render_recipe(tpls)))

        tpls = common.shrink_list(case["templates"], f_t)
        case = dict(case, templates=tpls, text=render_recipe(tpls))
        # drop fields
        for i in range(len(tpls)):
            def f_f(fl, i=i):
                t2 = [dict(t) for t in case["templates"]]
                t2[i] = dict(t2[i], fields=fl)
                return fails(dict(case, templates=t2, text=render_recipe(t2)))

            if len(case["templates"][i]["fields"]) >= 2:
                fl = common.shrink_list(case["templates"][i]["fields"], f_f)
                t2 = [dict(t) for t in case["templates"]]
                t2[i] = dict(t2[i], fields=fl)
                case = dict(case, templates=t2, text=render_recipe(t2))
        if case.get("decls") and fails(dict(case, decls=[])):
            case = dict(case, decls=[])
        return case
    if kind == "func":
        for key in ("deps", "tables", "decls"):
            if len(case.get(key, [])) >= 2:
                case = dict(case, **{key: common.shrink_list(case[key], lambda l, key=key: fails(dict(case, **{key: l})))})
            if key == "decls" and case.get("decls") and fails(dict(case, decls=[])):
                case = dict(case, decls=[])
        return case
    return case


def replay(case, rep):
    check_cases([case], rep, api_fraction=0.0)
